#!/bin/bash
# usage: try_mutant.sh <patch.diff> <property> [tier]   — apply to /repo, run the check, undo
set -u
patch=$(realpath $1); prop=$2; tier=${3:-quick}
cd /verif
if ! git -C /repo apply --check "$patch" 2>/dev/null; then echo "PATCH-DOES-NOT-APPLY $patch"; exit 3; fi
git -C /repo apply "$patch"
python3 tools/check.py --property "$prop" --tier "$tier" 2>/dev/null | tail -3
rc=${PIPESTATUS[0]}
git -C /repo checkout -- .
exit $rc
