#!/usr/bin/env python3
"""copies confirmed staged mutants from .cache/staging/<P>/<k> to seeded/<P>-<k>/ (patch.diff, demo.cc, meta.json)"""
import json, os, shutil, sys
V = os.path.dirname(os.path.dirname(os.path.abspath(__file__)))
st = os.path.join(V, ".cache", "staging")
for P in sorted(os.listdir(st)):
    d = os.path.join(st, P)
    if not os.path.isdir(d) or not P.startswith("C"):
        continue
    for k in sorted(os.listdir(d)):
        md = os.path.join(d, k)
        cf = os.path.join(md, "confirm.json")
        if not os.path.isfile(cf):
            continue
        c = json.load(open(cf))
        if not c.get("confirmed"):
            continue
        dst = os.path.join(V, "seeded", f"{P}-{k}")
        os.makedirs(dst, exist_ok=True)
        shutil.copy(os.path.join(md, "patch.diff"), dst)
        shutil.copy(os.path.join(md, "demo.cc"), dst)
        meta = {}
        try:
            meta = json.load(open(os.path.join(md, "meta.json")))
        except Exception:
            pass
        old = {}
        if os.path.exists(os.path.join(dst, "meta.json")):
            old = json.load(open(os.path.join(dst, "meta.json")))
        out = {
            "id": f"{P}-{k}",
            "property": meta.get("property", P),
            "summary": meta.get("summary", ""),
            "needs_to_manifest": meta.get("needs_to_manifest", ""),
            "files_changed": meta.get("files_changed", []),
            "demo_compile": meta.get("demo_compile", ""),
            "origin": "independent sub-agent given only the property text and a scratch worktree of /repo",
            "confirmed_by_me": {
                "how": "tools/confirm_mutants.py in a scratch worktree: baseline demo passes; with patch: library builds, draco_tests + draco_factory_tests give the baseline result, demo fails",
                "demo_passes_without_patch": c.get("demo_passes_without_patch"),
                "builds_with_patch": c.get("builds_with_patch"),
                "tests_same_as_baseline": c.get("tests_same_as_baseline"),
                "demo_fails_with_patch": c.get("demo_fails_with_patch"),
                "demo_output_with_patch": c.get("demo_patched_tail", "")[-300:],
            },
            "detection": old.get("detection", {}),
        }
        json.dump(out, open(os.path.join(dst, "meta.json"), "w"), indent=1)
        print("installed", dst)
