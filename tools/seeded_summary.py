#!/usr/bin/env python3
"""prints the per-property summary of the seeded changes (seeded/*/meta.json): how many, how each was decided"""
import json, os, collections
V = os.path.dirname(os.path.dirname(os.path.abspath(__file__)))
by = collections.defaultdict(list)
for d in sorted(os.listdir(os.path.join(V, "seeded"))):
    f = os.path.join(V, "seeded", d, "meta.json")
    if not os.path.isfile(f):
        continue
    m = json.load(open(f))
    p = d.split("-")[0]
    det = m.get("detection", {}).get(p)
    if m.get("retired"):
        by[p].append((d, "retired: equivalent on the current tree", ""))
        continue
    if not isinstance(det, dict):
        by[p].append((d, "not-run" if "note" not in m.get("detection", {}) else "patch-no-longer-applies", ""))
        continue
    k = det.get("replay_kind") or ""
    if det.get("no_failing_input_found"):
        k = "no-failing-input-found"
    by[p].append((d, det.get("verdict"), k))
print("| property | seeded | caught with a concrete failing input | caught, no failing input found | missed / other |")
print("|---|---|---|---|---|")
tot = [0, 0, 0, 0]
for p in sorted(by):
    rows = by[p]
    conc = [d for d, v, k in rows if v == "caught" and k not in ("no-failing-input-found", "build-failure")]
    nfi = [d for d, v, k in rows if v == "caught" and k in ("no-failing-input-found", "build-failure")]
    other = [f"{d} ({v})" for d, v, k in rows if v != "caught"]
    tot[0] += len(rows); tot[1] += len(conc); tot[2] += len(nfi); tot[3] += len(other)
    print(f"| {p} | {len(rows)} | {len(conc)} | {', '.join(nfi) or '–'} | {', '.join(other) or '–'} |")
print(f"| all | {tot[0]} | {tot[1]} | {tot[2]} | {tot[3]} |")
