#!/usr/bin/env python3
"""Maintains MANIFEST.json from the table below (claimed checks) + properties.jsonl (not_applicable)."""
import json
import os

V = os.path.dirname(os.path.dirname(os.path.abspath(__file__)))
CLAIMS = json.load(open(os.path.join(V, "tools", "claims.json")))

m = json.load(open(os.path.join(V, "MANIFEST.json")))
checks = []
for pid, c in sorted(CLAIMS.items()):
    checks.append({
        "property_id": pid,
        "quick_cmd": f"python3 tools/check.py --property {pid} --tier quick",
        "thorough_cmd": f"python3 tools/check.py --property {pid} --tier thorough",
        "evidence_file": f"evidence/{pid}.json",
        "replay_cmd_template": "python3 tools/check.py --replay {path}",
        "engine": "lean-proof+correspondence",
        "level_claimed": {"category": c.get("category", "proof"), "text": c["text"], "design_ref": f"DESIGN.md §7 {pid}"},
        "level_note": c.get("note", "trusted: Lean kernel; axioms propext/Classical.choice/Quot.sound; the hand-written model "
                                     "(tied to the working tree by the correspondence run, bounded by its generators); translator; harness"),
        "technique": c.get("technique", "Lean 4 proof over executable model + correspondence check"),
    })
m["checks"] = checks
props = [json.loads(l)["id"] for l in open(os.path.join(V, "properties.jsonl"))]
NA = json.load(open(os.path.join(V, "tools", "not_applicable.json")))
m["not_applicable"] = [{"property_id": p, "reason": NA.get(p, "check not built yet (machinery in progress; see DESIGN.md §10)")}
                       for p in props if p not in CLAIMS]
m["engines"] = [{"name": "lean-proof+correspondence", "path": "tools/check.py",
                 "serves_properties": sorted(CLAIMS), "kind_free_text":
                 "Lean 4 theorems over an executable model (lean/), translator-regenerated constants, differential "
                 "correspondence against a fresh out-of-tree build of /repo (harness/), property oracle on the implementation"}]
json.dump(m, open(os.path.join(V, "MANIFEST.json"), "w"), indent=1)
print("claimed:", sorted(CLAIMS))
