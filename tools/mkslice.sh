#!/bin/bash
# usage: mkslice.sh <name>
# Private workspace for one implementation slice: /tmp/slice_<name>/verif (git clone of /verif, with the
# built lean/.lake copied over; .cache is rebuilt there (cmake paths are absolute)) and /tmp/slice_<name>/repo (detached worktree of /repo).
# Run the checks there with  VERIF_REPO=/tmp/slice_<name>/repo python3 tools/check.py …
set -e
n=$1
d=/tmp/slice_$n
mkdir -p "$d"
git clone -q /verif "$d/verif"
cp -a /verif/lean/.lake "$d/verif/lean/.lake" 2>/dev/null || true
git -C /repo worktree add --detach "$d/repo" HEAD >/dev/null 2>&1
git -C "$d/verif" checkout -q -b "slice_$n"
echo "$d"
