#!/usr/bin/env python3
"""Appends split-rich Edgebreaker meshes to the frozen C05 corpus (run ONCE).

Grids with randomly removed triangles (holes, pinched vertices, handles when wrapped to a torus) make the
Edgebreaker traversal emit many topology split events — including faces that are the source of two events, a
situation no shipped .drc file and none of the first corpus sections contains.  The streams are written by the encoder
of the tree at freeze time (standard and valence traversal, several speeds), stored as corpus/legacy/splitrich_*.drc
(kind "legacy": a file) with their ordered decodes appended to corpus/decodes.txt.xz.

usage: VERIF_REPO=… tools/freeze_splitrich.py      refuses to run when splitrich_* entries already exist"""
import json
import os
import random
import struct
import sys

sys.path.insert(0, os.path.dirname(os.path.abspath(__file__)))
from vlib import common as C  # noqa: E402
from vlib import implside  # noqa: E402
from props import corpus as K  # noqa: E402
from props import geomgen as G  # noqa: E402
from props import robustgen as R  # noqa: E402
from freeze_corpus import sha  # noqa: E402

SEED = "draco-c05-splitrich-v1"
N = 260


def torus_with_holes(rng):
    nx, ny = rng.randint(3, 6), rng.randint(3, 6)
    tris = []
    for y in range(ny):
        for x in range(nx):
            a, b = y * nx + x, y * nx + (x + 1) % nx
            c, d = ((y + 1) % ny) * nx + x, ((y + 1) % ny) * nx + (x + 1) % nx
            tris += [(a, b, d), (a, d, c)] if rng.random() < 0.7 else [(a, b, c), (b, d, c)]
    p = rng.choice([0.08, 0.15, 0.3])
    keep = [t for t in tris if rng.random() >= p] or tris[:1]
    if rng.random() < 0.5:
        rng.shuffle(keep)
    used = sorted({v for t in keep for v in t})
    idx = {v: i for i, v in enumerate(used)}
    faces = [tuple(idx[v] for v in t) for t in keep]
    pos = b"".join(struct.pack("<fff", float(v % nx), float(v // nx), G.f32(rng.random())) for v in used)
    return G.Geom(True, len(used), faces, [G.Attr(G.POSITION, G.DT["f32"], 3, False, 0, len(used), None, pos)])


def main():
    idx = json.load(open(K.INDEX))
    if any(e["name"].startswith("legacy/splitrich_") for e in idx["entries"]):
        print("split-rich streams are already frozen; frozen history is never regenerated")
        return 2
    rng = random.Random(SEED)
    hd = implside.ensure(["plain"])["plain"]
    work = os.path.join(C.CACHE, "freeze-splitrich")
    os.makedirs(work, exist_ok=True)
    lines, names = [], []
    for k in range(N):
        g = torus_with_holes(rng) if k % 3 == 0 else R.holey_grid(rng)
        sub = rng.choice([0, 2])
        speed = rng.choice([0, 1, 3, 5, 7, 10])
        toks = ["expert=1", "method=1", f"submethod={sub}", f"speed={speed},{speed}", "q0=" + str(rng.choice([8, 11, 14]))]
        for i, a in enumerate(g.atts[1:], 1):
            pass
        lines.append("enc " + " ".join(toks) + " -- " + g.to_text())
        names.append(f"{'torus' if k % 3 == 0 else 'grid'}_f{len(g.faces)}_{'val' if sub == 2 else 'std'}_s{speed}")
    outs = implside.run_ops(hd, lines, work, "enc")
    cand = [(n, bytes.fromhex(o.split()[1])) for n, o in zip(names, outs) if o.startswith("ok ")]
    ops = []
    for _, b in cand:
        ops += ["dec - " + b.hex(), "dec 01234 " + b.hex()]
    outs = implside.run_ops(hd, ops, work, "dec")
    seen, kept, dec_lines = set(), [], []
    for i, (name, b) in enumerate(cand):
        d, ds = outs[2 * i], outs[2 * i + 1]
        if not d.startswith("ok ") or b in seen or len(b) > 1500:
            continue
        seen.add(b)
        f = f"splitrich_{len(kept):03d}_{name}.drc"
        with open(os.path.join(K.ROOT, "legacy", f), "wb") as fh:
            fh.write(b)
        hdr = K.header_of(b)
        e = {"name": "legacy/" + f, "kind": "legacy", "file": "legacy/" + f, "size": len(b), "sha256": sha(b),
             "decode_sha256": sha(d), "decode_status": "ok", "decode_head": [t[:48] for t in d.split()[:8]],
             "decode_skip_sha256": sha(ds), "version": f"{hdr[0]}.{hdr[1]}", "class": K.stream_class(b),
             "origin": "written by the encoder of the tree at freeze time (tools/freeze_splitrich.py)"}
        kept.append(e)
        dec_lines.append(f"{e['name']} {d}")
    idx["entries"] += kept
    idx.setdefault("appended", []).append({"seed": SEED, "entries": len(kept)})
    C.write_json(K.INDEX, idx)
    p = os.path.join(K.ROOT, "decodes.txt.xz")
    K.write_xz(p, K.read_xz(p).rstrip("\n") + "\n" + "\n".join(dec_lines) + "\n")
    print(f"appended {len(kept)} split-rich streams ({sum(e['size'] for e in kept)} bytes)")
    problems = K.verify()
    for pr in problems:
        print("CORPUS-PROBLEM", pr)
    return 1 if problems else 0


if __name__ == "__main__":
    sys.exit(main())
