#!/usr/bin/env python3
"""union_merge.py <file>…: resolves git conflict markers by keeping both sides (for import lists / op registries)"""
import re, sys
for path in sys.argv[1:]:
    s = open(path).read()
    s = re.sub(r"<<<<<<< [^\n]*\n(.*?)=======\n(.*?)>>>>>>> [^\n]*\n", lambda m: m.group(1) + m.group(2), s, flags=re.S)
    open(path, "w").write(s)
