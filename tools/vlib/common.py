"""Paths, subprocess helpers, evidence / replay / known-findings handling."""
import json
import os
import random
import resource
import subprocess
import sys
import time

VERIF = os.path.dirname(os.path.dirname(os.path.dirname(os.path.abspath(__file__))))
REPO = os.environ.get("VERIF_REPO", "/repo")
CACHE = os.path.join(VERIF, ".cache")
LEAN = os.path.join(VERIF, "lean")
EVIDENCE = os.path.join(VERIF, "evidence")
REPLAYS = os.path.join(VERIF, "replays")
NCPU = os.cpu_count() or 8

ALLOWED_AXIOMS = {"propext", "Classical.choice", "Quot.sound"}
TRUSTED_BASE = [
    "Lean 4.33.0 kernel (theorems re-elaborated by `lake build` on every run; leanchecker in the thorough tier)",
    "axioms allowed in property theorems: propext, Classical.choice, Quot.sound (audited by `#print axioms` on every run); no sorry/admit/axiom/native_decide/bv_decide/implemented_by/unsafe (source audit on every run)",
    "hand-written Lean model of the C++ (lean/DracoModel), tied to /repo's working tree by the correspondence run of this check (differential, bounded by its generators)",
    "translator tools/translate.py (constants and tables regenerated from /repo's source into lean/Generated on every run)",
    "C++ harness (harness/*.cc), python orchestration and comparison (tools/)",
    "g++ 12 code generation, libstdc++, sanitizer runtimes",
]


def log(*a):
    print(*a, file=sys.stderr, flush=True)


def seed_from_env():
    try:
        return int(os.environ.get("VERIF_SEED", "20260929"))
    except ValueError:
        return 20260929


def big_stack():
    try:
        resource.setrlimit(resource.RLIMIT_STACK, (resource.RLIM_INFINITY, resource.RLIM_INFINITY))
    except (ValueError, OSError):
        try:
            soft, hard = resource.getrlimit(resource.RLIMIT_STACK)
            resource.setrlimit(resource.RLIMIT_STACK, (hard, hard))
        except (ValueError, OSError):
            pass


def run(cmd, cwd=None, timeout=None, env=None, stdin=None, preexec=None):
    e = dict(os.environ)
    if env:
        e.update(env)
    try:
        p = subprocess.run(cmd, cwd=cwd, timeout=timeout, env=e, input=stdin,
                           stdout=subprocess.PIPE, stderr=subprocess.PIPE, text=True,
                           errors="replace", preexec_fn=preexec)
        return p.returncode, p.stdout, p.stderr
    except subprocess.TimeoutExpired as ex:
        out = ex.stdout.decode(errors="replace") if isinstance(ex.stdout, bytes) else (ex.stdout or "")
        err = ex.stderr.decode(errors="replace") if isinstance(ex.stderr, bytes) else (ex.stderr or "")
        return -999, out, err


def write_json(path, obj):
    os.makedirs(os.path.dirname(path), exist_ok=True)
    tmp = path + ".tmp"
    with open(tmp, "w") as f:
        json.dump(obj, f, indent=1, sort_keys=False)
        f.write("\n")
    os.replace(tmp, path)


def load_known_findings():
    p = os.path.join(VERIF, "known_findings.json")
    if not os.path.exists(p):
        return {"known": [], "fixed": []}
    with open(p) as f:
        return json.load(f)


class Timer:
    def __init__(self):
        self.t0 = time.time()

    def s(self):
        return round(time.time() - self.t0, 2)
