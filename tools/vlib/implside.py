"""Implementation side: build /repo's working tree + harness, run op files with crash attribution."""
import importlib.util
import os
import sys

from . import common as C

_spec = importlib.util.spec_from_file_location("build_repo", os.path.join(C.VERIF, "tools", "build_repo.py"))
build_repo = importlib.util.module_from_spec(_spec)
_spec.loader.exec_module(build_repo)

SAN_ENV = {
    "ASAN_OPTIONS": "detect_leaks=0:abort_on_error=0:allocator_may_return_null=1:max_allocation_size_mb=4096:malloc_limit_mb=6000",
    "UBSAN_OPTIONS": "print_stacktrace=1:halt_on_error=1",
    "TSAN_OPTIONS": "halt_on_error=1:second_deadlock_stack=1",
}


def ensure(flavours):
    """returns {flavour: harness_dir, 'digest': …}; raises SystemExit on build failure"""
    return build_repo.ensure(flavours)


def run_ops(harness_dir, lines, workdir, tag, exe="harness_main", timeout=1800, env=None, atomic=False):
    """Runs the op lines; returns list of outputs (one per line). A crash, sanitizer abort or
    timeout is attributed to the line being executed: its output becomes
    'CRASH <kind> <first report line>' and the run resumes with the next line."""
    os.makedirs(workdir, exist_ok=True)
    outs = []
    start = 0
    e = dict(SAN_ENV)
    if env:
        e.update(env)
    attempt = 0
    hangs = 0
    while start < len(lines):
        attempt += 1
        f = os.path.join(workdir, f"{tag}.ops.{attempt}.txt")
        with open(f, "w") as fh:
            fh.write("\n".join(lines[start:]) + "\n")
        rc, out, err = C.run([os.path.join(harness_dir, exe), f], timeout=timeout, env=e, preexec=C.big_stack)
        got = out.split("\n")
        if got and got[-1] == "":
            got = got[:-1]
        remaining = len(lines) - start
        if rc == 0 and len(got) == remaining:
            outs.extend(got)
            break
        if atomic:
            # concurrent batch: the whole batch is the unit of failure
            kind = "timeout" if rc == -999 else f"rc={rc}"
            rep = ""
            for l in err.split("\n"):
                if "ThreadSanitizer" in l or "ERROR:" in l or "runtime error" in l:
                    rep = l.strip()[:300]
                    break
            with open(os.path.join(workdir, f"{tag}.stderr.txt"), "w") as fh:
                fh.write(err[-20000:])
            return [f"CRASH {kind} {rep}"] * len(lines)
        # crash / timeout: complete lines are trusted, the next one is the culprit
        good = got[:remaining]
        if rc != 0 and len(good) == remaining:
            # died after printing everything (e.g. at exit): attribute to the last line
            good = good[:-1]
        outs.extend(good)
        kind = "timeout" if rc == -999 else f"rc={rc}"
        rep = ""
        for l in err.split("\n"):
            if "ERROR:" in l or "runtime error" in l or "Assertion" in l or "WARNING: ThreadSanitizer" in l or "terminate called" in l or "what():" in l:
                rep = l.strip()[:300]
                break
        if not rep:
            rep = (err.strip().split("\n") or [""])[-1][:300]
        if rc == -14 and not rep.strip():
            rep = "the operation did not finish within the per-line time limit (SIGALRM)"
        outs.append(f"CRASH {kind} {rep}")
        start = len(outs)
        if rc in (-999, -14):
            hangs += 1
            if hangs >= 4:
                # several operations in a row that never finish: do not wait for every remaining line
                outs.extend(["CRASH skipped after repeated timeouts in this batch"] * (len(lines) - len(outs)))
                break
        if attempt > 200:
            outs.extend(["CRASH too-many-crashes"] * (len(lines) - len(outs)))
            break
    return outs
