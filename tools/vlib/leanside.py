"""Lean side: translator, lake build, obligation discovery, axiom + source audit, driver."""
import os
import re
import subprocess

from . import common as C

FORBIDDEN = re.compile(r"\bsorry\b|\badmit\b|^\s*axiom\s|\bnative_decide\b|\bbv_decide\b|implemented_by|\bunsafe\s|maxHeartbeats\s+0\b", re.M)
THEOREM_RE = re.compile(r"^\s*(?:@\[[^\]]*\]\s*)?(?:private\s+|protected\s+)?theorem\s+([A-Za-z_][A-Za-z0-9_'.]*)", re.M)
NAMESPACE_RE = re.compile(r"^\s*namespace\s+([A-Za-z0-9_.]+)", re.M)


def strip_comments(src):
    # remove /- … -/ (nested not handled beyond one level; sources avoid nesting) and -- …
    out = []
    i, n, depth = 0, len(src), 0
    while i < n:
        if src.startswith("/-", i):
            depth += 1
            i += 2
        elif depth and src.startswith("-/", i):
            depth -= 1
            i += 2
        elif depth:
            if src[i] == "\n":
                out.append("\n")
            i += 1
        elif src.startswith("--", i):
            while i < n and src[i] != "\n":
                i += 1
        else:
            out.append(src[i])
            i += 1
    return "".join(out)


def module_path(mod):
    return os.path.join(C.LEAN, mod.replace(".", "/") + ".lean")


def import_closure(mods):
    """project-local import closure (file paths) of the given modules"""
    seen, todo = {}, list(mods)
    while todo:
        m = todo.pop()
        if m in seen:
            continue
        p = module_path(m)
        if not os.path.exists(p):
            continue
        seen[m] = p
        for mm in re.findall(r"^\s*import\s+([A-Za-z0-9_.]+)", open(p).read(), re.M):
            todo.append(mm)
    return seen


def theorems_of(mod):
    """fully qualified theorem names declared in a props module (flat namespace handling)"""
    src = strip_comments(open(module_path(mod)).read())
    names = []
    ns_stack = []
    for line in src.split("\n"):
        m = re.match(r"\s*namespace\s+([A-Za-z0-9_.]+)", line)
        if m:
            ns_stack.append(m.group(1))
            continue
        m = re.match(r"\s*end\s+([A-Za-z0-9_.]+)\s*$", line)
        if m and ns_stack and ns_stack[-1] == m.group(1):
            ns_stack.pop()
            continue
        m = THEOREM_RE.match(line)
        if m:
            names.append(".".join(ns_stack + [m.group(1)]))
    return names


def source_audit(mods):
    """forbidden tokens in the import closure; returns list of 'file:line: token'"""
    hits = []
    for m, p in sorted(import_closure(mods).items()):
        src = strip_comments(open(p).read())
        for mt in FORBIDDEN.finditer(src):
            line = src.count("\n", 0, mt.start()) + 1
            hits.append(f"{os.path.relpath(p, C.VERIF)}:{line}: {mt.group(0).strip()}")
    return hits


def lake_build(targets, timeout=3000):
    rc, out, err = C.run(["lake", "build"] + targets, cwd=C.LEAN, timeout=timeout)
    return rc, out + err


def parse_build_errors(text):
    """[(file, line, msg)] from lake output"""
    errs = []
    for m in re.finditer(r"^error: ([^:\n]+\.lean):(\d+):(\d+): (.*)$", text, re.M):
        errs.append((m.group(1), int(m.group(2)), m.group(4)))
    return errs


def decl_at(path, line):
    """name of the theorem/def enclosing a line of a Lean file"""
    full = path if os.path.isabs(path) else os.path.join(C.LEAN, path)
    try:
        lines = open(full).read().split("\n")
    except OSError:
        return "?"
    for i in range(min(line, len(lines)) - 1, -1, -1):
        m = re.match(r"\s*(?:@\[[^\]]*\]\s*)?(?:private\s+|protected\s+|noncomputable\s+)*(theorem|lemma|def|example|instance|abbrev)\s+([A-Za-z_][A-Za-z0-9_'.]*)?", lines[i])
        if m:
            return f"{m.group(1)} {m.group(2) or ''}".strip()
    return "?"


def axiom_audit(mods, names):
    """run #print axioms on every name; returns {name: [axioms]} and list of problems"""
    if not names:
        return {}, []
    d = os.path.join(C.CACHE, "audit")
    os.makedirs(d, exist_ok=True)
    f = os.path.join(d, "axioms_" + "_".join(m.split(".")[-1] for m in mods) + ".lean")
    with open(f, "w") as fh:
        for m in mods:
            fh.write(f"import {m}\n")
        for n in names:
            fh.write(f"#print axioms {n}\n")
    rc, out, err = C.run(["lake", "env", "lean", f], cwd=C.LEAN, timeout=1200)
    text = out + err
    res, problems = {}, []
    # "'name' depends on axioms: [a, b]"  or "'name' does not depend on any axioms"
    for m in re.finditer(r"'(\S+)' depends on axioms: \[([^\]]*)\]", text, re.S):
        res[m.group(1)] = [a.strip() for a in m.group(2).replace("\n", " ").split(",") if a.strip()]
    for m in re.finditer(r"'(\S+)' does not depend on any axioms", text):
        res[m.group(1)] = []
    for n in names:
        if n not in res:
            problems.append(f"{n}: no #print axioms result ({'lean rc=%d' % rc})")
        else:
            bad = [a for a in res[n] if a not in C.ALLOWED_AXIOMS]
            if bad:
                problems.append(f"{n}: disallowed axioms {bad}")
    return res, problems


def driver_path():
    return os.path.join(C.LEAN, ".lake", "build", "bin", "dracomodel")


def run_driver(ops_file, timeout=3000):
    rc, out, err = C.run([driver_path(), ops_file], timeout=timeout, preexec=C.big_stack)
    return rc, out.split("\n")[:-1] if out.endswith("\n") else out.split("\n"), err
