"""Function translator: C++ (clang's typed AST) -> Lean `def`s with explicit C integer semantics.

Input : one `clang++-14 -fsyntax-only -Xclang -ast-dump=json -Xclang -ast-dump-filter=draco::` run over a tiny
        translation unit that includes the headers of the whitelisted functions and explicitly instantiates
        the templates that are needed (see TU_TEXT).
Output: the text of lean/Generated/Funcs.lean: one `structure` per class whose integer fields are used and one
        `def` per whitelisted function (and per function called from one), over `Int`/`Bool`/`Int × Int`.

Every arithmetic node is translated at the C type that clang's AST gives to it (after the usual arithmetic
conversions, which are explicit cast nodes in the AST): `wrapI32 (a + b)`, `wrapU32 (a - b)`, `wrapI64 …`;
`/` and `%` are `Int.tdiv` / `Int.tmod`.  Helpers are defined in lean/DracoModel/CInt.lean.

Anything that is not understood raises `XlateError`: the function is then *not* emitted (a comment says why),
the equality theorem about it in lean/DracoProofs/GeneratedFuncs.lean no longer elaborates, and the check
reports a broken proof obligation.  Nothing is guessed.

See notes/xlate.md for the supported subset and the trusted base.
"""
import json
import os
import re

from . import common as C

CLANG = os.environ.get("VERIF_CLANG", "clang++-14")

# ---------------------------------------------------------------------------------------------------------
# whitelist
#   cls      : class (template) name or None for a free function
#   fn       : function name
#   params   : desugared parameter types that select the overload / instantiation (None = the only one)
#   pointwise: the function is a loop `for (int i = 0; i < n; ++i)` over arrays that are only accessed at
#              index i: the translation is the transfer function of one iteration on component i
# ---------------------------------------------------------------------------------------------------------
WHITELIST = [
    dict(cls=None, fn="ConvertSignedIntToSymbol", params=["int"]),
    dict(cls=None, fn="ConvertSymbolToSignedInt", params=["unsigned int"]),
    dict(cls=None, fn="MostSignificantBit", params=["unsigned int"]),
    dict(cls=None, fn="AddAsUnsigned", params=["int", "int"]),
    dict(cls=None, fn="IntSqrt", loop_fuel=64),
    dict(cls=None, fn="ComputeRAnsUnclampedPrecision", params=["int"]),
    dict(cls=None, fn="ComputeRAnsPrecisionFromUniqueSymbolsBitLength", params=["int"]),
    dict(cls=None, fn="mem_put_le16"),
    dict(cls=None, fn="mem_put_le24"),
    dict(cls=None, fn="ans_write_end"),
    dict(cls="RAnsDecoder", fn="read_init", targs=[12]),
    dict(cls=None, fn="ans_read_init"),
    dict(cls=None, fn="DecodeVarintUnsigned", params=["int", "unsigned int *", "draco::DecoderBuffer *"], suffix="_u32"),
    dict(cls=None, fn="DecodeVarintUnsigned", params=["int", "unsigned long *", "draco::DecoderBuffer *"], suffix="_u64"),
    dict(cls=None, fn="DecodeVarintUnsigned", params=["int", "unsigned int *", "draco::DecoderBuffer *"], suffix="_depthCheck_u32",
         slice=dict(scope="body", first_decl="max_depth", count=2)),
    dict(cls=None, fn="DecodeVarintUnsigned", params=["int", "unsigned long *", "draco::DecoderBuffer *"], suffix="_depthCheck_u64",
         slice=dict(scope="body", first_decl="max_depth", count=2)),
    dict(cls=None, fn="EncodeVarint", params=["unsigned int", "draco::EncoderBuffer *"], suffix="_u32"),
    dict(cls=None, fn="EncodeVarint", params=["unsigned long", "draco::EncoderBuffer *"], suffix="_u64"),
    dict(cls="RAnsSymbolEncoder", fn="EncodeTable", suffix="_sizeClass", slice=dict(first_decl="num_extra_bytes", count=2)),
    dict(cls="MeshSequentialDecoder", fn="DecodeConnectivity", suffix="_indexWidth",
         chain=dict(var="num_points", inputs=["bitstream_version"])),
    dict(cls="MeshSequentialEncoder", fn="EncodeConnectivity", suffix="_indexWidth",
         chain=dict(var="num_points", inputs=["num_points"])),
    dict(cls=None, fn="ComputeParallelogramPrediction", suffix="_component",
         slice=dict(first_decl="in_data_next_off", count=5)),
    dict(cls=None, fn="SelectPredictionMethod", params=["int", "const draco::EncoderOptions &", "const draco::PointCloudEncoder *"],
         opaque=True),
    dict(cls="MeshEdgebreakerEncoder", fn="InitializeEncoder", suffix="_method", opaque=True,
         slice=dict(scope="body", first_decl="selected_edgebreaker_method", count=2)),
    dict(cls="ExpertEncoder", fn="EncodeMeshToBuffer", suffix="_method", opaque=True,
         slice=dict(scope="body", first_decl="encoding_method", count=2)),
    dict(cls="DynamicIntegerPointsKdTreeDecoder", fn="GetAxis", targs=[6], suffix="_branch",
         chain=dict(var="num_remaining_points", inputs=[])),
    dict(cls="OctahedronToolBox", fn="IsInDiamond"),
    dict(cls="OctahedronToolBox", fn="InvertDiamond"),
    dict(cls="OctahedronToolBox", fn="ModMax"),
    dict(cls="OctahedronToolBox", fn="MakePositive"),
    dict(cls="OctahedronToolBox", fn="CanonicalizeOctahedralCoords"),
    dict(cls="OctahedronToolBox", fn="IntegerVectorToQuantizedOctahedralCoords"),
    dict(cls="OctahedronToolBox", fn="CanonicalizeIntegerVector", params=["int *"]),
    dict(cls="PredictionSchemeNormalOctahedronDecodingTransform", fn="ComputeOriginalValue",
         params=["draco::VectorD<int, 2>", "const draco::VectorD<int, 2> &"]),
    dict(cls="PredictionSchemeNormalOctahedronEncodingTransform", fn="ComputeCorrection",
         params=["draco::VectorD<int, 2>", "draco::VectorD<int, 2>"]),
    dict(cls=None, fn="DataTypeLength"),
    dict(cls=None, fn="CountOneBits32"),
    dict(cls=None, fn="ReverseBits32"),
    dict(cls=None, fn="CopyBits32"),
    dict(cls="PredictionSchemeNormalOctahedronCanonicalizedTransformBase", fn="GetRotationCount"),
    dict(cls="PredictionSchemeNormalOctahedronCanonicalizedTransformBase", fn="RotatePoint"),
    dict(cls="PredictionSchemeNormalOctahedronCanonicalizedTransformBase", fn="IsInBottomLeft"),
    dict(cls="PredictionSchemeNormalOctahedronCanonicalizedDecodingTransform", fn="ComputeOriginalValue",
         params=["draco::VectorD<int, 2>", "draco::VectorD<int, 2>"]),
    dict(cls="PredictionSchemeNormalOctahedronCanonicalizedEncodingTransform", fn="ComputeCorrection",
         params=["draco::VectorD<int, 2>", "draco::VectorD<int, 2>"]),
    dict(cls="PredictionSchemeWrapTransformBase", fn="ClampPredictedValue", pointwise=True),
    dict(cls="PredictionSchemeWrapTransformBase", fn="InitCorrectionBounds"),
    dict(cls="PredictionSchemeWrapDecodingTransform", fn="ComputeOriginalValue", pointwise=True),
    dict(cls="PredictionSchemeWrapEncodingTransform", fn="ComputeCorrection", pointwise=True),
]

TU_TEXT = """\
#include "draco/core/bit_utils.h"
#include "draco/core/math_utils.h"
#include "draco/compression/attributes/normal_compression_utils.h"
#include "draco/compression/attributes/prediction_schemes/prediction_scheme_normal_octahedron_canonicalized_transform_base.h"
#include "draco/compression/attributes/prediction_schemes/prediction_scheme_normal_octahedron_canonicalized_decoding_transform.h"
#include "draco/compression/attributes/prediction_schemes/prediction_scheme_normal_octahedron_canonicalized_encoding_transform.h"
#include "draco/compression/attributes/prediction_schemes/prediction_scheme_normal_octahedron_decoding_transform.h"
#include "draco/compression/attributes/prediction_schemes/prediction_scheme_normal_octahedron_encoding_transform.h"
#include "draco/compression/attributes/prediction_schemes/prediction_scheme_wrap_transform_base.h"
#include "draco/compression/attributes/prediction_schemes/prediction_scheme_wrap_decoding_transform.h"
#include "draco/compression/attributes/prediction_schemes/prediction_scheme_wrap_encoding_transform.h"
#include "draco/compression/entropy/rans_symbol_coding.h"
#include "draco/compression/entropy/rans_symbol_encoder.h"
#include "draco/core/varint_encoding.h"
#include "draco/core/varint_decoding.h"
#include "draco/core/draco_types.cc"
#include "draco/compression/attributes/prediction_schemes/prediction_scheme_encoder_factory.cc"
#include "draco/compression/mesh/mesh_edgebreaker_encoder.cc"
#include "draco/compression/expert_encode.cc"
#include "draco/compression/point_cloud/algorithms/dynamic_integer_points_kd_tree_decoder.h"
#include "draco/compression/attributes/prediction_schemes/mesh_prediction_scheme_parallelogram_shared.h"
#include "draco/mesh/corner_table.h"
#include "draco/compression/mesh/mesh_sequential_decoder.cc"
#include "draco/compression/mesh/mesh_sequential_encoder.cc"
static_assert(std::is_same<int8_t, signed char>::value && std::is_same<uint8_t, unsigned char>::value, "");
static_assert(std::is_same<int16_t, short>::value && std::is_same<uint16_t, unsigned short>::value, "");
static_assert(std::is_same<int32_t, int>::value && std::is_same<uint32_t, unsigned int>::value, "");
static_assert(std::is_same<int64_t, long>::value && std::is_same<uint64_t, unsigned long>::value, "");
static_assert(sizeof(int) == 4 && sizeof(long) == 8 && sizeof(long long) == 8 && sizeof(short) == 2, "");
static_assert((-7) / 2 == -3 && (-7) % 2 == -1 && (-1 >> 1) == -1, "");
namespace draco {
template uint32_t ConvertSignedIntToSymbol<int32_t>(int32_t);
template int32_t ConvertSymbolToSignedInt<uint32_t>(uint32_t);
template int32_t AddAsUnsigned<int32_t>(int32_t, int32_t);
template bool ComputeParallelogramPrediction<CornerTable, int32_t>(int, const CornerIndex, const CornerTable *,
    const std::vector<int32_t> &, const int32_t *, int, int32_t *);
template class DynamicIntegerPointsKdTreeDecoder<6>;
template class RAnsSymbolEncoder<12>;
template class RAnsDecoder<12>;
template bool DecodeVarint<uint32_t>(uint32_t *, DecoderBuffer *);
template bool DecodeVarint<uint64_t>(uint64_t *, DecoderBuffer *);
template bool EncodeVarint<uint32_t>(uint32_t, EncoderBuffer *);
template bool EncodeVarint<uint64_t>(uint64_t, EncoderBuffer *);
template class PredictionSchemeNormalOctahedronCanonicalizedTransformBase<int32_t>;
template void OctahedronToolBox::CanonicalizeIntegerVector<int32_t>(int32_t *) const;
template class PredictionSchemeNormalOctahedronDecodingTransform<int32_t>;
template class PredictionSchemeNormalOctahedronEncodingTransform<int32_t>;
template class PredictionSchemeNormalOctahedronTransformBase<int32_t>;
template class PredictionSchemeNormalOctahedronCanonicalizedDecodingTransform<int32_t>;
template class PredictionSchemeNormalOctahedronCanonicalizedEncodingTransform<int32_t>;
template class PredictionSchemeWrapTransformBase<int32_t>;
template class PredictionSchemeWrapDecodingTransform<int32_t, int32_t>;
template class PredictionSchemeWrapEncodingTransform<int32_t, int32_t>;
}
"""


class XlateError(Exception):
    pass


class _Retry(Exception):
    """an output location turned out to be read (or left unassigned on some path): translate again with
    its initial value as an input"""
    pass


# ---------------------------------------------------------------------------------------------------------
# C types
# ---------------------------------------------------------------------------------------------------------
_INT = {
    "char": (True, 8), "signed char": (True, 8), "unsigned char": (False, 8),
    "short": (True, 16), "unsigned short": (False, 16),
    "int": (True, 32), "unsigned int": (False, 32),
    "long": (True, 64), "unsigned long": (False, 64),
    "long long": (True, 64), "unsigned long long": (False, 64),
    # <stdint.h> names: clang does not always print the desugared type; the translation unit
    # static_asserts that these typedefs are what this table says (TU_TEXT)
    "int8_t": (True, 8), "uint8_t": (False, 8), "int16_t": (True, 16), "uint16_t": (False, 16),
    "int32_t": (True, 32), "uint32_t": (False, 32), "int64_t": (True, 64), "uint64_t": (False, 64),
}


class CT:
    """kind: int (signed, bits) | bool | ptr (to) | vec2 (of) | void | class (name) | other"""

    def __init__(self, kind, signed=None, bits=None, to=None, name=None, const=False):
        self.kind, self.signed, self.bits, self.to, self.name, self.const = kind, signed, bits, to, name, const

    def lo(self):
        return -(1 << (self.bits - 1)) if self.signed else 0

    def hi(self):
        return (1 << (self.bits - 1)) - 1 if self.signed else (1 << self.bits) - 1

    def wrap(self):
        return ("wrapI" if self.signed else "wrapU") + str(self.bits)

    def lean(self):
        if self.kind == "int":
            return "Int"
        if self.kind == "bool":
            return "Bool"
        if self.kind == "vec2":
            return "Int × Int"
        if self.kind == "wlog":
            return "List (Int × Int)"
        if self.kind in ("sink", "stream"):
            return "List Int"
        raise XlateError(f"no Lean type for C type {self!r}")

    def __repr__(self):
        if self.kind == "int":
            return ("i" if self.signed else "u") + str(self.bits)
        if self.kind == "ptr":
            return f"ptr({self.to!r})"
        if self.kind == "vec2":
            return f"vec2({self.to!r})"
        return self.kind + (":" + self.name if self.name else "")

    def same(self, o):
        return repr(self) == repr(o)


_ALIAS_RESOLVER = None
_ENUM_RESOLVER = None


def parse_type(s, _depth=0):
    s = s.strip()
    const = False
    if s.endswith("&"):
        s = s[:-1].strip()
    if s.endswith("*"):
        inner = parse_type(s[:-1])
        return CT("ptr", to=inner)
    if s.endswith("*const"):
        return CT("ptr", to=parse_type(s[:-6].strip(), _depth), const=True)
    if s.endswith(" const"):
        s, const = s[:-6].strip(), True
    if s.startswith("const "):
        s, const = s[6:].strip(), True
    if s.endswith("*"):                      # `T *const`
        return CT("ptr", to=parse_type(s[:-1]), const=const)
    for kw in ("struct ", "class "):
        if s.startswith(kw):
            s = s[len(kw):].strip()
    if s in _INT:
        sg, b = _INT[s]
        return CT("int", signed=sg, bits=b, const=const)
    if s in ("bool", "_Bool"):
        return CT("bool", const=const)
    if s == "void":
        return CT("void", const=const)
    m = re.fullmatch(r"(?:draco::)?VectorD<(.+), 2>", s)
    if m:
        el = parse_type(m.group(1))
        if el.kind == "int":
            return CT("vec2", to=el, const=const)
    m = re.fullmatch(r"std::vector<(.+?)(?:, std::allocator<.+> ?)?>", s)
    if m:
        try:
            el = parse_type(m.group(1))
            if el.kind == "int":
                return CT("stdvec", to=el, const=const)
        except XlateError:
            pass
    if _ENUM_RESOLVER is not None:
        u = _ENUM_RESOLVER(s)
        if u is not None:
            t = parse_type(u, _depth + 1)
            t.const = const
            return t
    if _ALIAS_RESOLVER is not None and "::" in s and _depth == 0:
        r = _ALIAS_RESOLVER(s)
        if r is not None and r != s:
            t = parse_type(r, _depth + 1)
            t.const = t.const or const
            return t
    if re.fullmatch(r"[A-Za-z_][\w:<>, ]*", s):
        return CT("class", name=s, const=const)
    return CT("other", name=s)


def node_type(n):
    t = n.get("type")
    if not t:
        raise XlateError(f"{n.get('kind')} without type")
    return parse_type(t.get("desugaredQualType") or t.get("qualType"))


# ---------------------------------------------------------------------------------------------------------
# AST loading / indexing
# ---------------------------------------------------------------------------------------------------------
def run_clang(repo, build_dir, workdir):
    os.makedirs(workdir, exist_ok=True)
    tu = os.path.join(workdir, "xlate_tu.cc")
    with open(tu, "w") as f:
        f.write(TU_TEXT)
    cmd = [CLANG, "-std=gnu++17", "-fsyntax-only", "-w", "-Xclang", "-ast-dump=json", "-Xclang",
           "-ast-dump-filter=draco::", "-I" + os.path.join(repo, "src"), "-I" + build_dir, tu]
    rc, out, err = C.run(cmd, timeout=300)
    if rc != 0:
        raise XlateError("clang failed on the translation unit: " + err.strip()[-600:])
    return out


def load_objs(text):
    dec = json.JSONDecoder()
    i, objs, n = 0, [], len(text)
    while i < n:
        while i < n and text[i].isspace():
            i += 1
        if i >= n:
            break
        o, i = dec.raw_decode(text, i)
        objs.append(o)
    return objs


def annotate_files(objs):
    """clang prints the `file` of a source location only when it differs from the previously printed one:
    replay that in document order and store the file of every location under `_file`"""
    last = [None]

    def walk(x):
        if isinstance(x, dict):
            if "offset" in x or "file" in x:
                if "file" in x:
                    last[0] = x["file"]
                x["_file"] = last[0]
            for kk, v in x.items():
                if kk != "includedFrom" and isinstance(v, (dict, list)):
                    walk(v)
        elif isinstance(x, list):
            for v in x:
                walk(v)
    walk(objs)


class Index:
    def __init__(self, objs):
        annotate_files(objs)
        self.byid = {}
        self.parent = {}
        self.roots = objs
        self.aliases = []
        for o in objs:
            self._walk(o, None)
        global _ALIAS_RESOLVER, _ENUM_RESOLVER
        _ALIAS_RESOLVER = self.resolve_alias
        self.enums = {}
        self.enum_values = {}
        for i, n in self.byid.items():
            if n.get("kind") == "EnumDecl" and any(c.get("kind") == "EnumConstantDecl" for c in n.get("inner", [])):
                cur, neg, okv = -1, False, True
                for c in n.get("inner", []):
                    if c.get("kind") != "EnumConstantDecl":
                        continue
                    vals = []

                    def findv(x):
                        if x.get("kind") == "ConstantExpr" and "value" in x:
                            vals.append(x["value"])
                            return
                        for y in x.get("inner", []) or []:
                            if isinstance(y, dict) and not vals:
                                findv(y)
                    for y in c.get("inner", []) or []:
                        if isinstance(y, dict):
                            findv(y)
                    if any(isinstance(y, dict) and y.get("kind") for y in c.get("inner", []) or []) and not vals:
                        okv = False
                    cur = int(vals[0]) if vals else cur + 1
                    neg = neg or cur < 0
                    if okv:
                        self.enum_values[c["id"]] = cur
                n["_neg"] = neg
            if n.get("kind") == "EnumDecl" and n.get("name") and any(c.get("kind") == "EnumConstantDecl" for c in n.get("inner", [])):
                ut = n.get("fixedUnderlyingType")
                par = self.parent.get(i)
                keys = [n["name"]]
                if par is not None and par.get("kind") in ("CXXRecordDecl", "ClassTemplateSpecializationDecl") and par.get("name"):
                    keys = [par["name"] + "::" + n["name"]]
                if not ut and n.get("_neg"):
                    for kk in keys:
                        self.enums.setdefault(kk, []).append("int")
                    continue
                for kk in keys:
                    self.enums.setdefault(kk, []).append((ut.get("desugaredQualType") or ut["qualType"]) if ut else "unsigned int")
                continue
                # an unscoped enum without fixed underlying type: `unsigned int` when no enumerator is negative (gcc/clang)
                self.enums.setdefault(n["name"], []).append((ut.get("desugaredQualType") or ut["qualType"]) if ut else "unsigned int")
        _ENUM_RESOLVER = self.resolve_enum

    def resolve_enum(self, qual):
        q = qual.strip()
        if q.startswith("enum "):
            q = q[5:]
        if q.startswith("draco::"):
            q = q[7:]
        us = self.enums.get(q)
        if us and len(set(us)) == 1:
            return us[0]
        return None

    def resolve_alias(self, qual):
        """`Cls<args>::Name` (a member typedef that clang printed without its desugared type) -> desugared type text"""
        m = re.fullmatch(r"(?:draco::)?(\w+)(?:<(.*)>)?::(\w+)", qual.strip())
        if not m:
            return None
        cname, args, alias = m.group(1), m.group(2), m.group(3)
        want = [repr(parse_type(a)) for a in args.split(",")] if args else None
        found = set()
        for (nm, par, ty) in self.aliases:
            if nm != alias or par.get("name") != cname:
                continue
            if want is not None:
                if par.get("kind") != "ClassTemplateSpecializationDecl":
                    continue
                got = [repr(parse_type(c["type"].get("desugaredQualType") or c["type"]["qualType"]))
                       for c in par.get("inner", []) if c.get("kind") == "TemplateArgument" and "type" in c]
                if got != want:
                    continue
            elif par.get("kind") != "CXXRecordDecl":
                continue
            found.add(ty.get("desugaredQualType") or ty.get("qualType"))
        return found.pop() if len(found) == 1 else None

    def _walk(self, n, par):
        stack = [(n, par)]
        while stack:
            n, par = stack.pop()
            if not isinstance(n, dict):
                continue
            i = n.get("id")
            k = n.get("kind", "")
            if i is not None and k.endswith("Decl"):
                # the same declaration is dumped several times (the filter matches nested names too): keep the
                # dump that carries a body
                old = self.byid.get(i)
                if old is None or (not _has_body(old) and _has_body(n)) or \
                        (_has_body(old) == _has_body(n) and len(n.get("inner", []) or []) > len(old.get("inner", []) or [])):
                    self.byid[i] = n
                    self.parent[i] = par
                if k in ("TypeAliasDecl", "TypedefDecl") and par is not None and "type" in n:
                    self.aliases.append((n.get("name"), par, n["type"]))
            for c in n.get("inner", []) or []:
                stack.append((c, n))

    def class_of(self, decl):
        if decl.get("parentDeclContextId") in self.byid and \
                self.byid[decl["parentDeclContextId"]].get("kind") in ("CXXRecordDecl", "ClassTemplateSpecializationDecl"):
            return self.byid[decl["parentDeclContextId"]]
        p = self.parent.get(decl["id"])
        while p is not None and p.get("kind") not in ("CXXRecordDecl", "ClassTemplateSpecializationDecl"):
            p = self.parent.get(p.get("id"))
        return p

    def find_function(self, cls, fn, params, targs=None):
        hits = []
        seen = set()
        for i, n in self.byid.items():
            if n.get("name") != fn or n.get("kind") not in ("FunctionDecl", "CXXMethodDecl"):
                continue
            if not _has_body(n):
                continue
            par = self.parent.get(i)
            if cls is None:
                if par is not None and par.get("kind") in ("CXXRecordDecl", "ClassTemplateSpecializationDecl", "ClassTemplateDecl"):
                    continue
                if par is not None and par.get("kind") == "FunctionTemplateDecl" and not any(
                        c.get("kind") == "TemplateArgument" for c in n.get("inner", [])):
                    continue            # the dependent pattern, not an instantiation
            else:
                if par is not None and par.get("kind") == "FunctionTemplateDecl":
                    if not any(c.get("kind") == "TemplateArgument" for c in n.get("inner", [])):
                        continue
                    par = self.parent.get(par.get("id"))
                if (par is None or par.get("kind") not in ("CXXRecordDecl", "ClassTemplateSpecializationDecl")) and \
                        n.get("parentDeclContextId") in self.byid:
                    par = self.byid[n["parentDeclContextId"]]      # out-of-line definition
                if par is None or par.get("name") != cls:
                    continue
                if par.get("kind") == "CXXRecordDecl":
                    gp = self.parent.get(par.get("id"))
                    if gp is not None and gp.get("kind") == "ClassTemplateDecl":
                        continue        # the dependent pattern
                elif par.get("kind") != "ClassTemplateSpecializationDecl":
                    continue
                if targs is not None:
                    got = [str(c.get("value")) if "value" in c else repr(parse_type(c["type"].get("desugaredQualType") or c["type"]["qualType"]))
                           for c in par.get("inner", []) if c.get("kind") == "TemplateArgument"]
                    if got != [str(x) for x in targs]:
                        continue
            ptys = [repr(node_type(c)) for c in n.get("inner", []) if c.get("kind") == "ParmVarDecl"]
            if params is not None and ptys != [repr(parse_type(p)) for p in params]:
                continue
            if i in seen:
                continue
            seen.add(i)
            hits.append(n)
        if len(hits) != 1:
            raise XlateError(f"{len(hits)} definitions found for {cls + '::' if cls else ''}{fn}({params})")
        return hits[0]

    def find_class_by_type(self, qual):
        qual = qual.strip()
        if qual.startswith("draco::"):
            qual = qual[7:]
        m = re.fullmatch(r"(\w+)(?:<(.*)>)?", qual)
        if not m:
            raise XlateError(f"cannot parse class type {qual}")
        name, args = m.group(1), m.group(2)
        want = [repr(parse_type(a)) for a in args.split(",")] if args else None
        hits = []
        for i, n in self.byid.items():
            if n.get("name") != name:
                continue
            if want is None and n.get("kind") == "CXXRecordDecl" and n.get("completeDefinition"):
                gp = self.parent.get(i)
                if gp is None or gp.get("kind") != "ClassTemplateDecl":
                    hits.append(n)
            if want is not None and n.get("kind") == "ClassTemplateSpecializationDecl":
                got = []
                for c in n.get("inner", []):
                    if c.get("kind") == "TemplateArgument" and "type" in c:
                        got.append(repr(parse_type(c["type"].get("desugaredQualType") or c["type"]["qualType"])))
                if got == want and any(c.get("kind") in ("FieldDecl", "CXXMethodDecl") for c in n.get("inner", [])):
                    hits.append(n)
        if len(hits) != 1:
            raise XlateError(f"{len(hits)} class definitions found for {qual}")
        return hits[0]


def _has_body(n):
    return any(c.get("kind") == "CompoundStmt" for c in n.get("inner", []) or [])


RESERVED = {"this", "at", "from", "end", "in", "fun", "do", "then", "else", "if", "show", "have", "open", "let",
            "match", "with", "where", "by", "def", "theorem", "instance", "structure", "class", "namespace", "section",
            "variable", "universe", "import", "export", "private", "protected", "mutual", "deriving", "for", "return",
            "Type", "Prop", "Sort", "true", "false", "self", "calc", "using", "suffices", "obtain", "local", "macro",
            "syntax", "notation", "infix", "prefix", "postfix", "attribute", "example", "abbrev", "axiom", "opaque",
            "inductive", "set_option", "nomatch", "nofun", "unless", "mut", "try", "catch", "finally", "break",
            "continue", "unsafe", "partial", "noncomputable", "extends", "fst", "snd"}


def lean_ident(s):
    s = re.sub(r"\W", "_", s)
    if s in RESERVED or not re.match(r"[A-Za-z_]", s):
        s = s + "'" if s in RESERVED else "v_" + s
    return s


def tuple_text(parts):
    return parts[0] if len(parts) == 1 else "(" + ", ".join(parts) + ")"


def tuple_type(tys):
    return " × ".join(tys)


def proj(name, i, n):
    """i-th component of an n-tuple (right nested)"""
    if n == 1:
        return name
    return name + "".join(".2" for _ in range(i)) + (".1" if i < n - 1 else "")


# ---------------------------------------------------------------------------------------------------------
# per function translation
# ---------------------------------------------------------------------------------------------------------
class Ctx:
    def __init__(self):
        self.vals = {}      # loc -> Lean text of the current value | None (undefined)
        self.names = {}     # loc -> Lean name bound on assignment
        self.types = {}     # loc -> CT
        self.alias = {}     # decl id of a reference variable -> loc
        self.ver = {}       # loc -> number of the last assignment (values are re-bound under the same name)
        self.loopvar = None
        self.loop_outer = None
        self.bptr = {}      # loc of a byte pointer variable -> (base, Lean text of the offset)

    def copy(self):
        c = Ctx()
        c.vals, c.names, c.types, c.alias = dict(self.vals), self.names, self.types, self.alias
        c.ver = dict(self.ver)
        c.bptr = dict(self.bptr)
        c.loopvar, c.loop_outer = self.loopvar, self.loop_outer
        return c


class Info:
    """what a caller needs to know about a translated function"""

    def __init__(self):
        self.lean_name = None
        self.struct = None          # Lean structure name of `self` or None
        self.params = []            # (lean name, lean type, how) how: ('val', idx of C parameter) | ('deref', idx) | ('elem', idx)
        self.outs = []              # ('ret', CT) | ('self',) | ('out', idx of C parameter)
        self.text = None
        self.pointwise = False
        self.ret_ct = None
        self.fueled = False         # self-recursive: first parameter `fuel : Nat`, result `Option …`
        self.optional = False       # contains bounded loops: result `Option …`
        self.nparams = 0


class Translator:
    def __init__(self, index, whitelist):
        self.ix = index
        self.wl = whitelist
        self.done = {}          # decl id -> Info
        self.order = []         # decl ids in emission order
        self.in_progress = set()
        self.structs = {}       # class decl id -> (lean name, [(field, CT)], skipped)
        self.struct_order = []
        self.src_cache = {}
        self.delegate = {}      # class id -> name of the member object that is `self`
        self.trait_checks = []  # static_asserts that re-check the evaluated type traits with clang

    # ---- classes -------------------------------------------------------------------------------------
    def struct_class(self, cls):
        """the class whose integer fields form `self` for methods of `cls`"""
        own = [c for c in cls.get("inner", []) if c.get("kind") == "FieldDecl"]
        ints = [c for c in own if node_type(c).kind in ("int", "bool")]
        bases = cls.get("bases", []) or []
        if ints and not bases:
            return cls
        if not ints and len(bases) == 1:
            bt = bases[0]["type"]
            return self.struct_class(self.ix.find_class_by_type(bt.get("desugaredQualType") or bt["qualType"]))
        objs = []
        for c in own:
            if node_type(c).kind == "class":
                try:
                    t0 = c["type"]
                    inner0 = self.ix.find_class_by_type(t0.get("desugaredQualType") or t0["qualType"])
                    if any(node_type(f).kind in ("int", "bool") for f in inner0.get("inner", []) if f.get("kind") == "FieldDecl"):
                        objs.append(c)
                except XlateError:
                    pass
        if not ints and not bases and len(objs) == 1:
            own = objs
            # a wrapper around one member object (`octahedron_tool_box_`): `self` is that object
            t = own[0]["type"]
            inner = self.ix.find_class_by_type(t.get("desugaredQualType") or t["qualType"])
            self.delegate[cls["id"]] = own[0]["name"]
            sc = self.struct_class(inner)
            self.delegate[cls["id"]] = own[0]["name"]
            return sc
        if not ints and not bases:
            return cls
        raise XlateError(f"class {cls.get('name')}: integer fields together with base classes are not supported")

    def struct_of(self, cls):
        sc = self.struct_class(cls)
        if sc["id"] not in self.structs:
            fields, skipped = [], []
            for c in sc.get("inner", []):
                if c.get("kind") != "FieldDecl":
                    continue
                t = node_type(c)
                if t.kind in ("int", "bool"):
                    fields.append((c["name"], t))
                else:
                    skipped.append(c["name"])
            self.structs[sc["id"]] = (lean_ident(sc["name"]), fields, skipped)
            self.struct_order.append(sc["id"])
        return sc

    # ---- entry ---------------------------------------------------------------------------------------
    def wl_entry(self, decl):
        cls = self.ix.class_of(decl)
        ptys = [repr(node_type(c)) for c in decl.get("inner", []) if c.get("kind") == "ParmVarDecl"]
        hits = []
        for w in self.wl:
            if w["fn"] == decl.get("name") and (w.get("cls") == (cls.get("name") if cls else None)):
                if w.get("params") is not None and [repr(parse_type(q)) for q in w["params"]] != ptys:
                    continue
                hits.append(w)
        whole = [w for w in hits if not (w.get("slice") or w.get("chain"))]
        return (whole or hits or [{}])[0]

    def translate(self, decl, w=None):
        """w: the whitelist entry (a whole function, a slice or a chain of it); calls from other functions (w = None)
        mean the whole function"""
        if w is None:
            w = self.wl_entry(decl)
            if w.get("slice") or w.get("chain"):
                w = {k: v for k, v in w.items() if k not in ("slice", "chain", "suffix")}
        part = bool(w.get("slice") or w.get("chain"))
        key = decl["id"] + ("#" + w.get("suffix", "") if part else "")
        i = decl["id"]
        if key in self.done:
            return self.done[key]
        if key in self.in_progress:
            raise XlateError(f"recursive call of {decl.get('name')}")
        self.in_progress.add(key)
        try:
            ft = FuncTranslator(self, decl, pointwise=bool(w.get("pointwise")), suffix=w.get("suffix", ""),
                                lazy_struct=part)
            ft.loop_fuel = w.get("loop_fuel")
            ft.opaque = bool(w.get("opaque"))
            if w.get("slice"):
                ft.select_slice(w["slice"])
            if w.get("chain"):
                ft.select_chain(w["chain"])
            info = ft.run()
        finally:
            self.in_progress.discard(key)
        self.done[key] = info
        self.order.append(key)
        return info

    def node_text(self, node):
        r = node.get("range", {})
        b, e = r.get("begin", {}), r.get("end", {})
        b = b.get("expansionLoc", b)
        e = e.get("expansionLoc", e)
        f = b.get("_file")
        if f is None or "offset" not in b or "offset" not in e or e.get("_file") != f:
            raise XlateError("no source range for an expression")
        if f not in self.src_cache:
            self.src_cache[f] = open(f, "rb").read()
        return " ".join(self.src_cache[f][b["offset"]: e["offset"] + e.get("tokLen", 0)].decode(errors="replace").split())

    def trait_value(self, node, func_decl):
        """`std::is_unsigned<T>::value` and friends inside an instantiated template: the expression's source text
        (taken at the AST node's range) names the trait and the template parameter, the instantiation's template
        arguments give T; the evaluation is re-checked by clang (`verify_traits`)"""
        r = node.get("range", {})
        b, e = r.get("begin", {}), r.get("end", {})
        b = b.get("spellingLoc", b)
        e = e.get("spellingLoc", e)
        f = b.get("_file")
        if f is None or "offset" not in b or "offset" not in e or e.get("_file") != f:
            raise XlateError("no source range for a static constant")
        if f not in self.src_cache:
            self.src_cache[f] = open(f, "rb").read()
        text = self.src_cache[f][b["offset"]: e["offset"] + e.get("tokLen", 0)].decode(errors="replace")
        m = re.fullmatch(r"std::(is_unsigned|is_signed|is_integral)<\s*(\w+)\s*>::value", text.strip())
        if not m:
            raise XlateError(f"static constant `{text.strip()[:60]}` is not a supported type trait")
        trait, pname = m.group(1), m.group(2)
        par = self.ix.parent.get(func_decl["id"])
        if par is None or par.get("kind") != "FunctionTemplateDecl":
            raise XlateError("type trait outside a function template instantiation")
        names = [c.get("name") for c in par.get("inner", []) if c.get("kind") == "TemplateTypeParmDecl"]
        args = [c for c in func_decl.get("inner", []) if c.get("kind") == "TemplateArgument"]
        if pname not in names or len(args) != len(names) or "type" not in args[names.index(pname)]:
            raise XlateError(f"cannot bind the template parameter `{pname}`")
        at = args[names.index(pname)]["type"]
        ctext = at.get("desugaredQualType") or at["qualType"]
        t = parse_type(ctext)
        if t.kind not in ("int", "bool"):
            raise XlateError(f"type trait of {t!r}")
        val = {"is_unsigned": t.kind == "bool" or not t.signed, "is_signed": t.kind == "int" and t.signed,
               "is_integral": True}[trait]
        self.trait_checks.append(f"static_assert(std::{trait}<{ctext}>::value == {'true' if val else 'false'}, \"\");")
        return val

    def source_text(self, node):
        """source text of an expression (used only to recognise `std::numeric_limits<…>::max()`)"""
        r = node.get("range", {})
        b, e = r.get("begin", {}), r.get("end", {})
        b = b.get("expansionLoc", b)
        e = e.get("expansionLoc", e)
        return b.get("offset"), e.get("offset"), e.get("tokLen", 0)


class FuncTranslator:
    def __init__(self, tr, decl, pointwise, suffix="", lazy_struct=False):
        self.tr, self.ix, self.decl, self.pointwise = tr, tr.ix, decl, pointwise
        self.suffix = suffix
        self.loop_fuel = None
        self.opaque = False
        self.opaque_inputs = {}
        self.ptr_locals = set()
        self.local_keys = {}
        self.slice = None
        self.chain = False
        self.abs_inputs = {}
        self.slice_free = {}
        self.slice_free_ptrs = set()
        self.cls = self.ix.class_of(decl)
        self.need_input = set()     # out locations that must also be inputs
        self.body = [c for c in decl.get("inner", []) if c.get("kind") == "CompoundStmt"][0]
        self.parms = [c for c in decl.get("inner", []) if c.get("kind") == "ParmVarDecl"]
        self.ret_ct = self._ret_type()
        self.uses_this = _contains(self.body, lambda n: n.get("kind") == "CXXThisExpr")
        self.struct_cls = None
        if self.uses_this and not lazy_struct:
            if self.cls is None:
                raise XlateError("`this` outside a class")
            self.struct_cls = self.tr.struct_of(self.cls)

    def select_slice(self, spec):
        """translate only a run of consecutive statements of the body of the function's first `for` loop: the
        statement that declares `spec['first_decl']` and the `spec['count'] - 1` statements after it.  Variables
        of the function used in the run are its inputs; variables declared at the top of the run (or assigned in
        it) and an early `return` are its outputs."""
        loops = []

        def walk(x):
            if x.get("kind") == "ForStmt":
                loops.append(x)
            for c in x.get("inner", []) or []:
                if isinstance(c, dict):
                    walk(c)
        walk(self.body)
        if spec.get("scope") == "body":
            lb = self.body
        else:
            if not loops:
                raise XlateError("slice: the function has no for loop")
            lb = (loops[0]["inner"] + [{}] * 5)[4]
        if lb.get("kind") != "CompoundStmt":
            raise XlateError("slice: the loop body is not a block")
        ss = [c for c in lb.get("inner", []) if c.get("kind")]
        at = [i for i, c in enumerate(ss) if c.get("kind") == "DeclStmt" and any(
            d.get("kind") == "VarDecl" and d.get("name") == spec["first_decl"] for d in c.get("inner", []))]
        if len(at) != 1 or at[0] + spec["count"] > len(ss):
            raise XlateError(f"slice: declaration of `{spec['first_decl']}` not found in the loop body")
        self.slice = ss[at[0]: at[0] + spec["count"]]
        inside = set()

        def decls(x):
            if x.get("kind") in ("VarDecl",):
                inside.add(x["id"])
            for c in x.get("inner", []) or []:
                if isinstance(c, dict):
                    decls(c)
        for st in self.slice:
            decls(st)
        self.slice_free = {}
        self.slice_top = []
        for st in self.slice:
            if st.get("kind") == "DeclStmt":
                for d in st.get("inner", []):
                    if d.get("kind") == "VarDecl":
                        self.slice_top.append(d)

        def uses(x):
            if x.get("kind") == "DeclRefExpr" and x["referencedDecl"].get("kind") in ("VarDecl", "ParmVarDecl") and \
                    x["referencedDecl"]["id"] not in inside and x.get("nonOdrUseReason") != "constant":
                self.slice_free.setdefault(x["referencedDecl"]["id"], (x["referencedDecl"].get("name"), node_type(x)))
            for c in x.get("inner", []) or []:
                if isinstance(c, dict):
                    uses(c)
        for st in self.slice:
            uses(st)
        self.slice_free_ptrs = {vid for vid, (nm, t) in self.slice_free.items() if t.kind == "ptr"}
        wrapper = {"kind": "CompoundStmt", "inner": self.slice}
        self.body = wrapper
        self.parms = []
        self.uses_this = _contains(wrapper, lambda n: n.get("kind") == "CXXThisExpr")
        if self.opaque:
            self.uses_this = False      # the object is only reached through calls, which are inputs
        if self.uses_this and self.struct_cls is None:
            self.struct_cls = self.tr.struct_of(self.cls)
        self.slice_ret = self.ret_ct
        self.ret_ct = self.ret_ct if _contains(wrapper, lambda n: n.get("kind") == "ReturnStmt") else CT("void")

    def select_chain(self, spec):
        """the decision skeleton of an `if / else if / …` chain: the function that maps the variables of the
        conditions to the ordinal of the branch that is taken (0, 1, …; the final `else` or fall-through is the last
        ordinal).  The chain is the first `if` whose condition compares `<var>` with a literal, where `<var>` is a variable or a
        call of a zero-argument member function of that name; calls of the zero-argument member functions listed in
        `inputs` are inputs of the skeleton (they are assumed to be pure getters)."""
        var = spec["var"]
        self.abs_inputs = {}
        abs_names = set(spec.get("inputs", []))

        def is_var(x):
            x = _strip_casts(x)
            if x.get("kind") == "DeclRefExpr" and x["referencedDecl"].get("name") == var:
                return True
            return x.get("kind") == "CXXMemberCallExpr" and x["inner"][0].get("name") == var and len(x["inner"]) == 1

        found = []

        def walk(x):
            if found:
                return
            if x.get("kind") == "IfStmt":
                c = _strip_casts(x["inner"][0])
                if c.get("kind") == "BinaryOperator" and c.get("opcode") in ("<", "<=", ">", ">=", "==", "!=") and is_var(c["inner"][0]) and \
                        _strip_casts(c["inner"][1]).get("kind") == "IntegerLiteral":
                    found.append(x)
                    return
            for ch in x.get("inner", []) or []:
                if isinstance(ch, dict):
                    walk(ch)
        walk(self.body)
        if not found:
            raise XlateError(f"chain: no `if ({var} <comparison> literal)` found")
        conds, node = [], found[0]
        while node is not None and node.get("kind") == "IfStmt":
            if node.get("hasInit") or node.get("hasVar"):
                raise XlateError("chain: if with init/condition variable")
            conds.append(node["inner"][0])
            node = node["inner"][2] if len(node["inner"]) > 2 else None
        ity = {"qualType": "int"}

        def ret(i):
            return {"kind": "CompoundStmt", "inner": [{"kind": "ReturnStmt", "inner": [
                {"kind": "IntegerLiteral", "value": str(i), "type": ity}]}]}
        tree = ret(len(conds))
        for i in range(len(conds) - 1, -1, -1):
            tree = {"kind": "IfStmt", "inner": [conds[i], ret(i), tree]}
        inside = set()
        self.slice_free = {}

        def uses(x):
            if x.get("kind") == "CXXMemberCallExpr" and len(x["inner"]) == 1 and x["inner"][0].get("name") in abs_names:
                self.abs_inputs.setdefault(x["inner"][0]["name"], node_type(x))
                return
            if x.get("kind") == "DeclRefExpr" and x["referencedDecl"].get("kind") in ("VarDecl", "ParmVarDecl") and \
                    x.get("nonOdrUseReason") != "constant":
                self.slice_free.setdefault(x["referencedDecl"]["id"], (x["referencedDecl"].get("name"), node_type(x)))
            for c in x.get("inner", []) or []:
                if isinstance(c, dict):
                    uses(c)
        for c in conds:
            uses(c)
        self.body = {"kind": "CompoundStmt", "inner": [tree]}
        self.parms = []
        self.chain = True
        self.uses_this = False
        self.struct_cls = None
        self.ret_ct = CT("int", signed=True, bits=32)

    def _ret_type(self):
        """the result type: the (desugared) type of the returned expressions — clang converts every returned
        expression to the function's result type — cross-checked with the printed function type"""
        rets = []

        def walk(n):
            if n.get("kind") == "ReturnStmt":
                inner = [c for c in n.get("inner", []) if c.get("kind")]
                rets.append(node_type(inner[0]) if inner else CT("void"))
                return
            if n.get("kind") == "LambdaExpr":
                raise XlateError("lambda")
            for c in n.get("inner", []) or []:
                if isinstance(c, dict):
                    walk(c)
        walk(self.body)
        txt = parse_type(self._ret_type_text())
        if not rets:
            if txt.kind != "void":
                raise XlateError("non-void function without return statement")
            return txt
        for r in rets[1:]:
            if not r.same(rets[0]):
                raise XlateError(f"return statements of different types {rets[0]!r}, {r!r}")
        r = rets[0]
        if txt.kind in ("int", "bool", "void", "vec2", "ptr") and not (txt.same(r) or (txt.kind == "ptr" and r.kind == "ptr")):
            raise XlateError(f"result type {txt!r} but the returned expressions have type {r!r}")
        return CT(r.kind, r.signed, r.bits, r.to, r.name)

    def _ret_type_text(self):
        t = self.decl["type"]
        q = t.get("desugaredQualType") or t["qualType"]
        # result type = text before the parameter list
        depth = 0
        for k, ch in enumerate(q):
            if ch == "<":
                depth += 1
            elif ch == ">":
                depth -= 1
            elif ch == "(" and depth == 0:
                return q[:k].strip()
        raise XlateError(f"cannot parse function type {q}")

    def fail(self, msg, node=None):
        where = ""
        if node is not None:
            loc = node.get("range", {}).get("begin", {})
            loc = loc.get("expansionLoc", loc)
            if "line" in loc:
                where = f" (line {loc['line']})"
            where = f" at {node.get('kind')}{where}"
        raise XlateError(msg + where)

    # ---- driver ----------------------------------------------------------------------------------------
    def run(self):
        for _ in range(8):
            try:
                return self._run_once()
            except _Retry:
                continue
        self.fail("output/input classification of the parameters does not stabilise")

    def _alloc(self, base):
        base = lean_ident(base)
        n, k = base, 1
        while n in self.used:
            k += 1
            n = f"{base}_{k}"
        self.used.add(n)
        return n

    def _run_once(self):
        self.used = {"self"}
        self.tmp = 0
        self.nloops = 0
        self.nassign = 0
        ctx = Ctx()
        info = Info()
        info.pointwise = self.pointwise
        info.ret_ct = self.ret_ct
        cname = (lean_ident(self.cls["name"]) + ".") if self.cls is not None else ""
        info.lean_name = cname + lean_ident(self.decl["name"]) + ("_elem" if self.pointwise else "") + self.suffix
        self.written_fields = []
        fields = []
        if self.struct_cls is not None:
            sname, fields, _ = self.tr.structs[self.struct_cls["id"]]
            info.struct = sname
            for (f, t) in fields:
                loc = "f:" + f
                ctx.types[loc] = t
                ctx.names[loc] = self._alloc(f)
                ctx.vals[loc] = f"self.{lean_ident(f)}"
            # element of a std::vector field (pointwise mode only)
            for c in self.struct_cls.get("inner", []):
                if c.get("kind") == "FieldDecl" and node_type(c).kind == "stdvec" and self.pointwise:
                    loc = "fe:" + c["name"]
                    ctx.types[loc] = node_type(c).to
                    ctx.names[loc] = self._alloc(c["name"] + "_i")
                    ctx.vals[loc] = None
        self.out_locs = []
        self.sptr = {}
        self.sink_params = set()
        self.stream_params = {}
        self.has_sink = False
        self.has_log = False
        self.log_base = None
        self.pre = []
        self.no_effect = 0
        self.opaque_inputs = {}
        self.local_keys = {}
        self.ptr_locals = set()
        self.array_params = self._array_params()
        info.nparams = len(self.parms)
        self.fueled = _contains(self.body, lambda n: n.get("kind") == "CallExpr" and self._callee_id(n) == self.decl["id"])
        info.fueled = self.fueled
        # `while` / `do` loops (outside pointwise mode): bounded iteration `cWhile fuel`, result `Option …`
        self.optional = (not self.pointwise) and _contains(self.body, lambda n: n.get("kind") in ("WhileStmt", "DoStmt"))
        info.optional = self.optional
        for k, p in enumerate(self.parms):
            t = node_type(p)
            nm = p.get("name") or f"arg{k}"
            if t.kind in ("int", "bool", "vec2"):
                loc = "v:" + p["id"]
                ln = self._alloc(nm)
                ctx.types[loc], ctx.names[loc], ctx.vals[loc] = t, ln, ln
                info.params.append((ln, t.lean(), ("val", k)))
            elif t.kind == "ptr" and t.to.kind == "int" and t.to.bits == 8 and t.to.const and not self.pointwise:
                ln = self._alloc(nm)
                ctx.bptr["v:" + p["id"]] = ("src:" + ln, "0")
                info.params.append((ln, "Int → Int", ("src", k)))
            elif t.kind == "ptr" and t.to.kind == "int" and t.to.bits == 8 and not t.to.const and not self.pointwise:
                ctx.bptr["v:" + p["id"]] = ("p:" + p["id"], "0")
            elif t.kind == "ptr" and t.to.kind == "int" and not self.pointwise and p["id"] in self.array_params:
                # an array that is only accessed at constant indices: one location per index that occurs
                for idx in sorted(self.array_params[p["id"]]):
                    loc = f"ci:{p['id']}:{idx}"
                    ln = self._alloc(f"{nm}_{idx}")
                    ctx.types[loc], ctx.names[loc] = t.to, ln
                    if t.to.const or loc in self.need_input:
                        ctx.vals[loc] = ln
                        info.params.append((ln, "Int", ("cidx", k, idx)))
                    else:
                        ctx.vals[loc] = None
                    if not t.to.const:
                        self.out_locs.append((loc, (k, idx)))
            elif t.kind == "ptr" and t.to.kind == "int":
                loc = ("pe:" if self.pointwise else "d:") + p["id"]
                ln = self._alloc(nm + ("_i" if self.pointwise else ""))
                ctx.types[loc], ctx.names[loc] = t.to, ln
                if t.to.const:
                    ctx.vals[loc] = ln
                    info.params.append((ln, "Int", ("elem" if self.pointwise else "deref", k)))
                    if not self.pointwise:
                        self.fail(f"parameter `{nm}`: pointer to const outside pointwise mode is not supported")
                else:
                    self.out_locs.append((loc, k))
                    if loc in self.need_input:
                        ctx.vals[loc] = ln
                        info.params.append((ln, "Int", ("elem" if self.pointwise else "deref", k)))
                    else:
                        ctx.vals[loc] = None
            elif self._is_bptr_type(t) and t.to.const and not self.pointwise:
                ln = self._alloc(nm)
                ctx.bptr["v:" + p["id"]] = ("src:" + ln, "0")
                info.params.append((ln, "Int → Int", ("src", k)))
            elif t.kind == "ptr" and t.to.kind == "void":
                ctx.bptr["v:" + p["id"]] = ("p:" + p["id"], "0")
            elif t.kind == "ptr" and t.to.kind == "class" and t.to.name.split("::")[-1] == "DecoderBuffer":
                # a byte source with a position: the list of the bytes not yet consumed
                ln = self._alloc(nm)
                self.stream_params[p["id"]] = k
                ctx.types["in:"], ctx.names["in:"], ctx.vals["in:"] = CT("stream"), ln, ln
                info.params.append((ln, "List Int", ("stream", k)))
            elif t.kind == "ptr" and t.to.kind == "class" and t.to.name.split("::")[-1] == "EncoderBuffer":
                self.sink_params.add(p["id"])
                self.has_sink = True
            elif self.opaque and t.kind in ("ptr", "class", "other"):
                pass            # objects are only reached through calls, which are inputs in this mode
            elif t.kind == "ptr" and t.to.kind == "class":
                sc = self.ix.find_class_by_type(t.to.name)
                if sc["id"] not in self.tr.structs:
                    self.tr.struct_of(sc)
                if self.tr.struct_class(sc)["id"] != sc["id"]:
                    self.fail(f"parameter `{nm}`: pointer to a class with bases")
                sname, sfields, _ = self.tr.structs[sc["id"]]
                ln = self._alloc(nm)
                info.params.append((ln, sname, ("struct", k)))
                self.sptr[p["id"]] = (ln, sname, k, [f for (f, _) in sfields])
                for (f, ft) in sfields:
                    loc = f"g:{p['id']}:{f}"
                    ctx.types[loc] = ft
                    ctx.names[loc] = self._alloc(nm + "_" + f)
                    ctx.vals[loc] = f"{ln}.{lean_ident(f)}"
            elif self.opaque:
                pass            # objects are only reached through calls, which are inputs in this mode
            else:
                self.fail(f"parameter `{nm}` of type {t!r} is not supported")
        if self.chain:
            for nm, t in self.abs_inputs.items():
                ln = self._alloc(nm)
                self.abs_names = getattr(self, "abs_names", {})
                self.abs_names[nm] = (ln, CT(t.kind, t.signed, t.bits))
                info.params.append((ln, t.lean(), ("val", -1)))
        if self.slice is not None or self.chain:
            self.wide_ptrs = set()
            for vid, (nm, t) in list(self.slice_free.items()):
                if t.kind == "ptr" and t.to.kind == "int":
                    self.wide_ptrs.add(vid)
                    if t.to.const:
                        ln = self._alloc(nm)
                        ctx.bptr["v:" + vid] = ("src:" + ln, "0")
                        info.params.append((ln, "Int → Int", ("src", -1)))
                    else:
                        ctx.bptr["v:" + vid] = ("p:" + vid, "0")
                    del self.slice_free[vid]
            for vid, (nm, t) in self.slice_free.items():
                if t.kind not in ("int", "bool"):
                    self.fail(f"slice: free variable `{nm}` of type {t!r}")
                loc = "v:" + vid
                ln = self._alloc(nm)
                ctx.types[loc], ctx.names[loc], ctx.vals[loc] = CT(t.kind, t.signed, t.bits), ln, ln
                info.params.append((ln, t.lean(), ("val", -1)))
        self.ctx0 = ctx
        self.info = info
        # which fields are assigned anywhere (decides whether `self` is an output)
        self.assigned_fields = sorted(self._assigned_fields(self.body), key=lambda f: [x[0] for x in fields].index(f))
        info.outs = []
        if self.ret_ct.kind != "void":
            info.outs.append(("ret", self.ret_ct))
        if self.slice is not None:
            for d in self.slice_top:
                info.outs.append(("var", "v:" + d["id"]))
        if self.assigned_fields:
            info.outs.append(("self",))
        self.assigned_sfields = self._assigned_sfields(self.body)
        for pid, (ln, sname, k, fl) in self.sptr.items():
            if self.assigned_sfields.get(pid):
                info.outs.append(("sptr", k, pid))
        for (loc, k) in self.out_locs:
            info.outs.append(("out", k))
        # byte output: a positional write log (raw pointers) or the bytes appended to an EncoderBuffer
        self.has_log = self._writes_bytes()
        if self.has_log and self.has_sink:
            self.fail("raw byte writes and an EncoderBuffer in one function")
        if self.has_log:
            info.outs.append(("log",))
            ctx.types["w:"], ctx.names["w:"], ctx.vals["w:"] = CT("wlog"), self._alloc("written"), "[]"
        if self.stream_params:
            info.outs.append(("stream",))
        if self.has_sink:
            info.outs.append(("sink",))
            ctx.types["w:"], ctx.names["w:"], ctx.vals["w:"] = CT("sink"), self._alloc("appended"), "[]"
        if not info.outs:
            self.fail("function without any result")
        out_tys = []
        for o in info.outs:
            if o[0] == "ret" and self.slice is not None:
                out_tys.append(f"Option {o[1].lean()}")
            elif o[0] == "var":
                out_tys.append(node_type([d for d in self.slice_top if "v:" + d["id"] == o[1]][0]).lean())
            elif o[0] == "ret":
                out_tys.append("Int" if (o[1].kind == "ptr" and self.pointwise) else o[1].lean())
            elif o[0] == "self":
                out_tys.append(info.struct)
            elif o[0] == "sptr":
                out_tys.append(self.sptr[o[2]][1])
            elif o[0] == "log":
                out_tys.append("List (Int × Int)")
            elif o[0] in ("sink", "stream"):
                out_tys.append("List Int")
            else:
                out_tys.append("Int")
        self.out_tys = out_tys
        lines = self.stmts(list(self.body.get("inner", [])), ctx, self.final_k)
        if len(lines) > 600:
            self.fail(f"the translation has {len(lines)} lines (too many sequential branches)")
        sig = ""
        if info.struct:
            sig += f" (self : {info.struct})"
        for (ln, ty, _) in info.params:
            sig += f" ({ln} : {ty})"
        rty = tuple_type(out_tys)
        if self.fueled:
            head = f"def {info.lean_name} (fuel : Nat){sig} : Option ({rty}) :="
            lines = ["match fuel with", "| 0 => none", "| fuel + 1 =>"] + ["  " + l for l in lines]
        elif self.optional:
            head = f"def {info.lean_name}{sig} : Option ({rty}) :="
        else:
            head = f"def {info.lean_name}{sig} : {rty} :="
        info.text = "\n".join([head] + ["  " + l for l in lines])
        return info

    def _array_params(self):
        """pointer parameters that are subscripted: id -> set of constant indices (None in the set = a
        non-constant index, which makes the parameter unsupported outside pointwise mode)"""
        res = {}
        ids = {p["id"] for p in self.parms}

        def walk(x):
            if x.get("kind") == "ArraySubscriptExpr":
                b, i = _strip(x["inner"][0]), _strip(x["inner"][1])
                if b.get("kind") == "DeclRefExpr" and b["referencedDecl"]["id"] in ids:
                    res.setdefault(b["referencedDecl"]["id"], set()).add(
                        int(i["value"]) if i.get("kind") == "IntegerLiteral" else None)
            for c in x.get("inner", []) or []:
                if isinstance(c, dict):
                    walk(c)
        walk(self.body)
        return {k: v for k, v in res.items() if None not in v}

    def _assigned_sfields(self, n):
        out = {}

        def walk(x):
            k = x.get("kind")
            tgt = None
            if k in ("BinaryOperator", "CompoundAssignOperator") and (x.get("opcode") == "=" or k == "CompoundAssignOperator"):
                tgt = x["inner"][0]
            elif k == "UnaryOperator" and x.get("opcode") in ("++", "--"):
                tgt = x["inner"][0]
            if tgt is not None:
                t = _strip(tgt)
                if t.get("kind") == "MemberExpr":
                    o = _strip(t["inner"][0])
                    if o.get("kind") == "DeclRefExpr" and o["referencedDecl"]["id"] in self.sptr:
                        out.setdefault(o["referencedDecl"]["id"], set()).add(t["name"])
            for c in x.get("inner", []) or []:
                if isinstance(c, dict):
                    walk(c)
        walk(n)
        return out

    def _writes_bytes(self):
        """does the body store through a byte pointer, or call a function that does?"""
        def pred(x):
            k = x.get("kind")
            if k == "BinaryOperator" and x.get("opcode") == "=":
                l = _strip(x["inner"][0])
                if l.get("kind") == "ArraySubscriptExpr" and (self._is_bptr_type(node_type(l["inner"][0])) or self._ptr_is_free_nonconst(l["inner"][0])):
                    return True
                if l.get("kind") == "UnaryOperator" and l.get("opcode") == "*" and self._is_bptr_type(node_type(l["inner"][0])):
                    return True
            if k == "CallExpr":
                c = self.ix.byid.get(self._callee_id(x))
                if c is not None and c["id"] != self.decl["id"] and _has_body(c) and c["id"] in self.tr.done and \
                        any(o[0] == "log" for o in self.tr.done[c["id"]].outs):
                    return True
                if c is not None and c["id"] != self.decl["id"] and _has_body(c) and c["id"] not in self.tr.done and \
                        c["id"] not in self.tr.in_progress and any(
                            node_type(q).kind == "ptr" and node_type(q).to.kind == "void"
                            for q in c.get("inner", []) if q.get("kind") == "ParmVarDecl"):
                    try:
                        return any(o[0] == "log" for o in self.tr.translate(c).outs)
                    except XlateError:
                        return False
            return False
        return _contains(self.body, pred)

    @staticmethod
    def _is_bptr_type(t):
        return t.kind == "ptr" and ((t.to.kind == "int" and t.to.bits == 8) or t.to.kind == "void")

    def _ptr_is_free_nonconst(self, e):
        b = _strip(e)
        if b.get("kind") != "DeclRefExpr" or self.slice is None:
            return False
        t = node_type(b)
        return t.kind == "ptr" and t.to.kind == "int" and not t.to.const and b["referencedDecl"]["id"] in self.slice_free_ptrs

    def _is_mem_ptr(self, e):
        """a pointer expression that is modelled as a source / write log: byte pointers, and (in slices) the integer
        array pointers that are free variables of the slice"""
        t = node_type(e)
        if self._is_bptr_type(t):
            return True
        b = _strip(e)
        while b.get("kind") == "BinaryOperator" and b.get("opcode") in ("+", "-"):
            b = _strip(b["inner"][0])
        return b.get("kind") == "DeclRefExpr" and b["referencedDecl"]["id"] in getattr(self, "wide_ptrs", ())

    def _assigned_fields(self, n):
        out = set()

        def walk(x):
            k = x.get("kind")
            tgt = None
            if k in ("BinaryOperator", "CompoundAssignOperator") and (x.get("opcode") == "=" or k == "CompoundAssignOperator"):
                tgt = x["inner"][0]
            elif k == "UnaryOperator" and x.get("opcode") in ("++", "--"):
                tgt = x["inner"][0]
            if tgt is not None:
                t = _strip(tgt)
                if t.get("kind") == "MemberExpr":
                    o = _strip(t["inner"][0])
                    if o.get("kind") == "CXXThisExpr" or (
                            o.get("kind") == "MemberExpr" and o.get("name") in self.tr.delegate.values() and
                            _strip(o["inner"][0]).get("kind") == "CXXThisExpr"):
                        if node_type(t).kind in ("int", "bool"):
                            out.add(t["name"])
            for c in x.get("inner", []) or []:
                if isinstance(c, dict):
                    walk(c)
        walk(n)
        return out

    # ---- results -----------------------------------------------------------------------------------------
    def result(self, ctx, retval):
        parts = []
        for o in self.info.outs:
            if o[0] == "ret" and self.slice is not None:
                parts.append("none" if retval is None else f"(some {retval})")
            elif o[0] == "var":
                if ctx.vals.get(o[1]) is None:
                    self.fail("slice: an output variable is not assigned on some path")
                parts.append(ctx.vals[o[1]])
            elif o[0] == "ret":
                if retval is None:
                    self.fail("control reaches the end of a non-void function")
                parts.append(retval)
            elif o[0] == "self":
                upd = ", ".join(f"{lean_ident(f)} := {ctx.vals['f:' + f]}" for f in self.assigned_fields)
                parts.append("{ self with " + upd + " }")
            elif o[0] == "sptr":
                ln, sname, k, fl = self.sptr[o[2]]
                upd = ", ".join(f"{lean_ident(f)} := {ctx.vals[f'g:{o[2]}:{f}']}" for f in fl if f in self.assigned_sfields[o[2]])
                parts.append("{ " + ln + " with " + upd + " }")
            elif o[0] in ("log", "sink"):
                parts.append(ctx.vals["w:"])
            elif o[0] == "stream":
                parts.append(ctx.vals["in:"])
            else:
                loc = [l for (l, k) in self.out_locs if k == o[1]][0]
                v = ctx.vals[loc]
                if v is None:
                    self.need_input.add(loc)
                    raise _Retry()
                parts.append(v)
        if self.fueled or self.optional:
            return ["some " + ("(" + ", ".join(parts) + ")" if len(parts) > 1 else "(" + parts[0] + ")")]
        return [tuple_text(parts)]

    def final_k(self, ctx):
        if self.ret_ct.kind != "void" and self.slice is None:
            self.fail("control reaches the end of a non-void function")
        return self.result(ctx, None)

    # ---- locations -----------------------------------------------------------------------------------------
    def read(self, ctx, loc, node=None):
        if loc.startswith("c:"):
            base, idx = loc[2:].rsplit(":", 1)
            return f"{self.read(ctx, base, node)}.{int(idx) + 1}"
        if loc not in ctx.vals:
            self.fail(f"unknown location {loc}", node)
        if loc == ctx.loopvar:
            self.fail("the loop variable is used other than as the index of the arrays", node)
        v = ctx.vals[loc]
        if v is None:
            if any(loc == l for (l, _) in self.out_locs):
                self.need_input.add(loc)
                raise _Retry()
            self.fail(f"read of an uninitialised location {loc}", node)
        return v

    def lvalue(self, n, ctx):
        """-> loc of an lvalue expression"""
        n = _strip(n)
        k = n.get("kind")
        if k == "DeclRefExpr":
            rid = n["referencedDecl"]["id"]
            if rid in ctx.alias:
                return ctx.alias[rid]
            t = node_type(n)
            if t.kind == "ptr":
                if self.pointwise and ("pe:" + rid) in ctx.types:
                    return "pe:" + rid
                self.fail("pointer variable", n)
            loc = "v:" + rid
            if loc not in ctx.types:
                self.fail(f"reference to `{n['referencedDecl'].get('name')}` which is not a local or parameter", n)
            return loc
        if k == "UnaryOperator" and n.get("opcode") == "*":
            p = _strip(n["inner"][0])
            if p.get("kind") == "DeclRefExpr" and ("d:" + p["referencedDecl"]["id"]) in ctx.types:
                return "d:" + p["referencedDecl"]["id"]
            self.fail("dereference of something other than a pointer parameter", n)
        if k == "MemberExpr":
            obj = _strip(n["inner"][0])
            if obj.get("kind") == "DeclRefExpr" and obj["referencedDecl"]["id"] in self.sptr:
                loc = f"g:{obj['referencedDecl']['id']}:{n['name']}"
                if loc in ctx.types:
                    return loc
                self.fail(f"field `{n['name']}` of the structure parameter is not an integer field", n)
            if obj.get("kind") == "CXXThisExpr" or (
                    obj.get("kind") == "MemberExpr" and obj.get("name") in self.tr.delegate.values() and
                    _strip(obj["inner"][0]).get("kind") == "CXXThisExpr"):
                loc = "f:" + n["name"]
                if loc in ctx.types:
                    return loc
                self.fail(f"field `{n['name']}` is not an integer field of the `self` structure", n)
            self.fail("member of an object other than `this`", n)
        if k == "ArraySubscriptExpr" and not self.pointwise:
            base, idx = _strip(n["inner"][0]), _strip(n["inner"][1])
            if base.get("kind") == "DeclRefExpr" and base["referencedDecl"]["id"] in self.array_params and \
                    idx.get("kind") == "IntegerLiteral":
                return f"ci:{base['referencedDecl']['id']}:{int(idx['value'])}"
            self.fail("array subscript that is not a constant index of a pointer parameter", n)
        if k == "ArraySubscriptExpr":
            if not self.pointwise:
                self.fail("array subscript outside pointwise mode", n)
            base, idx = _strip(n["inner"][0]), _strip(n["inner"][1])
            self._check_index(idx, ctx)
            if base.get("kind") == "DeclRefExpr" and ("pe:" + base["referencedDecl"]["id"]) in ctx.types:
                return "pe:" + base["referencedDecl"]["id"]
            self.fail("subscript of something other than a pointer parameter", n)
        if k == "CXXOperatorCallExpr" and self._callee_name(n) == "operator[]":
            obj, idx = _strip(n["inner"][1]), _strip(n["inner"][2])
            ot = node_type(obj)
            if ot.kind == "vec2":
                if idx.get("kind") != "IntegerLiteral" or idx["value"] not in ("0", "1"):
                    self.fail("VectorD index is not the literal 0 or 1", n)
                return f"c:{self.lvalue(obj, ctx)}:{idx['value']}"
            if ot.kind == "stdvec" and self.pointwise and obj.get("kind") == "MemberExpr" and \
                    _strip(obj["inner"][0]).get("kind") == "CXXThisExpr":
                self._check_index(idx, ctx)
                return "fe:" + obj["name"]
            self.fail("operator[] as an lvalue on an unsupported object", n)
        self.fail("unsupported lvalue", n)

    def _check_index(self, idx, ctx):
        while idx.get("kind") in ("ImplicitCastExpr", "ParenExpr") and idx.get("castKind", "IntegralCast") in ("IntegralCast", "LValueToRValue", "NoOp"):
            idx = idx["inner"][0]
        if ctx.loopvar is None or idx.get("kind") != "DeclRefExpr" or "v:" + idx["referencedDecl"]["id"] != ctx.loopvar:
            self.fail("array index is not the loop variable", idx)

    def loc_type(self, ctx, loc):
        if loc.startswith("c:"):
            return ctx.types[loc[2:].rsplit(":", 1)[0]].to
        return ctx.types[loc]

    def assign(self, ctx, loc, text, lines):
        if loc.startswith("c:"):
            base, idx = loc[2:].rsplit(":", 1)
            cur = self.read(ctx, base)
            new = f"({text}, {cur}.2)" if idx == "0" else f"({cur}.1, {text})"
            return self.assign(ctx, base, new, lines)
        if ctx.loop_outer is not None and loc in ctx.loop_outer and loc[:2] in ("v:", "d:", "f:"):
            self.fail(f"the loop body assigns `{ctx.names[loc]}` declared outside the loop (loop-carried value)")
        if loc.startswith("f:") and loc[2:] not in self.assigned_fields:
            self.fail(f"internal: assignment to the field `{loc[2:]}` that was not recognised as an output")
        if loc.startswith("g:") and loc.split(":")[2] not in self.assigned_sfields.get(loc.split(":")[1], ()):
            self.fail(f"internal: assignment to the structure field `{loc}` that was not recognised as an output")
        t = ctx.types[loc]
        if t.const and ctx.vals.get(loc) is not None and not loc.startswith(("pe:", "fe:")):
            self.fail(f"assignment to const `{ctx.names[loc]}`")
        nm = ctx.names[loc]
        lines.append(f"let {nm} : {t.lean()} := {text}")
        ctx.vals[loc] = nm
        self.nassign += 1
        ctx.ver[loc] = self.nassign

    # ---- statements --------------------------------------------------------------------------------------
    def stmts(self, ss, ctx, k):
        if not ss:
            return k(ctx)
        s, rest = ss[0], ss[1:]
        kind = s.get("kind")
        if kind is None:         # empty slot
            return self.stmts(rest, ctx, k)
        if kind == "NullStmt":
            return self.stmts(rest, ctx, k)
        if kind == "CompoundStmt":
            return self.stmts(list(s.get("inner", [])) + rest, ctx, k)
        if kind == "ReturnStmt":
            if any(r.get("kind") not in (None, "NullStmt") for r in rest):
                self.fail("statements after `return` in the same block", s)
            inner = s.get("inner", [])
            if not inner:
                if self.ret_ct.kind != "void":
                    self.fail("`return;` in a non-void function", s)
                return self.result(ctx, None)
            e = inner[0]
            if self.ret_ct.kind == "void":
                lines = []
                self.simple(e, ctx, lines)
                return lines + self.result(ctx, None)
            if self.ret_ct.kind == "ptr":
                if not self.pointwise:
                    self.fail("pointer result outside pointwise mode", s)
                v = self.ev_ptr(e, ctx)
            else:
                v, t = self.ev(e, ctx)
                v = self.convert(v, t, self.ret_ct, e)
            pre, self.pre = self.pre, []
            return self._wrap_pre(pre, self.result(ctx, v))
        if kind == "IfStmt":
            return self.if_stmt(s, rest, ctx, k)
        if kind == "SwitchStmt":
            return self.switch_stmt(s, rest, ctx, k)
        if kind == "ForStmt":
            return self.for_stmt(s, rest, ctx, k)
        if kind in ("WhileStmt", "DoStmt") and not self.pointwise:
            return self.loop_stmt(s, rest, ctx, k)
        lines = []
        self.simple(s, ctx, lines)
        pre, self.pre = self.pre, []
        return self._wrap_pre(pre, lines + self.stmts(rest, ctx, k))

    def if_stmt(self, s, rest, ctx, k):
        pre0 = self.pre
        self.pre = []
        lines = self.if_stmt_(s, rest, ctx, k)
        return self._wrap_pre(pre0, lines)

    def if_stmt_(self, s, rest, ctx, k):
        inner = s.get("inner", [])
        if s.get("hasInit") or s.get("hasVar"):
            self.fail("if with init/condition variable", s)
        dec = self._decode_byte_pattern(inner[0], ctx)
        if dec is not None:
            # `if (!buffer->Decode(&x)) S` for a one-byte x: S runs when the source is exhausted (and must return),
            # otherwise x is the next byte and the source advances
            if len(inner) > 2:
                self.fail("`if (!buffer->Decode(&x))` with an else branch", s)
            tl = self.stmts([inner[1]], ctx.copy(), lambda c: self.fail("the failure branch of `buffer->Decode` does not return", s))
            c2 = ctx.copy()
            lines2 = []
            hd = self._alloc("byte")
            tlname = ctx.names["in:"]
            self.assign(c2, dec, hd, lines2)
            self.nassign += 1
            c2.vals["in:"] = tlname
            c2.ver["in:"] = self.nassign
            rl = lines2 + self.stmts(rest, c2, k)
            cur = ctx.vals["in:"]
            return [f"match {cur} with", "| [] =>"] + ["  " + l for l in tl] + [f"| {hd} :: {tlname} =>"] + ["  " + l for l in rl]
        cond = self.cond(inner[0], ctx)
        pre, self.pre = self.pre, []
        th = [inner[1]]
        el = [inner[2]] if len(inner) > 2 else []
        if cond in ("True", "False"):
            # a compile-time constant of the instantiation (type trait): only the live branch exists
            return self._wrap_pre(pre, self.stmts((th if cond == "True" else el) + rest, ctx, k))
        if _contains(s, lambda n: n.get("kind") == "ReturnStmt") or self.fueled or self.optional or pre:
            cont = lambda c: self.stmts(rest, c, k)
            tl = self.stmts(th, ctx.copy(), cont)
            elc = self.stmts(el, ctx.copy(), cont)
            return self._wrap_pre(pre, [f"if {cond} then"] + ["  " + l for l in tl] + ["else"] + ["  " + l for l in elc])
        # join: both branches fall through.  One re-assigned location: `let x := if c then … else …`.
        # Several: the rest of the function is translated once per branch (no intermediate tuples; the generated
        # definition stays a decision tree whose leaves are the results, which is what the proofs split on)
        snap = (set(self.used), self.tmp, self.nassign, self.nloops)
        ends = []

        def kk(c):
            ends.append(c)
            return ["@@JOIN@@"]
        before = set(ctx.vals.keys())
        c1, c2 = ctx.copy(), ctx.copy()
        tl = self.stmts(th, c1, kk)
        elc = self.stmts(el, c2, kk)
        if len(ends) != 2:          # a nested branch already duplicated the continuation
            self.used, self.tmp, self.nassign, self.nloops = snap
            cont = lambda c: self.stmts(rest, c, k)
            tl = self.stmts(th, ctx.copy(), cont)
            elc = self.stmts(el, ctx.copy(), cont)
            return [f"if {cond} then"] + ["  " + l for l in tl] + ["else"] + ["  " + l for l in elc]
        e1, e2 = ends
        changed = [l for l in ctx.vals if l in before and (e1.ver.get(l) != ctx.ver.get(l) or e2.ver.get(l) != ctx.ver.get(l))]
        keep = [l for l in changed if e1.vals.get(l) is not None and e2.vals.get(l) is not None]
        for l in changed:
            if l not in keep:
                ctx.vals[l] = None          # assigned on one path only and undefined before
                self.nassign += 1
                ctx.ver[l] = self.nassign
        if len(keep) > 1 or len(changed) > len(keep):
            self.used, self.tmp, self.nassign, self.nloops = snap
            cont = lambda c: self.stmts(rest, c, k)
            tl = self.stmts(th, ctx.copy(), cont)
            elc = self.stmts(el, ctx.copy(), cont)
            return [f"if {cond} then"] + ["  " + l for l in tl] + ["else"] + ["  " + l for l in elc]
        if not keep:
            # branches without effect (only dead locals): nothing to emit
            return self.stmts(rest, ctx, k)
        tys = [ctx.types[l].lean() for l in keep]
        t1 = tuple_text([e1.vals[l] for l in keep])
        t2 = tuple_text([e2.vals[l] for l in keep])
        tl = [x if x != "@@JOIN@@" else t1 for x in tl]
        elc = [x if x != "@@JOIN@@" else t2 for x in elc]
        lines = []
        if len(keep) == 1:
            nm = ctx.names[keep[0]]
            lines.append(f"let {nm} : {tys[0]} :=")
            ctx.vals[keep[0]] = nm
            self.nassign += 1
            ctx.ver[keep[0]] = self.nassign
        else:
            self.tmp += 1
            nm = self._alloc(f"r{self.tmp}")
            lines.append(f"let {nm} : {tuple_type(tys)} :=")
        lines.append(f"  if {cond} then")
        lines += ["    " + x for x in tl]
        lines.append("  else")
        lines += ["    " + x for x in elc]
        if len(keep) > 1:
            for i, l in enumerate(keep):
                lines.append(f"let {ctx.names[l]} : {tys[i]} := {proj(nm, i, len(keep))}")
                ctx.vals[l] = ctx.names[l]
                self.nassign += 1
                ctx.ver[l] = self.nassign
        return lines + self.stmts(rest, ctx, k)

    def _decode_byte_pattern(self, c, ctx):
        """`!buffer->Decode(&x)` with `buffer` this function's DecoderBuffer and `x` a one-byte integer lvalue -> loc of x"""
        c = _strip(c)
        if c.get("kind") != "UnaryOperator" or c.get("opcode") != "!":
            return None
        e = _strip(c["inner"][0])
        if e.get("kind") != "CXXMemberCallExpr" or e["inner"][0].get("name") != "Decode" or len(e["inner"]) != 2:
            return None
        obj = _strip(e["inner"][0]["inner"][0])
        if obj.get("kind") != "DeclRefExpr" or obj["referencedDecl"]["id"] not in self.stream_params:
            return None
        a = _strip(e["inner"][1])
        if a.get("kind") != "UnaryOperator" or a.get("opcode") != "&":
            self.fail("DecoderBuffer::Decode with an argument that is not `&lvalue`", c)
        loc = self.lvalue(a["inner"][0], ctx)
        t = self.loc_type(ctx, loc)
        if t.kind != "int" or t.bits != 8 or t.signed:
            self.fail("DecoderBuffer::Decode of something other than one unsigned byte", c)
        return loc

    def switch_stmt(self, s, rest, ctx, k):
        inner = s.get("inner", [])
        v, t = self.ev(inner[0], ctx)
        if self.pre:
            self.fail("switch on an expression with effects", s)
        body = inner[1]
        if body.get("kind") != "CompoundStmt":
            self.fail("switch body is not a block", s)
        cases, cur = [], None
        for c in body.get("inner", []):
            ck = c.get("kind")
            if ck == "CaseStmt":
                vals = []
                ci = c["inner"]
                while True:
                    if len(ci) != 2 or ci[1].get("kind") == "DefaultStmt":
                        self.fail("ranged case label or case stacked on default", c)
                    cv, ct = self.ev(ci[0], ctx)
                    vals.append(cv)
                    if ci[1].get("kind") == "CaseStmt":
                        ci = ci[1]["inner"]
                        continue
                    break
                cur = [vals, [ci[1]]]
                cases.append(cur)
            elif ck == "DefaultStmt":
                cur = [None, [c["inner"][0]]]
                cases.append(cur)
            else:
                if cur is None:
                    self.fail("statement before the first case label", c)
                cur[1].append(c)
        for cv, body_ss in cases:
            last = body_ss[-1]
            if last.get("kind") == "CompoundStmt" and last.get("inner"):
                last = last["inner"][-1]
            if last.get("kind") != "ReturnStmt":
                self.fail("case that does not end in `return` (fall-through/break is not supported)", s)
        if [c for c in cases if c[0] is None] and cases[-1][0] is not None:
            self.fail("`default` is not the last label", s)
        lines = []
        ind = ""
        for cv, body_ss in cases:
            if cv is None:
                bl = self.stmts(body_ss, ctx.copy(), k)
                lines += [ind + l for l in bl]
                return lines
            bl = self.stmts(body_ss, ctx.copy(), k)
            lines.append(ind + "if " + " ∨ ".join(f"{v} = {x}" for x in cv) + " then")
            lines += [ind + "  " + l for l in bl]
            lines.append(ind + "else")
            ind += "  "
        bl = self.stmts(rest, ctx, k)
        return lines + [ind + l for l in bl]

    def loop_stmt(self, s, rest, ctx, k):
        """`while (c) B` / `do B while (c)`: at most `loop_fuel` iterations (`CInt.cWhile`; `none` when the bound is
        reached with the condition still true).  The loop state is the tuple of the variables assigned in B."""
        fuel = self.loop_fuel
        if not fuel:
            self.fail("loop without a `loop_fuel` bound in the whitelist", s)
        inner = [c for c in s.get("inner", []) if c.get("kind")]
        if s["kind"] == "WhileStmt":
            if len(inner) != 2:
                self.fail("while with a condition variable", s)
            cnode, body = inner
        else:
            body, cnode = inner
        if _contains(body, lambda n: n.get("kind") in ("ReturnStmt", "BreakStmt", "ContinueStmt", "GotoStmt", "WhileStmt", "DoStmt", "ForStmt")):
            self.fail("return/break/continue or a nested loop inside a loop", s)
        # which locations does the body assign?
        snap = (set(self.used), self.tmp, self.nassign)
        trial = ctx.copy()
        ends = []
        self.stmts([body], trial, lambda c: (ends.append(c), ["@@"])[1])
        if len(ends) != 1:
            self.fail("loop body with branches that are not joined", s)
        state = [l for l in ctx.vals if ends[0].ver.get(l) != ctx.ver.get(l)]
        self.used, self.tmp, self.nassign = snap
        if not state:
            self.fail("loop that assigns nothing", s)
        for l in state:
            if ctx.vals[l] is None:
                self.fail("loop state variable that is not initialised", s)
        tys = [ctx.types[l].lean() for l in state]

        def lam(node_is_cond):
            c = ctx.copy()
            lines = []
            for i, l in enumerate(state):
                nm = c.names[l]
                lines.append(f"let {nm} : {tys[i]} := {proj('st', i, len(state))}")
                c.vals[l] = nm
            if node_is_cond:
                lines.append(f"decide ({self.cond(cnode, c)})")
                if self.pre:
                    self.fail("loop condition with effects", s)
            else:
                lines += self.stmts([body], c, lambda cc: [tuple_text([cc.vals[l] for l in state])])
            if any(x.rstrip().endswith(":=") or x.lstrip().startswith(("if ", "else", "match ", "|")) for x in lines):
                self.fail("loop body / condition with branches", s)
            return "(fun st => " + "; ".join(x.strip() for x in lines) + ")"
        init = tuple_text([ctx.vals[l] for l in state])
        lines = []
        if s["kind"] == "DoStmt":
            # the body once, then the loop
            tail = []
            self.tmp += 1
            return self.stmts([body, {"kind": "WhileStmt", "inner": [cnode, body]}] + rest, ctx, k)
        self.tmp += 1
        rn = self._alloc(f"loop{self.tmp}")
        pre = [f"@@BIND {rn} := cWhile {fuel} {lam(True)} {lam(False)} {init}"]
        after = []
        for i, l in enumerate(state):
            self.assign(ctx, l, proj(rn, i, len(state)), after)
        return self._wrap_pre(pre, after + self.stmts(rest, ctx, k))

    def for_stmt(self, s, rest, ctx, k):
        if not self.pointwise:
            self.fail("loop outside pointwise mode", s)
        self.nloops += 1
        if self.nloops > 1 or _count(self.body, "ForStmt") + _count(self.body, "WhileStmt") + _count(self.body, "DoStmt") != 1:
            self.fail("more than one loop in a pointwise function", s)
        if ctx.loopvar is not None:
            self.fail("nested loop", s)
        init, condvar, cond, inc, body = (s["inner"] + [{}] * 5)[:5]
        if condvar:
            self.fail("condition variable", s)
        ok = init.get("kind") == "DeclStmt" and len(init["inner"]) == 1 and init["inner"][0].get("kind") == "VarDecl"
        if not ok:
            self.fail("loop initialiser is not `int i = 0`", s)
        iv = init["inner"][0]
        ivi = [c for c in iv.get("inner", []) if c.get("kind")]
        if node_type(iv).kind != "int" or len(ivi) != 1 or _strip(ivi[0]).get("kind") != "IntegerLiteral" or _strip(ivi[0]).get("value") != "0":
            self.fail("loop initialiser is not `int i = 0`", s)
        vid = iv["id"]
        c0 = _strip(cond)
        if c0.get("kind") != "BinaryOperator" or c0.get("opcode") != "<":
            self.fail("loop condition is not `i < n`", s)
        lhs = _strip(c0["inner"][0])
        if lhs.get("kind") != "DeclRefExpr" or lhs["referencedDecl"]["id"] != vid:
            self.fail("loop condition is not `i < n`", s)
        if _contains(c0["inner"][1], lambda n: n.get("kind") == "DeclRefExpr" and n["referencedDecl"]["id"] == vid):
            self.fail("loop bound depends on the loop variable", s)
        self.ev(c0["inner"][1], ctx)        # must be a pure supported expression
        i0 = _strip(inc)
        if i0.get("kind") != "UnaryOperator" or i0.get("opcode") != "++" or \
                _strip(i0["inner"][0]).get("kind") != "DeclRefExpr" or _strip(i0["inner"][0])["referencedDecl"]["id"] != vid:
            self.fail("loop increment is not `++i`", s)
        if _contains(body, lambda n: n.get("kind") in ("ReturnStmt", "BreakStmt", "ContinueStmt", "GotoStmt")):
            self.fail("return/break/continue inside the loop", s)
        loc = "v:" + vid
        ctx.types[loc] = node_type(iv)
        ctx.names[loc] = self._alloc(iv["name"])
        ctx.vals[loc] = "@@loopvar@@"
        ctx.loopvar = loc
        ctx.loop_outer = set(ctx.vals.keys())

        def after(c):
            c.loopvar = None
            c.loop_outer = None
            return self.stmts(rest, c, k)
        return self.stmts([body], ctx, after)

    def simple(self, s, ctx, lines):
        kind = s.get("kind")
        if kind == "DeclStmt":
            for d in s.get("inner", []):
                dk = d.get("kind")
                if dk in ("TypedefDecl", "StaticAssertDecl", "TypeAliasDecl", "UsingDecl"):
                    continue
                if dk != "VarDecl":
                    self.fail(f"declaration {dk}", s)
                self.var_decl(d, ctx, lines)
            return
        if kind in ("ExprWithCleanups", "ParenExpr"):
            return self.simple(s["inner"][0], ctx, lines)
        if kind == "BinaryOperator" and s.get("opcode") == "=" and not self.pointwise and \
                self._is_bptr_type(node_type(s["inner"][0])):
            l0 = _strip(s["inner"][0])
            if l0.get("kind") == "MemberExpr":
                o = _strip(l0["inner"][0])
                if o.get("kind") == "CXXThisExpr" or (o.get("kind") == "MemberExpr" and o.get("name") in self.tr.delegate.values()
                                                      and _strip(o["inner"][0]).get("kind") == "CXXThisExpr"):
                    ctx.bptr[f"fp:{l0['name']}"] = self.ev_bptr(s["inner"][1], ctx)
                    return
                if o.get("kind") == "DeclRefExpr" and o["referencedDecl"]["id"] in self.sptr:
                    # `ans->buf = buf`: the pointer field is not represented; later reads through it resolve here
                    ctx.bptr[f"gp:{o['referencedDecl']['id']}:{l0['name']}"] = self.ev_bptr(s["inner"][1], ctx)
                    return
            self.fail("assignment to a byte pointer", s)
        if kind == "BinaryOperator" and s.get("opcode") == "=" and not self.pointwise:
            l0 = _strip(s["inner"][0])
            tgt = None
            if l0.get("kind") == "ArraySubscriptExpr" and self._is_mem_ptr(l0["inner"][0]):
                b, o = self.ev_bptr(l0["inner"][0], ctx)
                iv, it = self.ev(l0["inner"][1], ctx)
                tgt = (b, iv if o == "0" else f"({o} + {iv})")
            elif l0.get("kind") == "UnaryOperator" and l0.get("opcode") == "*" and self._is_bptr_type(node_type(l0["inner"][0])):
                tgt = self.ev_bptr(l0["inner"][0], ctx)
            if tgt is not None:
                v, t = self.ev(s["inner"][1], ctx)
                v = self.convert(v, t, node_type(l0), s)
                self.byte_write(ctx, tgt[0], tgt[1], v, lines)
                return
        if kind == "BinaryOperator" and s.get("opcode") == "=":
            lhs, rhs = s["inner"]
            lt = node_type(lhs)
            if lt.kind == "ptr":
                if not self.pointwise:
                    self.fail("pointer assignment outside pointwise mode", s)
                loc = self.lvalue(lhs, ctx)
                v = self.ev_ptr(rhs, ctx)
                self.assign(ctx, loc, v, lines)
                return
            v, t = self.ev(rhs, ctx)
            loc = self.lvalue(lhs, ctx)
            v = self.convert(v, t, self.loc_type(ctx, loc), s)
            self.assign(ctx, loc, v, lines)
            return
        if kind == "CompoundAssignOperator":
            lhs, rhs = s["inner"]
            loc = self.lvalue(lhs, ctx)
            lt = self.loc_type(ctx, loc)
            cur = self.read(ctx, loc, s)
            clt = parse_type(s["computeLHSType"].get("desugaredQualType") or s["computeLHSType"]["qualType"])
            crt = parse_type(s["computeResultType"].get("desugaredQualType") or s["computeResultType"]["qualType"])
            a = self.convert(cur, lt, clt, s)
            b, bt = self.ev(rhs, ctx)
            op = s["opcode"][:-1]
            v = self.binop(op, a, clt, b, bt, crt, s)
            v = self.convert(v, crt, lt, s)
            self.assign(ctx, loc, v, lines)
            return
        if kind == "UnaryOperator" and s.get("opcode") in ("++", "--"):
            loc = self.lvalue(s["inner"][0], ctx)
            t = self.loc_type(ctx, loc)
            if t.kind != "int":
                self.fail("++/-- on a non-integer", s)
            cur = self.read(ctx, loc, s)
            pt = self.promote(t)
            v = self.arith("+" if s["opcode"] == "++" else "-", self.convert(cur, t, pt, s), "1", pt)
            self.assign(ctx, loc, self.convert(v, pt, t, s), lines)
            return
        if kind == "CallExpr" and self._callee_name(s) == "swap":
            a, b = s["inner"][1], s["inner"][2]
            la, lb = self.lvalue(a, ctx), self.lvalue(b, ctx)
            if not self.loc_type(ctx, la).same(self.loc_type(ctx, lb)):
                self.fail("swap of different types", s)
            va, vb = self.read(ctx, la, s), self.read(ctx, lb, s)
            self.tmp += 1
            tn = self._alloc(f"swap_tmp{self.tmp}")
            lines.append(f"let {tn} : {self.loc_type(ctx, la).lean()} := {va}")
            self.assign(ctx, la, vb, lines)
            self.assign(ctx, lb, tn, lines)
            return
        if kind == "CXXOperatorCallExpr" and self._callee_name(s) == "operator=" and len(s["inner"]) == 3 and \
                node_type(s["inner"][1]).kind == "vec2":
            loc = self.lvalue(s["inner"][1], ctx)
            v, t = self.ev(s["inner"][2], ctx)
            self.assign(ctx, loc, self.convert(v, t, self.loc_type(ctx, loc), s), lines)
            return
        if kind in ("CallExpr", "CXXMemberCallExpr") and node_type(s).kind == "void":
            return self.call_stmt(s, ctx, lines)
        if kind in ("CallExpr", "CXXMemberCallExpr") and (self.has_sink or self.has_log):
            self.ev(s, ctx)         # result discarded; the effect is in self.pre
            return
        self.fail("unsupported statement", s)

    def ev_bptr(self, n, ctx):
        """a pointer into a byte buffer -> (base, Lean text of the offset)"""
        k = n.get("kind")
        if k in ("ImplicitCastExpr", "CXXReinterpretCastExpr", "CStyleCastExpr", "CXXStaticCastExpr", "ParenExpr"):
            if k == "ParenExpr" or n.get("castKind") in ("LValueToRValue", "NoOp", "BitCast"):
                return self.ev_bptr(n["inner"][0], ctx)
            self.fail(f"pointer cast {n.get('castKind')}", n)
        if k == "DeclRefExpr":
            loc = "v:" + n["referencedDecl"]["id"]
            if loc in ctx.bptr:
                return ctx.bptr[loc]
            self.fail("pointer that is not a byte pointer parameter or local", n)
        if k == "MemberExpr" and f"fp:{n.get('name')}" in ctx.bptr:
            return ctx.bptr[f"fp:{n['name']}"]
        if k == "MemberExpr":
            obj = _strip(n["inner"][0])
            if obj.get("kind") == "DeclRefExpr" and obj["referencedDecl"]["id"] in self.sptr and self._is_bptr_type(node_type(n)):
                key = f"gp:{obj['referencedDecl']['id']}:{n['name']}"
                if key in ctx.bptr:
                    return ctx.bptr[key]
                return (f"g:{obj['referencedDecl']['id']}:{n['name']}", "0")
            self.fail("pointer field", n)
        if k == "BinaryOperator" and n.get("opcode") in ("+", "-") and self._is_mem_ptr(n["inner"][0]):
            b, o = self.ev_bptr(n["inner"][0], ctx)
            v, vt = self.ev(n["inner"][1], ctx)
            if vt.kind != "int":
                self.fail("pointer arithmetic with a non-integer", n)
            if n["opcode"] == "-":
                return (b, f"({o} - {v})")
            return (b, v if o == "0" else f"({o} + {v})")
        self.fail("unsupported byte pointer expression", n)

    def byte_write(self, ctx, base, off, val, lines):
        if self.log_base is None:
            self.log_base = base
        if self.log_base != base:
            self.fail("byte writes through two different pointers")
        self.assign(ctx, "w:", f"({ctx.vals['w:']} ++ [({off}, {val})])", lines)

    def flush_pre(self, lines):
        """statements produced while evaluating the expressions of the current statement (calls with effects)"""
        pre, self.pre = self.pre, []
        return self._wrap_pre(pre, lines)

    def _wrap_pre(self, pre, rest):
        out = []
        for i, l in enumerate(pre):
            if l.startswith("@@BIND "):
                name, expr = l[7:].split(" := ", 1)
                inner = self._wrap_pre(pre[i + 1:], rest)
                return out + [f"match {expr} with", "| none => none", f"| some {name} =>"] + ["  " + x for x in inner]
            out.append(l)
        return out + rest

    def ptr_arg_loc(self, a, ctx):
        """the location a pointer argument points to: `&lvalue` or a pointer parameter passed on"""
        a0 = _strip(a)
        if a0.get("kind") == "UnaryOperator" and a0.get("opcode") == "&":
            return self.lvalue(a0["inner"][0], ctx)
        if a0.get("kind") == "DeclRefExpr" and ("d:" + a0["referencedDecl"]["id"]) in ctx.types:
            return "d:" + a0["referencedDecl"]["id"]
        self.fail("pointer argument that is neither `&lvalue` nor a pointer parameter", a)

    def resolve_callee(self, n, ctx):
        name = self._callee_name(n)
        cid = self._callee_id(n)
        callee = self.ix.byid.get(cid)
        if callee is None or not _has_body(callee):
            self.fail(f"call of `{name}` whose definition is not available", n)
        if callee.get("virtual") or callee.get("pure"):
            self.fail(f"call of the virtual function `{name}` (dynamic dispatch)", n)
        if n.get("kind") == "CXXMemberCallExpr":
            obj = _strip(n["inner"][0]["inner"][0])
            ok = obj.get("kind") == "CXXThisExpr" or (
                obj.get("kind") == "MemberExpr" and obj.get("name") in self.tr.delegate.values() and
                _strip(obj["inner"][0]).get("kind") == "CXXThisExpr")
            if not ok:
                self.fail(f"member call `{name}` on an object other than `this`", n)
        info = self.info if callee["id"] == self.decl["id"] else self.tr.translate(callee)
        if info.struct is not None and self.info.struct != info.struct:
            self.fail(f"call of `{name}` needs `self : {info.struct}`", n)
        cparms = [c for c in callee.get("inner", []) if c.get("kind") == "ParmVarDecl"]
        if len(cparms) != len(n["inner"]) - 1:
            self.fail(f"call of `{name}` with default arguments", n)
        return name, callee, info, cparms

    def effect_call(self, n, ctx, name, callee, info, cparms):
        """a call of a translated function that appends bytes (and/or is recursive with fuel): bound in a `let`
        (resp. an `Option` match) before the statement that contains it"""
        if self.no_effect:
            self.fail("call with effects inside `&&`, `||` or `?:`", n)
        args = n["inner"][1:]
        kinds = [o[0] for o in info.outs]
        if any(x not in ("ret", "sink", "log", "out", "stream") for x in kinds):
            self.fail(f"call of `{name}` that modifies an object inside an expression", n)
        texts = []
        for (ln, ty, how) in info.params:
            if how[0] == "val":
                v, vt = self.ev(args[how[1]], ctx)
                texts.append(self.convert(v, vt, node_type(cparms[how[1]]), n))
            elif how[0] == "deref" and not self.pointwise:
                texts.append(self.read(ctx, self.ptr_arg_loc(args[how[1]], ctx), n))
            elif how[0] == "stream":
                a = _strip(args[how[1]])
                if not (a.get("kind") == "DeclRefExpr" and a["referencedDecl"]["id"] in self.stream_params):
                    self.fail(f"call of `{name}`: the source argument is not this function's DecoderBuffer", n)
                texts.append(ctx.vals["in:"])
            else:
                self.fail(f"call of `{name}` with an unsupported pointer argument", n)
        off = None
        for j, q in enumerate(cparms):
            qt = node_type(q)
            if qt.kind == "ptr" and qt.to.kind == "class" and qt.to.name.split("::")[-1] == "DecoderBuffer":
                continue
            if qt.kind == "ptr" and qt.to.kind == "class":
                a = _strip(args[j])
                if not (a.get("kind") == "DeclRefExpr" and a["referencedDecl"]["id"] in self.sink_params):
                    self.fail(f"call of `{name}`: the buffer argument is not this function's buffer", n)
            elif self._is_bptr_type(qt):
                if off is not None:
                    self.fail(f"call of `{name}` with two byte pointers", n)
                off = self.ev_bptr(args[j], ctx)
        if info.fueled:
            if callee["id"] != self.decl["id"]:
                self.fail(f"call of the recursive function `{name}` from another function", n)
            callt = f"{info.lean_name} fuel" + "".join(" " + x for x in texts)
        else:
            callt = info.lean_name + (" self" if info.struct else "") + "".join(" " + x for x in texts)
        self.tmp += 1
        rn = self._alloc(f"r{self.tmp}")
        if info.fueled:
            self.pre.append(f"@@BIND {rn} := {callt}")
        else:
            tys = [("Int" if o[0] == "ret" and o[1].kind == "int" else "Bool" if o[0] == "ret" else "Int" if o[0] == "out" else
                    "List Int" if o[0] in ("sink", "stream") else "List (Int × Int)") for o in info.outs]
            self.pre.append(f"let {rn} : {tuple_type(tys)} := {callt}")
        ret = None
        for i, o in enumerate(info.outs):
            pr = proj(rn, i, len(info.outs))
            if o[0] == "ret":
                ret = (pr, o[1])
            elif o[0] == "sink":
                self.assign(ctx, "w:", f"({ctx.vals['w:']} ++ {pr})", self.pre)
            elif o[0] == "stream":
                self.assign(ctx, "in:", pr, self.pre)
            elif o[0] == "out":
                self.assign(ctx, self.ptr_arg_loc(args[o[1]], ctx), pr, self.pre)
            else:
                if off is None:
                    self.fail(f"call of `{name}` without a byte pointer", n)
                if self.log_base is None:
                    self.log_base = off[0]
                if self.log_base != off[0]:
                    self.fail("byte writes through two different pointers", n)
                self.assign(ctx, "w:", f"({ctx.vals['w:']} ++ shiftLog {off[1]} {pr})", self.pre)
        if ret is None:
            return "()", CT("void")
        return ret

    def call_stmt(self, n, ctx, lines):
        """a call whose results are its output parameters: `f(a, &x, &y);`"""
        name, callee, info, cparms = self.resolve_callee(n, ctx)
        args = n["inner"][1:]
        if any(o[0] in ("sink", "log", "stream") for o in info.outs) or info.fueled:
            self.effect_call(n, ctx, name, callee, info, cparms)
            return
        if any(o[0] != "out" for o in info.outs):
            self.fail(f"call statement of `{name}` which returns a value or modifies the object", n)
        texts = []
        for (ln, ty, how) in info.params:
            a = args[how[1]]
            if how[0] == "val":
                v, vt = self.ev(a, ctx)
                texts.append(self.convert(v, vt, node_type(cparms[how[1]]), n))
            elif how[0] == "deref" and not self.pointwise:
                texts.append(self.read(ctx, self.ptr_arg_loc(a, ctx), n))
            else:
                self.fail(f"call of `{name}` with an unsupported pointer argument", n)
        call = f"({info.lean_name}" + (" self" if info.struct else "") + "".join(" " + x for x in texts) + ")"
        outs = [self.ptr_arg_loc(args[o[1]], ctx) for o in info.outs]
        if len(set(outs)) != len(outs):
            self.fail(f"call of `{name}` with aliasing output arguments", n)
        if len(outs) == 1:
            self.assign(ctx, outs[0], call, lines)
            return
        self.tmp += 1
        rn = self._alloc(f"r{self.tmp}")
        lines.append(f"let {rn} : {tuple_type(['Int'] * len(outs))} := {call}")
        for i, l in enumerate(outs):
            self.assign(ctx, l, proj(rn, i, len(outs)), lines)

    def var_decl(self, d, ctx, lines):
        t0 = d["type"].get("desugaredQualType") or d["type"]["qualType"]
        t = parse_type(t0)
        inner = [c for c in d.get("inner", []) if c.get("kind")]
        if t0.strip().endswith("&"):
            if len(inner) != 1:
                self.fail("reference without initialiser", d)
            ctx.alias[d["id"]] = self.lvalue(inner[0], ctx)
            return
        if self.opaque and t.kind == "ptr":
            if len(inner) != 1 or not (t.const or "*const" in t0.replace(" ", "")):
                self.fail("opaque mode: pointer local that is not `T *const p = call`", d)
            i0 = _strip_casts(inner[0])
            if i0.get("kind") not in ("CallExpr", "CXXMemberCallExpr"):
                self.fail("opaque mode: pointer local that is not initialised by a call", d)
            self.ptr_locals.add(d["id"])
            self.local_keys[d["id"]] = self.opaque_key(i0)
            return
        if self.opaque and t.kind in ("int", "bool") and t.const and len(inner) == 1 and \
                _strip_casts(inner[0]).get("kind") in ("CallExpr", "CXXMemberCallExpr"):
            self.local_keys[d["id"]] = self.opaque_key(_strip_casts(inner[0]))
        if self._is_bptr_type(t) and not self.pointwise:
            if len(inner) != 1:
                self.fail("byte pointer without initialiser", d)
            if not (t.const or "*const" in t0.replace(" ", "")) and _contains(self.body, lambda x: x.get("kind") in ("BinaryOperator", "CompoundAssignOperator", "UnaryOperator") and x.get("opcode") in ("=", "+=", "-=", "++", "--") and _strip(x["inner"][0]).get("kind") == "DeclRefExpr" and _strip(x["inner"][0])["referencedDecl"]["id"] == d["id"]):
                self.fail("byte pointer variable that is modified", d)
            ctx.bptr["v:" + d["id"]] = self.ev_bptr(inner[0], ctx)
            return
        if d.get("storageClass") or d.get("tls"):
            self.fail(f"local variable `{d.get('name')}` with storage class {d.get('storageClass') or d.get('tls')}", d)
        if t.kind not in ("int", "bool", "vec2"):
            self.fail(f"local variable `{d.get('name')}` of type {t!r}", d)
        loc = "v:" + d["id"]
        ctx.types[loc] = t
        ctx.names[loc] = self._alloc(d["name"])
        ctx.vals[loc] = None
        if inner:
            if len(inner) != 1:
                self.fail("unsupported initialiser", d)
            v, vt = self.ev(inner[0], ctx)
            v = self.convert(v, vt, t, d)
            tt = CT(t.kind, t.signed, t.bits, t.to, t.name, const=False)
            ctx.types[loc] = tt
            self.assign(ctx, loc, v, lines)
            ctx.types[loc] = t

    # ---- expressions -------------------------------------------------------------------------------------
    def _callee_name(self, n):
        c = n["inner"][0]
        while c.get("kind") in ("ImplicitCastExpr", "ParenExpr"):
            c = c["inner"][0]
        if c.get("kind") == "DeclRefExpr":
            return c["referencedDecl"].get("name")
        if c.get("kind") == "MemberExpr":
            return c.get("name")
        return None

    def _callee_id(self, n):
        c = n["inner"][0]
        while c.get("kind") in ("ImplicitCastExpr", "ParenExpr"):
            c = c["inner"][0]
        if c.get("kind") == "DeclRefExpr":
            return c["referencedDecl"].get("id")
        if c.get("kind") == "MemberExpr":
            return c.get("referencedMemberDecl")
        return None

    def promote(self, t):
        if t.kind == "bool" or (t.kind == "int" and t.bits < 32):
            return CT("int", signed=True, bits=32)
        return t

    def convert(self, v, src, dst, node=None):
        """value conversion between C types (an IntegralCast / IntegralToBoolean / identity)"""
        if src.kind == "int" and dst.kind == "int":
            if src.lo() >= dst.lo() and src.hi() <= dst.hi():
                return v
            m = re.fullmatch(r"\(?(-?\d+)\)?", v)
            if m and dst.lo() <= int(m.group(1)) <= dst.hi():
                return v
            return f"({dst.wrap()} {v})"
        if src.kind == "bool" and dst.kind == "bool":
            return v
        if src.kind == "bool" and dst.kind == "int":
            return f"(if {self.as_prop(v)} then 1 else 0)"
        if src.kind == "int" and dst.kind == "bool":
            return f"(decide ({v} ≠ 0))"
        if src.kind == "vec2" and dst.kind == "vec2" and src.to.same(dst.to):
            return v
        self.fail(f"conversion {src!r} -> {dst!r}", node)

    def as_prop(self, v):
        m = re.fullmatch(r"\(decide \((.*)\)\)", v)
        if m and _balanced(m.group(1)):
            return m.group(1)
        if v == "true":
            return "True"
        if v == "false":
            return "False"
        return f"{v} = true"

    def cond(self, n, ctx):
        """a C condition as a Lean proposition"""
        n0 = _strip(n)
        k = n0.get("kind")
        if k == "BinaryOperator" and n0.get("opcode") in ("&&", "||"):
            self.no_effect += 1
            try:
                a, b = self.cond(n0["inner"][0], ctx), self.cond(n0["inner"][1], ctx)
            finally:
                self.no_effect -= 1
            return f"({a} {'∧' if n0['opcode'] == '&&' else '∨'} {b})"
        if k == "UnaryOperator" and n0.get("opcode") == "!":
            c = self.cond(n0['inner'][0], ctx)
            if c in ("True", "False"):
                return "False" if c == "True" else "True"
            return f"(¬ ({c}))"
        v, t = self.ev(n, ctx)
        if t.kind == "int":
            return f"({v} ≠ 0)"
        if t.kind != "bool":
            self.fail("condition of a non-scalar type", n)
        return self.as_prop(v)

    def arith(self, op, a, b, t):
        if op in ("+", "-", "*"):
            return f"({t.wrap()} ({a} {op} {b}))"
        if op == "/":
            return f"({t.wrap()} (Int.tdiv {a} {b}))"
        if op == "%":
            return f"({t.wrap()} (Int.tmod {a} {b}))"
        raise XlateError(f"arith op {op}")

    def binop(self, op, a, at, b, bt, rt, node):
        if op in ("+", "-", "*", "/", "%"):
            if not (at.kind == "int" and bt.kind == "int" and rt.kind == "int" and at.same(rt) and bt.same(rt)):
                self.fail(f"arithmetic `{op}` on operands of types {at!r}, {bt!r} with result {rt!r}", node)
            return self.arith(op, a, b, rt)
        if op in ("&", "|", "^"):
            if not (at.kind == "int" and bt.kind == "int" and rt.kind == "int" and at.same(rt) and bt.same(rt)):
                self.fail(f"bit operation `{op}` on operands of types {at!r}, {bt!r} with result {rt!r}", node)
            f = {"&": "cAnd", "|": "cOr", "^": "cXor"}[op]
            r = f"({f} {rt.bits} {a} {b})"
            return f"({rt.wrap()} {r})" if rt.signed else r
        if op in ("<<", ">>"):
            if not (at.kind == "int" and bt.kind == "int" and at.same(rt)):
                self.fail(f"shift on operands of types {at!r}, {bt!r} with result {rt!r}", node)
            if op == "<<":
                return f"({rt.wrap()} (cShl {a} {b}))"
            return f"(cShr {a} {b})"
        self.fail(f"binary operator `{op}`", node)

    def opaque_key(self, n):
        """identity of an opaque call: its source text with every local variable replaced by the identity of its (constant)
        initialiser — so that equal keys mean equal calls with equal arguments"""
        text = self.tr.node_text(n)
        subst = {}

        def walk(x):
            if x.get("kind") == "DeclRefExpr" and x["referencedDecl"].get("kind") == "VarDecl":
                rid = x["referencedDecl"]["id"]
                if rid in self.local_keys:
                    subst[x["referencedDecl"]["name"]] = self.local_keys[rid]
                elif x.get("nonOdrUseReason") != "constant" and rid not in self.ix.byid:
                    self.fail("opaque call whose argument is a local that is not a constant", x)
                elif rid in self.ix.byid and self.ix.parent.get(rid) is not None and \
                        self.ix.parent[rid].get("kind") == "DeclStmt":
                    self.fail(f"opaque call whose argument `{x['referencedDecl'].get('name')}` is a mutable local", x)
            for c in x.get("inner", []) or []:
                if isinstance(c, dict):
                    walk(c)
        walk(n)
        for nm, kk in subst.items():
            text = re.sub(r"\b" + re.escape(nm) + r"\b", "⟨" + kk + "⟩", text)
        return text

    def opaque_input(self, text, t, node, shown=None):
        """opaque mode: a call (assumed to be a pure getter) is an input of the translated function, identified by its
        source text — two occurrences of the same text are the same input"""
        if t.kind not in ("int", "bool"):
            self.fail(f"opaque call `{text}` of type {t!r}", node)
        if text not in self.opaque_inputs:
            nm = re.sub(r"_+", "_", re.sub(r"\W", "_", re.sub(r'"([^"]*)"', r"\1", shown or text))).strip("_")
            ln = self._alloc(nm[:60])
            self.opaque_inputs[text] = (ln, CT(t.kind, t.signed, t.bits))
            self.info.params.append((ln, t.lean(), ("opaque", text)))
        return self.opaque_inputs[text]

    def ev(self, n, ctx):
        """-> (Lean text, CT) of a pure expression"""
        k = n.get("kind")
        if self.opaque:
            if k in ("CallExpr", "CXXMemberCallExpr", "CXXOperatorCallExpr"):
                return self.opaque_input(self.opaque_key(n), node_type(n), n, self.tr.node_text(n))
            if k == "ImplicitCastExpr" and n.get("castKind") == "PointerToBoolean":
                b = _strip(n["inner"][0])
                if b.get("kind") == "DeclRefExpr" and b["referencedDecl"]["id"] in self.local_keys:
                    return self.opaque_input("(" + self.local_keys[b["referencedDecl"]["id"]] + ") != nullptr", CT("bool"), n,
                                             b["referencedDecl"]["name"] + "_nonnull")
                self.fail("pointer used as a condition", n)
            if k == "DeclRefExpr" and n["referencedDecl"].get("kind") == "EnumConstantDecl":
                v = self.ix.enum_values.get(n["referencedDecl"]["id"])
                if v is None:
                    self.fail("enumerator without a known value", n)
                return (str(v) if v >= 0 else f"({v})"), node_type(n)
        if k == "ConstantExpr" and "value" in n and node_type(n).kind == "int" and re.fullmatch(r"-?\d+", str(n["value"])):
            v = int(n["value"])
            return (str(v) if v >= 0 else f"({v})"), node_type(n)
        if k == "SubstNonTypeTemplateParmExpr":
            ex = [c for c in n.get("inner", []) if c.get("kind") and not c["kind"].endswith("Decl")]
            if len(ex) != 1:
                self.fail("substituted template parameter", n)
            return self.ev(ex[0], ctx)
        if k in ("ParenExpr", "ExprWithCleanups", "MaterializeTemporaryExpr", "ConstantExpr", "CXXBindTemporaryExpr"):
            return self.ev(n["inner"][0], ctx)
        if k == "IntegerLiteral":
            return n["value"], node_type(n)
        if k == "UnaryExprOrTypeTraitExpr" and n.get("name") == "sizeof" and "argType" in n:
            at = parse_type(n["argType"].get("desugaredQualType") or n["argType"]["qualType"])
            if at.kind != "int":
                self.fail("sizeof of a non-integer type", n)
            return str(at.bits // 8), node_type(n)
        if k == "CXXBoolLiteralExpr":
            return ("true" if n["value"] else "false"), CT("bool")
        if k in ("ImplicitCastExpr", "CXXStaticCastExpr", "CStyleCastExpr", "CXXFunctionalCastExpr"):
            ck = n.get("castKind")
            t = node_type(n)
            if t.kind == "ptr":
                if self.pointwise:
                    return self.ev_ptr(n, ctx), t
                self.fail("pointer value", n)
            if ck in ("LValueToRValue", "NoOp"):
                v, vt = self.ev(n["inner"][0], ctx)
                return self.convert(v, vt, t, n), t
            if ck in ("IntegralCast", "IntegralToBoolean"):
                v, vt = self.ev(n["inner"][0], ctx)
                return self.convert(v, vt, t, n), t
            if ck == "ConstructorConversion" and t.kind == "vec2":
                return self.ev(n["inner"][0], ctx)
            self.fail(f"cast kind {ck}", n)
        if k == "UnaryOperator":
            op = n.get("opcode")
            t = node_type(n)
            if op == "*":
                return self.read(ctx, self.lvalue(n, ctx), n), t
            v, vt = self.ev(n["inner"][0], ctx)
            if op == "-":
                if t.kind != "int" or not vt.same(t):
                    self.fail("unary minus with a type change", n)
                if re.fullmatch(r"\d+", v) and t.lo() <= -int(v):
                    return f"(-{v})", t
                return f"({t.wrap()} (-{v}))", t
            if op == "+":
                return v, t
            if op == "~":
                if t.kind != "int" or not vt.same(t):
                    self.fail("~ with a type change", n)
                return f"({t.wrap()} (-{v} - 1))", t
            if op == "!":
                if vt.kind != "bool":
                    self.fail("! on a non-bool", n)
                return f"(decide (¬ ({self.as_prop(v)})))", CT("bool")
            self.fail(f"unary operator `{op}` inside an expression", n)
        if k == "BinaryOperator":
            op = n.get("opcode")
            if op in ("=", ",") or op.endswith("=") and op not in ("==", "!=", "<=", ">="):
                self.fail("assignment inside an expression", n)
            if op in ("&&", "||"):
                return f"(decide {self.cond(n, ctx)})", CT("bool")
            a, at = self.ev(n["inner"][0], ctx)
            b, bt = self.ev(n["inner"][1], ctx)
            if op in ("<", ">", "<=", ">=", "==", "!="):
                if at.kind == "bool" and bt.kind == "bool" and op in ("==", "!="):
                    return f"(decide ({a} {'=' if op == '==' else '≠'} {b}))", CT("bool")
                if not (at.kind == "int" and bt.kind == "int" and at.same(bt)):
                    self.fail(f"comparison of {at!r} with {bt!r}", n)
                lop = {"<": "<", ">": ">", "<=": "≤", ">=": "≥", "==": "=", "!=": "≠"}[op]
                return f"(decide ({a} {lop} {b}))", CT("bool")
            return self.binop(op, a, at, b, bt, node_type(n), n), node_type(n)
        if k == "ConditionalOperator":
            self.no_effect += 1
            try:
                c = self.cond(n["inner"][0], ctx)
                a, at = self.ev(n["inner"][1], ctx)
                b, bt = self.ev(n["inner"][2], ctx)
            finally:
                self.no_effect -= 1
            t = node_type(n)
            return f"(if {c} then {self.convert(a, at, t, n)} else {self.convert(b, bt, t, n)})", t
        if k == "DeclRefExpr":
            rk = n["referencedDecl"].get("kind")
            if rk not in ("VarDecl", "ParmVarDecl"):
                self.fail(f"reference to a {rk}", n)
            if rk == "VarDecl" and n.get("nonOdrUseReason") == "constant" and node_type(n).kind == "bool" and \
                    ("v:" + n["referencedDecl"]["id"]) not in ctx.types and n["referencedDecl"]["id"] not in ctx.alias:
                return ("true" if self.tr.trait_value(n, self.decl) else "false"), CT("bool")
            if rk == "VarDecl" and ("v:" + n["referencedDecl"]["id"]) not in ctx.types and \
                    n["referencedDecl"]["id"] not in ctx.alias and node_type(n).kind == "int" and node_type(n).const:
                return self.static_const(n, ctx)
            loc = self.lvalue(n, ctx)
            return self.read(ctx, loc, n), ctx.types[loc]
        if k == "MemberExpr" and n.get("referencedMemberDecl") in self.ix.byid and \
                self.ix.byid[n["referencedMemberDecl"]].get("kind") == "VarDecl" and node_type(n).kind == "int" and node_type(n).const:
            return self.static_const(n, ctx, n["referencedMemberDecl"])
        if k == "MemberExpr":
            loc = self.lvalue(n, ctx)
            return self.read(ctx, loc, n), ctx.types[loc]
        if k == "ArraySubscriptExpr" and not self.pointwise and self._is_mem_ptr(n["inner"][0]):
            b, o = self.ev_bptr(n["inner"][0], ctx)
            if not b.startswith("src:"):
                self.fail("read through a pointer that is written through", n)
            iv, it = self.ev(n["inner"][1], ctx)
            return f"({b[4:]} {iv if o == '0' else f'({o} + {iv})'})", node_type(n)
        if k == "ArraySubscriptExpr":
            loc = self.lvalue(n, ctx)
            return self.read(ctx, loc, n), self.loc_type(ctx, loc)
        if k in ("CXXTemporaryObjectExpr", "CXXConstructExpr"):
            t = node_type(n)
            args = [c for c in n.get("inner", []) if c.get("kind")]
            if t.kind == "vec2":
                if len(args) == 2:
                    a, at = self.ev(args[0], ctx)
                    b, bt = self.ev(args[1], ctx)
                    return f"({self.convert(a, at, t.to, n)}, {self.convert(b, bt, t.to, n)})", t
                if len(args) == 1:
                    a, at = self.ev(args[0], ctx)
                    if at.kind == "vec2" and at.to.same(t.to):
                        return a, t
                    if at.kind == "vec2":
                        # draco::VectorD<T, N>(const VectorD<U, N> &): component-wise `T(src[i])` (core/vector_d.h)
                        return f"({self.convert(a + '.1', at.to, t.to, n)}, {self.convert(a + '.2', at.to, t.to, n)})", t
            self.fail("constructor call", n)
        if k == "CXXMemberCallExpr" and self.chain and len(n["inner"]) == 1 and \
                n["inner"][0].get("name") in getattr(self, "abs_names", {}):
            return self.abs_names[n["inner"][0]["name"]]
        if k in ("CallExpr", "CXXMemberCallExpr", "CXXOperatorCallExpr"):
            return self.call(n, ctx)
        self.fail("unsupported expression", n)

    def static_const(self, n, ctx, vid=None):
        """a `static constexpr`/`const` integer with an initialiser (class constant, namespace constant)"""
        vid = vid or n["referencedDecl"]["id"]
        d = self.ix.byid.get(vid)
        init = [c for c in (d or {}).get("inner", []) if c.get("kind") and not c["kind"].endswith("Attr")] if d else []
        if d is None or d.get("kind") != "VarDecl" or len(init) != 1 or not (d.get("constexpr") or node_type(d).const):
            self.fail("constant whose initialiser is not available", n)
        self.const_depth = getattr(self, "const_depth", 0) + 1
        if self.const_depth > 8:
            self.fail("constants nested too deeply", n)
        try:
            v, vt = self.ev(init[0], Ctx())
        finally:
            self.const_depth -= 1
        t = node_type(d)
        return self.convert(v, vt, t, n), t

    def ev_ptr(self, n, ctx):
        """pointwise mode: the element (at the loop index) of the array a pointer expression points to"""
        if not self.pointwise:
            self.fail("pointer value outside pointwise mode", n)
        n0 = _strip(n)
        k = n0.get("kind")
        if k == "DeclRefExpr":
            loc = "pe:" + n0["referencedDecl"]["id"]
            if loc in ctx.types:
                return self.read(ctx, loc, n0)
            self.fail("pointer that is not a parameter", n0)
        if k == "CXXMemberCallExpr":
            me = n0["inner"][0]
            obj = _strip(me["inner"][0])
            if me.get("name") == "data" and node_type(obj).kind == "stdvec" and obj.get("kind") == "MemberExpr" and \
                    _strip(obj["inner"][0]).get("kind") == "CXXThisExpr" and len(n0["inner"]) == 1:
                return self.read(ctx, "fe:" + obj["name"], n0)
            v, t = self.call(n0, ctx)
            return v
        self.fail("unsupported pointer expression", n0)

    def call(self, n, ctx):
        k = n.get("kind")
        name = self._callee_name(n)
        t = node_type(n)
        args = n["inner"][1:]
        if k == "CallExpr":
            if name == "abs" and len(args) == 1:
                a, at = self.ev(args[0], ctx)
                if at.kind == "int" and at.signed and t.same(at):
                    return f"({t.wrap()} (cAbs {a}))", t
                self.fail("abs on a non signed-integer", n)
            if name == "__builtin_clz" and len(args) == 1:
                a, at = self.ev(args[0], ctx)
                if at.kind == "int" and not at.signed and at.bits == 32:
                    return f"(cClz32 {a})", t
                self.fail("__builtin_clz operand", n)
            if name in ("max", "min") and len(args) == 0 and t.kind == "int":
                c = n["inner"][0]
                while c.get("kind") in ("ImplicitCastExpr", "ParenExpr"):
                    c = c["inner"][0]
                # `std::numeric_limits<T>::max()`: a static member function (CXXMethodDecl) without arguments whose
                # result type is T — no other such `max`/`min` exists in the sources that are translated
                if c.get("kind") == "DeclRefExpr" and c["referencedDecl"].get("kind") == "CXXMethodDecl" and \
                        re.fullmatch(r".*\(\)( noexcept)?", c["referencedDecl"]["type"]["qualType"]):
                    return str(t.hi() if name == "max" else t.lo()), t
                self.fail("max()/min() that is not numeric_limits", n)
        if k == "CXXOperatorCallExpr":
            if name == "operator[]" and len(args) == 2:
                obj, idx = args
                ot = node_type(obj)
                if ot.kind == "vec2":
                    i0 = _strip(idx)
                    if i0.get("kind") != "IntegerLiteral" or i0["value"] not in ("0", "1"):
                        self.fail("VectorD index is not the literal 0 or 1", n)
                    v, vt = self.ev(obj, ctx)
                    return f"{v}.{int(i0['value']) + 1}", ot.to
                if ot.kind == "stdvec":
                    loc = self.lvalue(n, ctx)
                    return self.read(ctx, loc, n), ctx.types[loc]
            if name in ("operator+", "operator-") and len(args) == 2 and node_type(args[0]).kind == "vec2" and \
                    node_type(args[1]).kind == "vec2" and t.kind == "vec2":
                # draco::VectorD<T, N>::operator± : component-wise `T` arithmetic (core/vector_d.h)
                a, at = self.ev(args[0], ctx)
                b, bt = self.ev(args[1], ctx)
                if not (at.to.same(bt.to) and at.to.same(t.to)):
                    self.fail("VectorD operator on different scalar types", n)
                el = self.promote(t.to)
                c1 = self.convert(self.arith(name[-1], f"{a}.1", f"{b}.1", el), el, t.to, n)
                c2 = self.convert(self.arith(name[-1], f"{a}.2", f"{b}.2", el), el, t.to, n)
                return f"({c1}, {c2})", t
            self.fail(f"operator call `{name}`", n)
        if k == "CXXMemberCallExpr" and name == "Encode" and len(args) == 1:
            obj = _strip(n["inner"][0]["inner"][0])
            if obj.get("kind") == "DeclRefExpr" and obj["referencedDecl"]["id"] in self.sink_params:
                # EncoderBuffer::Encode(const T &) for a one-byte T: appends the byte, returns true (the bit encoder
                # of the buffer is not active — an assumption of the byte-sink model, see notes/xlate.md)
                a, at = self.ev(args[0], ctx)
                if at.kind != "int" or at.bits != 8:
                    self.fail("EncoderBuffer::Encode of something other than one byte", n)
                if self.no_effect:
                    self.fail("call with effects inside `&&`, `||` or `?:`", n)
                self.assign(ctx, "w:", f"({ctx.vals['w:']} ++ [{self.convert(a, at, CT('int', signed=False, bits=8), n)}])", self.pre)
                return "true", CT("bool")
        # a function of the translated set
        name, callee, info, cparms = self.resolve_callee(n, ctx)
        if getattr(info, "optional", False):
            self.fail(f"call of `{name}` which contains loops", n)
        if any(o[0] in ("sink", "log", "stream") for o in info.outs) or info.fueled:
            return self.effect_call(n, ctx, name, callee, info, cparms)
        if len(info.outs) != 1 or info.outs[0][0] != "ret":
            self.fail(f"call of `{name}` which has output parameters or modifies the object", n)
        texts = []
        for (ln, ty, how) in info.params:
            a = args[how[1]]
            pt = node_type(cparms[how[1]])
            if how[0] == "val":
                v, vt = self.ev(a, ctx)
                texts.append(self.convert(v, vt, pt, n))
            elif how[0] == "elem":
                if not self.pointwise:
                    self.fail(f"call of the pointwise function `{name}` outside pointwise mode", n)
                texts.append(self.ev_ptr(a, ctx))
            elif how[0] == "src":
                b, o = self.ev_bptr(a, ctx)
                if not b.startswith("src:"):
                    self.fail(f"call of `{name}`: the source argument is not a read-only byte pointer", n)
                texts.append(b[4:] if o == "0" else f"(fun i => {b[4:]} ({o} + i))")
            else:
                self.fail(f"call of `{name}` with a pointer argument", n)
        s = f"({info.lean_name}" + (" self" if info.struct else "") + "".join(" " + x for x in texts) + ")"
        return s, t


def _strip(n):
    while n.get("kind") in ("ImplicitCastExpr", "ParenExpr", "ExprWithCleanups", "MaterializeTemporaryExpr") and \
            (n.get("kind") != "ImplicitCastExpr" or n.get("castKind") in ("LValueToRValue", "NoOp", "UncheckedDerivedToBase", "DerivedToBase")):
        n = n["inner"][0]
    return n


def _strip_casts(n):
    while n.get("kind") in ("ImplicitCastExpr", "ParenExpr", "ExprWithCleanups", "MaterializeTemporaryExpr",
                            "CXXStaticCastExpr", "CStyleCastExpr"):
        n = n["inner"][0]
    return n


def _contains(n, pred):
    if pred(n):
        return True
    for c in n.get("inner", []) or []:
        if isinstance(c, dict) and _contains(c, pred):
            return True
    return False


def _count(n, kind):
    r = 1 if n.get("kind") == kind else 0
    for c in n.get("inner", []) or []:
        if isinstance(c, dict):
            r += _count(c, kind)
    return r


def _balanced(s):
    d = 0
    for ch in s:
        if ch == "(":
            d += 1
        elif ch == ")":
            d -= 1
            if d < 0:
                return False
    return d == 0


# ---------------------------------------------------------------------------------------------------------
# file generation
# ---------------------------------------------------------------------------------------------------------
HEADER = """\
import DracoModel.CInt
/- generated by tools/vlib/xlate.py from clang's typed AST of /repo's working tree — do not edit.
   One `def` per whitelisted C++ function (and per function it calls); C integer semantics is explicit:
   every arithmetic result is reduced to its C type (`wrapI32`, `wrapU32`, `wrapI64`, …), `/` and `%` truncate.
   The theorems `Draco.Generated.*_eq_model` (lean/DracoProofs/GeneratedFuncs.lean) prove each definition equal to the
   hand-written model definition that the property theorems are about. -/
namespace Draco.Generated
open Draco.CInt
set_option linter.unusedVariables false
"""


def generate(repo, build_dir, workdir, whitelist=None):
    """-> (text of Funcs.lean, [failure notes])"""
    whitelist = WHITELIST if whitelist is None else whitelist
    notes = []
    out = [HEADER]
    try:
        ix = Index(load_objs(run_clang(repo, build_dir, workdir)))
    except XlateError as ex:
        out.append(f"-- XLATE-FAILED (whole translation unit): {ex}")
        out.append("\nend Draco.Generated\n")
        return "\n".join(out), [f"xlate: {ex}"]
    tr = Translator(ix, whitelist)
    failed = []
    for w in whitelist:
        q = (w["cls"] + "::" if w.get("cls") else "") + w["fn"]
        try:
            decl = ix.find_function(w.get("cls"), w["fn"], w.get("params"), w.get("targs"))
            tr.translate(decl, w)
        except XlateError as ex:
            failed.append((q, str(ex)))
            notes.append(f"xlate: {q} not translated: {ex}")
        except (KeyError, IndexError, TypeError, ValueError) as ex:     # malformed / unexpected AST shape
            failed.append((q, f"unexpected AST shape: {ex!r}"))
            notes.append(f"xlate: {q} not translated: unexpected AST shape {ex!r}")
    if tr.trait_checks:
        chk = os.path.join(workdir, "xlate_traits.cc")
        with open(chk, "w") as f:
            f.write("#include <type_traits>\n#include <cstdint>\n" + "\n".join(sorted(set(tr.trait_checks))) + "\n")
        rc, o, e = C.run([CLANG, "-std=gnu++17", "-fsyntax-only", chk], timeout=120)
        if rc != 0:
            out.append(f"-- XLATE-FAILED (type traits evaluated differently by clang): {e.strip()[-300:]}")
            out.append("\nend Draco.Generated\n")
            return "\n".join(out), ["xlate: type trait check failed"]
    for sid in tr.struct_order:
        name, fields, skipped = tr.structs[sid]
        out.append(f"/-- integer fields of `{name}`" + (f" (not represented: {', '.join(skipped)})" if skipped else "") + " -/")
        out.append(f"structure {name} where")
        if not fields:
            out.append("  mk ::")
        for (f, t) in fields:
            out.append(f"  {lean_ident(f)} : {t.lean()}")
        out.append("deriving Repr, DecidableEq\n")
    for key in tr.order:
        info = tr.done[key]
        i = key.split("#")[0]
        d = ix.byid[i]
        cls = ix.class_of(d)
        loc = d.get("loc", {})
        loc = loc.get("expansionLoc", loc)
        q = (cls["name"] + "::" if cls else "") + d["name"]
        out.append(f"/-- `{q}` : `{d['type']['qualType']}`" + (" — one loop iteration on component i" if info.pointwise else "") + " -/")
        out.append(info.text + "\n")
    for q, why in failed:
        out.append(f"-- XLATE-FAILED {q}: {why}")
    out.append("\nend Draco.Generated\n")
    return "\n".join(out), notes
