"""The check engine: proof obligations + audits + correspondence + property oracle + evidence."""
import hashlib
import json
import os
import random
import sys

from . import common as C
from . import implside, leanside


class Case:
    """One correspondence / oracle case.

    op      : line sent to the C++ harness (None = model-only case)
    model   : line sent to the Lean driver; None = same as op; False = impl-only;
              callable(hout) -> line (or None to skip) for two-stage cases
    expect  : callable(hout, mout, case) -> None | str   (disagreement text); default: equality
    oracle  : callable(hout, case) -> None | (signature, text)  property violated by the implementation
    flavour : 'plain' | 'asan' | 'tsan'
    tags    : strings for the input-distribution histogram
    nontrivial : bool
    """

    def __init__(self, op, model=None, expect=None, oracle=None, flavour="plain", tags=(), nontrivial=True,
                 exe="harness_main", note=None):
        self.op, self.model, self.expect, self.oracle = op, model, expect, oracle
        self.flavour, self.tags, self.nontrivial, self.exe, self.note = flavour, tuple(tags), nontrivial, exe, note
        self.hout = None
        self.mout = None


def _short(s, n=400):
    s = str(s)
    return s if len(s) <= n else s[:n] + f"…(+{len(s) - n} chars)"


class Result:
    def __init__(self, pid, tier, seed):
        self.pid, self.tier, self.seed = pid, tier, seed
        self.violations = []      # dicts: kind, signature, text, case
        self.known_hits = []
        self.notes = []
        self.coverage = {}
        self.timer = C.Timer()


def run_property(P, tier, seed, replay_lines=None):
    """P: property module (tools/props/Cxx.py). Returns process exit code."""
    pid = P.ID
    res = Result(pid, tier, seed)
    rng = random.Random(f"{seed}-{pid}-{tier}")
    workdir = os.path.join(C.CACHE, "run", f"{pid}-{tier}-{os.getpid()}")
    os.makedirs(workdir, exist_ok=True)
    # work dirs are kept on failure (and left behind by killed runs): prune those older than two hours
    try:
        import shutil, time
        rd = os.path.dirname(workdir)
        for d in os.listdir(rd):
            f = os.path.join(rd, d)
            if f != workdir and time.time() - os.path.getmtime(f) > 7200:
                shutil.rmtree(f, ignore_errors=True)
    except OSError:
        pass
    kf = C.load_known_findings()
    known = {k["signature"]: k for k in kf.get("known", []) if k.get("property") == pid}

    # ---- 0. build /repo's working tree + harness (needed by the translator's probe)
    cases = P.generate(rng, tier) if replay_lines is None else P.replay_cases(replay_lines)
    flavours = sorted({c.flavour for c in cases if c.op is not None} | {"plain"})
    try:
        hd = implside.ensure(flavours)
    except SystemExit as ex:
        print(f"BUILD ERROR: {ex}")
        _write_evidence(P, res, 0, 0, [], {}, cases, [], extra={"build_error": str(ex)})
        path = _write_replay(pid, seed, {"kind": "build-failure", "text": str(ex)})
        print(f"VIOLATION property={pid} replay={path} no-failing-input-found")
        return 1

    # ---- 1. translator: regenerate Generated/*.lean from /repo
    from . import translate
    tr_notes = translate.run(hd["plain"])
    res.notes.extend(tr_notes)

    # ---- 2. proof obligations
    mods = list(getattr(P, "LEAN_MODULES", []))
    broken_proofs = []
    names = []
    for m in mods:
        names.extend(leanside.theorems_of(m))
    rc, text = leanside.lake_build(mods + ["dracomodel"])
    failed_names = set()
    if rc != 0:
        errs = leanside.parse_build_errors(text)
        for (f, line, msg) in errs:
            d = leanside.decl_at(f, line)
            broken_proofs.append(f"{f}:{line}: in `{d}`: {msg}")
            nm = d.split(" ", 1)[1] if " " in d else d
            for n in names:
                if n.split(".")[-1] == nm.split(".")[-1]:
                    failed_names.add(n)
        if not errs:
            broken_proofs.append("lake build failed: " + _short(text[-1500:], 1500))
        # errors outside the props files invalidate every obligation that depends on them
        if any(not e[0].startswith("DracoProps") for e in errs) or not errs:
            failed_names = set(names)
    driver_ok = os.path.exists(leanside.driver_path())
    if rc != 0:
        # the driver may still be buildable on its own
        rc2, text2 = leanside.lake_build(["dracomodel"])
        driver_ok = rc2 == 0
        if not driver_ok:
            broken_proofs.append("model driver does not build: " + _short(text2[-1500:], 1500))
    audit_hits = leanside.source_audit(mods + ["Main"])
    axioms, ax_problems = ({}, [])
    if rc == 0:
        axioms, ax_problems = leanside.axiom_audit(mods, names)
    obligations = len(names)
    discharged = 0 if (rc != 0 and failed_names == set(names)) else len([n for n in names if n not in failed_names])
    if audit_hits or ax_problems:
        discharged = 0 if audit_hits else discharged - len(ax_problems)
    thorough_leanchecker = None
    if tier == "thorough" and rc == 0:
        lc = []
        for m in mods:
            r3, o3, e3 = C.run(["lake", "env", "leanchecker", m], cwd=C.LEAN, timeout=3000)
            lc.append((m, r3))
            if r3 != 0:
                broken_proofs.append(f"leanchecker {m} failed: " + _short((o3 + e3)[-800:], 800))
        thorough_leanchecker = lc

    def _execute(cases, tagp=""):
        """runs implementation + model on the cases, compares, evaluates oracles; returns (disagreements, model_err)"""
        disagreements = []
        model_err = None
        # ---- 4. run implementation
        groups = {}
        for i, c in enumerate(cases):
            if c.op is not None:
                envk = tuple(sorted((getattr(c, "env", None) or {}).items()))
                groups.setdefault((c.flavour, c.exe, envk, getattr(c, "group", 0)), []).append(i)
        for gi, ((fl, exe, envk, _grp), idxs) in enumerate(groups.items()):
            outs = implside.run_ops(hd[fl], [cases[i].op for i in idxs], workdir, f"{tagp}{fl}-{exe}-{gi}", exe=exe,
                                    timeout=getattr(P, "TIMEOUT", 1800), env=dict(envk) or None,
                                    atomic=any(k == "VH_THREADS" for k, _ in envk))
            for i, o in zip(idxs, outs):
                cases[i].hout = o

        # ---- 5. run model
        mlines, midx = [], []
        for i, c in enumerate(cases):
            if c.model is False:
                continue
            if callable(c.model):
                ml = c.model(c.hout)
            elif c.model is None:
                ml = c.op
            else:
                ml = c.model
            if ml is None:
                continue
            mlines.append(ml)
            midx.append(i)
        if mlines and driver_ok:
            f = os.path.join(workdir, tagp + "model.ops.txt")
            with open(f, "w") as fh:
                fh.write("\n".join(mlines) + "\n")
            rcm, mouts, merr = leanside.run_driver(f, timeout=getattr(P, "TIMEOUT", 1800))
            if rcm != 0 or len(mouts) != len(mlines):
                model_err = f"model driver rc={rcm}, {len(mouts)}/{len(mlines)} lines: {_short(merr[-500:], 500)}"
            for i, o in zip(midx, mouts):
                cases[i].mout = o

        # ---- 6. compare + oracle
        for c in cases:
            if c.hout is not None and c.hout.startswith("CRASH") and not getattr(c, "crash_ok", False):
                sig = getattr(c, "sig_override", None) or ("crash:" + (c.note or c.op.split(" ", 1)[0]))
                if sig in known:
                    res.known_hits.append((sig, known[sig]))
                    continue
                res.violations.append({"kind": "implementation-crash", "signature": sig,
                                       "text": c.hout, "case": c})
                continue
            if c.oracle is not None and c.hout is not None:
                v = c.oracle(c.hout, c)
                if v is not None:
                    sig, txt = v
                    if sig in known:
                        res.known_hits.append((sig, known[sig]))
                    else:
                        res.violations.append({"kind": "property-violated-by-implementation", "signature": sig,
                                               "text": txt, "case": c})
            sp = getattr(c, "spec", None)
            if sp is not None and c.hout is not None and c.mout is not None:
                v = sp(c.hout, c.mout, c)
                if v is not None:
                    sig, txt = v
                    if sig in known:
                        res.known_hits.append((sig, known[sig]))
                    else:
                        res.violations.append({"kind": "property-violated-by-implementation", "signature": sig,
                                               "text": txt, "case": c})
            if c.model is not False and c.mout is not None and c.hout is not None or (c.op is None and c.mout is not None):
                d = None
                if c.expect is not None:
                    d = c.expect(c.hout, c.mout, c)
                elif c.hout != c.mout:
                    d = f"implementation: {_short(c.hout)} | model: {_short(c.mout)}"
                if d is not None:
                    disagreements.append((c, d))
        return disagreements, model_err

    disagreements, model_err = _execute(cases)
    if model_err:
        broken_proofs.append(model_err)

    # ---- 7. a broken obligation / correspondence without failing input: search
    no_input = []
    if (broken_proofs or audit_hits or ax_problems or disagreements) and not res.violations:
        found = None
        if hasattr(P, "search"):
            found = P.search(rng, tier, hd, workdir, disagreements, broken_proofs)
        elif replay_lines is None:
            # generic search for a concrete failing input: a fresh, deeper set of cases (the thorough generators,
            # another PRNG stream) is run through the implementation and the property oracles only
            res.notes.append("obligation/correspondence broken without failing input: searching with the thorough generators")
            try:
                more = P.generate(random.Random(f"{seed}-{pid}-search"), "thorough")[:getattr(P, "SEARCH_CASES", 4000)]
                _execute(more, tagp="search-")
                cases.extend(more)
            except Exception as ex:      # the search is best effort; the violation is reported either way
                res.notes.append(f"search aborted: {ex!r}")
        if found:
            for (sig, txt, case) in found:
                if sig in known:
                    res.known_hits.append((sig, known[sig]))
                else:
                    res.violations.append({"kind": "property-violated-by-implementation", "signature": sig,
                                           "text": txt, "case": case})
        if not res.violations:
            for b in broken_proofs:
                no_input.append({"kind": "proof-obligation-broken", "text": b})
            for h in audit_hits:
                no_input.append({"kind": "source-audit", "text": h})
            for a in ax_problems:
                no_input.append({"kind": "axiom-audit", "text": a})
            for (c, d) in disagreements[:20]:
                no_input.append({"kind": "correspondence-broken", "text": d, "op": c.op, "model_op": c.mout and None})

    # ---- 8. evidence + report
    _write_evidence(P, res, obligations, discharged, names, axioms, cases, disagreements,
                    extra={"broken_obligations": broken_proofs[:20], "audit_hits": audit_hits,
                           "axiom_problems": ax_problems, "leanchecker": thorough_leanchecker,
                           "repo_source_digest": hd.get("digest")})
    exit_code = 0
    seen_sig = set()
    for sig, k in res.known_hits:
        if sig not in seen_sig:
            seen_sig.add(sig)
            print(f"KNOWN-FINDING: property={pid} {k.get('what', sig)}")
    if res.violations:
        v = res.violations[0]
        c = v["case"]
        path = _write_replay(pid, seed, {
            "kind": v["kind"], "signature": v["signature"], "text": v["text"],
            "op": getattr(c, "op", None), "implementation_output": getattr(c, "hout", None),
            "model_output": getattr(c, "mout", None), "flavour": getattr(c, "flavour", None),
            "others": [{"signature": x["signature"], "text": _short(x["text"]), "op": _short(getattr(x["case"], "op", ""), 2000)}
                       for x in res.violations[1:10]],
            "broken_obligations": broken_proofs[:10],
            "env": getattr(c, "env", None),
            "batch_ops": ([x.op for x in cases if getattr(x, "env", None) == getattr(c, "env", None)
                           and x.flavour == c.flavour and getattr(x, "group", 0) == getattr(c, "group", 0)]
                          if getattr(c, "env", None) else None)})
        print(f"VIOLATION property={pid} replay={path}")
        exit_code = 1
    elif no_input:
        path = _write_replay(pid, seed, {"kind": "no-failing-input-found", "unchecked": no_input})
        print(f"VIOLATION property={pid} replay={path} no-failing-input-found")
        exit_code = 1
    else:
        print(f"OK property={pid} tier={tier} obligations={discharged}/{obligations} cases={len(cases)} wall={res.timer.s()}s")
    # keep the work dir only on failure
    if exit_code == 0:
        import shutil
        shutil.rmtree(workdir, ignore_errors=True)
    return exit_code


def _write_replay(pid, seed, obj):
    os.makedirs(C.REPLAYS, exist_ok=True)
    h = hashlib.sha1(json.dumps(obj, sort_keys=True, default=str).encode()).hexdigest()[:10]
    path = os.path.join(C.REPLAYS, f"{pid}-{seed}-{h}.json")
    obj = dict(obj)
    obj["property"] = pid
    obj["seed"] = seed
    C.write_json(path, obj)
    return path


def _write_evidence(P, res, obligations, discharged, names, axioms, cases, disagreements, extra=None):
    tags = {}
    for c in cases:
        for t in c.tags:
            tags[t] = tags.get(t, 0) + 1
        tg = getattr(c, "mtag", None)
        if tg is not None:
            t = tg(c.mout) if callable(tg) else tg
            tags[t] = tags.get(t, 0) + 1
    distinct = len({(c.op or "") + "|" + (c.model if isinstance(c.model, str) else "") for c in cases if c.nontrivial})
    samples = []
    step = max(1, len(cases) // 5)
    for c in cases[::step][:6]:
        samples.append({"op": _short(c.op or c.model, 300), "implementation": _short(c.hout, 200),
                        "model": _short(c.mout, 200)})
    level = getattr(P, "LEVEL", "proof")
    cov = {
        "obligations": obligations,
        "discharged": discharged,
        "checker_cmd": "cd /verif/lean && lake build " + " ".join(getattr(P, "LEAN_MODULES", [])) +
                       " && lake env lean <generated #print axioms file>  (tools/check.py does both; leanchecker in thorough tier)",
        "trusted_base": C.TRUSTED_BASE + list(getattr(P, "TRUSTED_EXTRA", [])),
        "theorems": names,
        "axioms_used": {k: v for k, v in list(axioms.items())},
        "evaluations": len(cases),
        "distinct_nontrivial": distinct,
        "rule": getattr(P, "RULE", ""),
        "samples": samples or [{"note": "no correspondence cases in this run"}],
        "programs": len(cases),
        "disagreements_checked": len(disagreements),
        "input_distribution": dict(sorted(tags.items())),
        "crashes": len([c for c in cases if c.hout and c.hout.startswith("CRASH")]),
        "theorem_backed": getattr(P, "THEOREM_BACKED", ""),
        "correspondence_only": getattr(P, "CORRESPONDENCE_ONLY", ""),
        "explanation": getattr(P, "EXPLANATION", ""),
        "known_findings_hit": sorted({s for s, _ in res.known_hits}),
    }
    if extra:
        cov.update(extra)
    ev = {
        "property_id": P.ID,
        "tier": res.tier,
        "seed": res.seed,
        "level": level,
        "coverage": cov,
        "assumptions": list(getattr(P, "ASSUMPTIONS", [])),
        "wall_s": res.timer.s(),
        "violations": len(res.violations),
    }
    import re as _re
    # evidence/<id>.json exists for the properties only; development runners (EBDEV, LEGDEV, C01kd, …) write theirs
    # next to the work dirs
    dst = C.EVIDENCE if _re.fullmatch(r"C\d\d", P.ID) else os.path.join(C.CACHE, "dev-evidence")
    os.makedirs(dst, exist_ok=True)
    C.write_json(os.path.join(dst, f"{P.ID}.json"), ev)
