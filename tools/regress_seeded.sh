#!/bin/bash
# usage: regress_seeded.sh <workers> [ids…]  — runs every seeded change against its property's quick check in <workers>
# private workspaces (/tmp/reg_<k>: clone of /verif + detached worktree of /repo), then copies the verdicts back
# into /verif/seeded/*/meta.json. /repo and /verif themselves are not touched while it runs.
set -u
N=${1:-4}
if [ $# -gt 1 ]; then shift; ids=("$@"); else ids=($(ls /verif/seeded)); fi
for k in $(seq 0 $((N-1))); do
  d=/tmp/reg_$k
  rm -rf $d; mkdir -p $d
  git clone -q /verif $d/verif
  cp -a /verif/lean/.lake $d/verif/lean/.lake
  git -C /repo worktree add --detach $d/repo HEAD >/dev/null 2>&1
  mine=()
  for i in "${!ids[@]}"; do if [ $((i % N)) -eq $k ]; then mine+=("${ids[$i]}"); fi; done
  printf "%s\n" "${mine[@]}" > $d/mine.txt
  ( cd $d/verif && VERIF_REPO=$d/repo python3 tools/run_seeded.py "${mine[@]}" > $d/log.txt 2>&1; echo DONE >> $d/log.txt ) &
done
wait
for k in $(seq 0 $((N-1))); do
  d=/tmp/reg_$k
  for i in $(cat $d/mine.txt); do cp $d/verif/seeded/$i/meta.json /verif/seeded/$i/meta.json; done
  grep -h "caught\|missed\|NOT APPLY" $d/log.txt
  mkdir -p /tmp/reg_logs; cp $d/log.txt /tmp/reg_logs/log_$k.txt
  git -C /repo worktree remove --force $d/repo
  rm -rf $d
done
