#!/usr/bin/env python3
"""Runs the registered checks against the seeded changes: for each seeded/<id>/ apply patch.diff to /repo,
run the quick check of its property (plus any extra properties given), undo, record the outcome in meta.json.
usage: run_seeded.py [id ...] [--props C01,C03] [--tier quick]"""
import json, os, subprocess, sys
V = os.path.dirname(os.path.dirname(os.path.abspath(__file__)))
REPO = os.environ.get("VERIF_REPO", "/repo")
args = [a for a in sys.argv[1:] if not a.startswith("--")]
extra = []
tier = "quick"
for a in sys.argv[1:]:
    if a.startswith("--props="):
        extra = a.split("=", 1)[1].split(",")
    if a.startswith("--tier="):
        tier = a.split("=", 1)[1]
claimed = {c["property_id"] for c in json.load(open(os.path.join(V, "MANIFEST.json")))["checks"]}
ids = args or sorted(os.listdir(os.path.join(V, "seeded")))
# evidence files are rewritten by every check run: keep the ones of the clean tree
import shutil, tempfile
os.makedirs(os.path.join(V, ".cache"), exist_ok=True)
_ev_backup = tempfile.mkdtemp(prefix="evidence_backup_", dir=os.path.join(V, ".cache"))
shutil.copytree(os.path.join(V, "evidence"), os.path.join(_ev_backup, "evidence"))
assert subprocess.run(f"git -C {REPO} status --porcelain --untracked-files=no", shell=True, capture_output=True, text=True).stdout.strip() == "", "/repo not clean"
for i in ids:
    d = os.path.join(V, "seeded", i)
    meta = json.load(open(os.path.join(d, "meta.json")))
    patch = os.path.join(d, "patch.diff")
    props = [p for p in [meta["property"]] + extra if p in claimed or os.path.exists(os.path.join(V, "tools", "props", p + ".py"))]
    if subprocess.run(["git", "-C", REPO, "apply", "--check", patch]).returncode != 0:
        print(i, "PATCH DOES NOT APPLY (tree changed by a fix: commit?)")
        meta.setdefault("detection", {})["note"] = "patch no longer applies to the current tree"
        json.dump(meta, open(os.path.join(d, "meta.json"), "w"), indent=1)
        continue
    subprocess.run(["git", "-C", REPO, "apply", patch], check=True)
    try:
        for p in props:
            r = subprocess.run(["python3", os.path.join(V, "tools", "check.py"), "--property", p, "--tier", tier],
                               cwd=V, capture_output=True, text=True)
            last = [l for l in r.stdout.strip().split("\n") if l.startswith(("VIOLATION", "OK", "KNOWN"))]
            verdict = "caught" if r.returncode == 1 and any(l.startswith("VIOLATION") for l in last) else "missed"
            kind = ""
            for l in last:
                if l.startswith("VIOLATION"):
                    rp = l.split("replay=")[1].split()[0]
                    try:
                        kind = json.load(open(rp)).get("kind", "")
                    except Exception:
                        pass
            meta.setdefault("detection", {})[p] = {"tier": tier, "verdict": verdict, "replay_kind": kind,
                                                   "no_failing_input_found": any("no-failing-input-found" in l for l in last)}
            print(i, p, verdict, kind, flush=True)
    finally:
        subprocess.run(["git", "-C", REPO, "checkout", "--", "."], check=True)
    json.dump(meta, open(os.path.join(d, "meta.json"), "w"), indent=1)

shutil.rmtree(os.path.join(V, "evidence"))
shutil.copytree(os.path.join(_ev_backup, "evidence"), os.path.join(V, "evidence"))
shutil.rmtree(_ev_backup)
# leave lean/Generated in the state of the clean tree
subprocess.run(["python3", "-c", "import sys; sys.path.insert(0, '%s/tools'); from vlib import translate, implside; hd = implside.ensure(['plain']); translate.run(hd['plain'])" % V], cwd=V)
