"""C19 — independent encoder/decoder instances can run concurrently."""
from vlib.engine import Case
from . import e2e, geomgen as G

ID = "C19"
LEVEL = "proof"
LEAN_MODULES = ["DracoProps.C19"]
RULE = ("operation files of encode+decode calls over different small geometries and option sets (all methods) are "
        "executed sequentially (reference) and concurrently by N = 2, 4, 8, 16 threads of a ThreadSanitizer build, "
        "start-aligned with random yields, several rounds; every concurrent result must equal the sequential result "
        "of the same line; any TSan report fails the batch. Proof part: the generated list of writable static-storage "
        "symbols of the fresh build is checked by `decide`, the frame property by induction"
        '; the op mix includes decodes of corpus streams of every bitstream version (the frozen decode is the '
        'run-alone reference) and refusing / accepting metadata encoders (own-oracle lines)')
THEOREM_BACKED = "codec_path_has_no_shared_state (generated symbol list), codec_path_calls_no_hidden_state_function and codec_path_has_no_guarded_static (generated import list), frame_commutes, interleavings_agree"
CORRESPONDENCE_ONLY = "absence of data races in the compiled code: observed under ThreadSanitizer, not proved"
EXPLANATION = ("no mutable static storage on the codec path (regenerated from the binary on every run) + frame theorem; "
               "bridge = C++ memory model for objects without common reachable mutable storage (assumed)")
TRUSTED_EXTRA = ["C++ memory model: threads that share no reachable mutable storage cannot race; thread-safety of the allocator and of libstdc++'s std::__ioinit",
                 "readelf/c++filt symbol and section tables of the fresh objects (translator)"]
TIMEOUT = 3000


def generate(rng, tier):
    base = []
    n = 160 if tier == "thorough" else 64
    for i in range(n):
        is_mesh = rng.random() < 0.6
        g = G.rand_mesh(rng, rng.choice([4, 10, 30])) if is_mesh else G.rand_point_cloud(rng, rng.choice([5, 20, 60]))
        if g.num_points == 0:
            continue
        toks, info = e2e.rand_options(rng, g)
        if i % 3 == 0:
            # option vectors (explicit quantization origins) travel through Options::GetVector's string parsing:
            # make sure a good share of the concurrent calls exercises that path
            for _ in range(12):
                if info.get("explicit"):
                    break
                toks, info = e2e.rand_options(rng, g, explicit=1.0, quant_prob=1.0)
        base.append("encdec " + " ".join(toks) + " -- " + g.to_text())
    # the I/O registries (the library's only process-wide mutable objects): file loads through two different
    # registered readers, concurrently
    for i in range(24 if tier == "thorough" else 12):
        base.append(f"readfile {'AB'[i % 2]} {rng.choice([1, 100, 5000])} {rng.getrandbits(20)}")
    # decodes of existing streams of EVERY bitstream version (small testdata files: 1.1, 1.2, 2.0, 2.1, 2.2, 2.3): what
    # one instance returns must not depend on which versions other instances of the process have decoded before;
    # the frozen decode of the corpus is the run-alone reference
    from . import corpus as K, C11
    idx, streams, decodes, _ = K.load()
    own = {}      # op line -> property oracle on the line's own result, whatever ran before it in the process
    legacy = [e for e in idx["entries"] if e["kind"] == "legacy" and e["size"] < 3000 and e.get("decode_status") == "ok"
              and not e["name"].startswith(("legacy/kdlegacy", "legacy/splitrich"))]
    rng.shuffle(legacy)
    for e in legacy[:14 if tier == "thorough" else 10]:
        l = "dec - " + streams[e["name"]].hex()
        base.append(l)

        def frozen(hout, case, want=decodes[e["name"]], name=e["name"]):
            if hout != want:
                return ("instance-result-depends-on-process-history",
                        f"decoding corpus stream {name} in a process that has decoded other streams gives `{hout[:120]}`, alone (frozen decode) `{want[:120]}`")
            return None
        own[l] = frozen
    # metadata encoders: valid trees with sub-metadata next to trees the encoder must refuse (over-long name, nesting
    # beyond the limit) — a refusal in one instance must leave the other instances alone
    for i in range(16 if tier == "thorough" else 8):
        if i % 4 == 3:
            node = C11.chain(1002) if rng.random() < 0.5 else C11.Node({}, {b"s": C11.Node({b"n" * 300: b"x"}, {})})
        else:
            node = C11.Node({b"a": b"1"}, {b"s%d" % i: C11.rand_node(rng, rng.choice([1, 2, 3]))})
        l = f"md {node.text()}"
        base.append(l)
        own[l] = C11.md_oracle(node, 0)
    rng.shuffle(base)
    cases = []
    seq = []
    for l in base:
        c = Case(l, model=False, flavour="plain", tags=("sequential_reference",) + (("own-oracle",) if l in own else ()))
        if l in own:
            c.oracle = own[l]
        seq.append(c)
        cases.append(c)
    rounds = 6 if tier == "thorough" else 2
    for r in range(rounds):
        for N in (2, 4, 8, 16):
            order = list(range(len(base)))
            rng.shuffle(order)
            for k in order:
                ref = seq[k]

                def oracle(hout, case, ref=ref, N=N):
                    if hout != ref.hout:
                        return ("concurrent-result-differs", f"with {N} threads `{case.op[:200]}` returned `{hout[:200]}`, alone it returns `{(ref.hout or '')[:200]}`")
                    return None
                c = Case(base[k], model=False, flavour="tsan", oracle=oracle, tags=(f"threads_{N}",))
                c.env = {"VH_THREADS": str(N)}
                c.group = r
                c.note = f"tsan-{N}-threads"
                cases.append(c)
    return cases


def replay_cases(lines):
    import json, os
    env = json.loads(os.environ.get("VERIF_REPLAY_ENV", "{}"))
    out = []
    refs = [Case(l, model=False, flavour="plain") for l in lines]
    out.extend(refs)
    if env:
        for ref in refs:
            def oracle(hout, case, ref=ref):
                if hout != ref.hout:
                    return ("concurrent-result-differs", f"`{case.op[:200]}` returned `{hout[:200]}`, alone `{(ref.hout or '')[:200]}`")
                return None
            c = Case(ref.op, model=False, flavour=os.environ.get("VERIF_REPLAY_FLAVOUR", "tsan"), oracle=oracle)
            c.env = env
            c.note = "replay-threads"
            out.append(c)
    return out
