"""C02 — decoding arbitrary bytes is memory-safe, UB-free and returns a Status."""
from . import robustgen as R

ID = "C02"
LEVEL = "proof"
LEAN_MODULES = ["DracoProps.C02", "DracoProps.C02Eb", "DracoProps.C02Kd"]
RULE = ("valid streams of every method (sequential, kd-tree, Edgebreaker standard / valence; real encoder on small "
        "generated geometries, random option sets, metadata) and the small .drc files of testdata (bitstream 1.1 .. 2.3); "
        "corruptions: truncations, per-offset byte patterns {00, ff, ^01, ^80, +1, -1}, 32-bit patterns {0, 1, 2^31-1, "
        "2^31, 2^32-1}, varint patterns (1..10 continuation bytes), header rewrites (version x type x method x flags), "
        "count-field substitutions (fixed 32-bit and re-encoded varint; boundary and wrap-around values), splices of two "
        "streams, random multi-site; quick: seeded slices of offsets, thorough: every offset of the small streams. Each "
        "stream goes through every decoding entry point under ASan+UBSan with the input in a read-only mapping between "
        "guard pages, a per-operation watchdog and an allocation cap; every call must return ok / error, leave the input "
        "unchanged, and a refused allocation must be an array sized by a declared element count. The Lean model decodes "
        "the same bytes: status (ok / error / unknown version) for every stream the model decides, consumed bytes and "
        "geometry for sequential streams; distinct op lines"
        '; plus structure-aware corruption of every located header / count / descriptor / section field of small '
        "base streams (layouts parsed in Python, Edgebreaker offsets from the model's trace tags), the tamper-"
        'hook campaign (harness ops tcount / tenc: the encoder re-run with exactly one semantic value replaced — '
        'traversal / valence symbols, seam / start-face bits, split-event fields; accept / reject compared with '
        'the Lean model), the corrupt-stream families of ebcases / kdcases / legacycases (accept / reject + '
        'geometry against the complete Lean decoder) and the regression streams of repaired findings (dcc9947, '
        'c9df685, 63027a3); the structure-aware bases include hand-built legacy 2.0-2.2 integer / float kd-tree '
        'streams (harness op legacykd; decoded by the Lean model too since DracoModel/KdTreeLegacy.lean), sequential / kd-tree point '
        'clouds spliced into one stream with 2..3 attributes decoders, and valence-traversal Edgebreaker streams '
        'whose six per-context symbol counts are located by the model tag at:valence_context_count'
        '; multi-decoder streams are walked decoder by decoder, Edgebreaker decoder heads are copied / swapped '
        '(eb_decoder_head_mutations), re-laid-out legacy meshes (props/meshlegacy.py) and last_corner_fan bases '
        'are part of the foreign / structured families; the per-op watchdog counts CPU time; hand-assembled '
        'geometry-metadata chains of 1, 999..1002 (thorough: ..2000) nested levels around kMaxSubmetadataLevel '
        '(status vs the Lean model) and one of 700000 levels (must be refused without exhausting the stack; the '
        'encoder never writes these, so only assembled streams reach the decoder there)')
THEOREM_BACKED = ('DracoProps.C02: decode_total; decode_returns_status (decodeGeometrySeq) and decode_returns_status_with '
                  '(dispatcher with arbitrary disciplined body decoders); decode_some_ok_valid; decode_consumes_prefix / '
                  'consumed_le_length; unknown_major_rejected / unknown_minor_rejected (version gate, any body decoders); '
                  'fuel sufficiency: metadata_nesting_fuel_sufficient, symbol_table_fuel_sufficient, '
                  'le_groups_fuel_sufficient, delta_decode_fuel_sufficient. DracoProps.C02Eb: eb_disciplined (Edgebreaker '
                  'body, every input and version), decode_returns_status_eb, decode_seq_eb_some_ok_valid, '
                  'depth_first_fuel_sufficient / max_prediction_degree_fuel_sufficient (the fuel exits of both traversers '
                  'are unreachable). DracoProps.C02Kd: kd_disciplined (kd-tree body of every bitstream version incl. the '
                  'legacy integer / float methods), decode_returns_status_all (status discipline of the COMPLETE decoder '
                  'decodeGeometry, no hypothesis left), decode_some_ok_valid_all. Purity of the complete decoder: '
                  'C18Eb.decode_consumes_prefix, C18Kd.kd_legacy_consumes_prefix')
CORRESPONDENCE_ONLY = ('memory safety, absence of undefined behaviour and termination of the compiled C++ are observed '
                       '(ASan+UBSan, guard pages, watchdog) on the generated corruption campaign, not proved; not proved on the '
                       'model either: fuel adequacy of the loops that swing around a vertex (needs an invariant of the '
                       'connectivity symbol loop; a fuel: / ub: outcome of the model is reported as a finding candidate, none '
                       'observed — also not in an exhaustive enumeration of 24.7 M small connectivity streams)')
EXPLANATION = ('partial: Lean definitions are total and memory safe by construction, so the theorems state the logic '
               'that remains (status discipline of the complete decoder — sequential, kd-tree of every version, '
               'Edgebreaker —, version gate, purity, fuel sufficiency); the property itself is checked on the '
               'implementation by sanitizers over the campaign; the Lean decoder model (all methods, all bitstream '
               'versions) is compared on the streams it decides')
ASSUMPTIONS = ["memory safety / UB-freedom of the C++ is established by observation under ASan+UBSan on the explored inputs only"]
TRUSTED_EXTRA = ["harness/robust_main.cc (watchdog, allocation cap), harness/ops_robust.cc (guard-page mappings, entry point drivers)"]
TIMEOUT = 3000
ORACLES = [R.oracle_status, R.oracle_valid]
FLAVOUR = "asan"


def generate(rng, tier):
    thorough = tier == "thorough"
    streams = R.base_streams(rng, 150 if thorough else 60, legacy_max=3000)
    if streams is None:
        return R.build_error_case()
    cases = R.regression_cases(FLAVOUR, ORACLES, kd=False) + R.selftest_cases(FLAVOUR)
    for s in streams:
        cases.append(R.make_case(s.data, "01234", FLAVOUR, ORACLES, ("valid", s.cls)))
    small = [s for s in streams if len(s.data) <= 400]
    if thorough:
        by_len = sorted(streams, key=lambda s: len(s.data))
        plan = [(s, "full") for s in by_len[:10]] + [(s, "dense") for s in streams]
        plan += [(s, "counts") for s in rng.sample(small, min(len(small), 12))]
    else:
        dense = rng.sample(streams, min(len(streams), 14))
        plan = [(s, "light") for s in streams] + [(s, "dense") for s in dense]
        plan += [(s, "counts") for s in rng.sample(small, min(len(small), 2))]
    for s, prof in plan:
        for tag, data in R.mutations(rng, s, streams, prof):
            cases.append(R.make_case(data, "01234", FLAVOUR, ORACLES, (tag, "mut:" + s.cls), base=s.data))
    # structure-aware corruption of every located small-integer field; tamper-hook streams (semantic corruption)
    cases += R.structured_cases(rng, tier, FLAVOUR, ORACLES, n_each=8 if thorough else 5)
    cases += R.tamper_cases(rng, tier, FLAVOUR, ORACLES, budget=None if thorough else 6000)
    cases += R.foreign_corrupt_cases(rng, tier, FLAVOUR)
    # hand-assembled metadata chains across kMaxSubmetadataLevel and far beyond it (seeded C02-8)
    cases += R.metadata_chain_cases(streams, tier, FLAVOUR, ORACLES)
    return cases


def replay_cases(lines):
    return R.replay_cases(lines, ORACLES, FLAVOUR)
