"""C03 — a successfully decoded geometry is structurally valid."""
from . import robustgen as R

ID = "C03"
LEVEL = "proof"
LEAN_MODULES = ["DracoProps.C03", "DracoProps.C03Kd", "DracoProps.C03Eb"]
RULE = ("valid streams from the real encoder (random meshes of every topology family of props/geomgen.py, grids with "
        "holes / pinched vertices, grids whose integer attributes have seams along different lines, point clouds; "
        "sequential, kd-tree, Edgebreaker standard / valence; random option sets, metadata) and the small .drc files of "
        "testdata (bitstream 1.1 .. 2.3), each decoded by every entry point (DecodeMeshFromBuffer / "
        "DecodePointCloudFromBuffer, DecodeBufferToGeometry to Mesh and to PointCloud, with SetSkipAttributeTransform on a "
        "random subset or all attribute types, DecodePointCloudFromBuffer on mesh streams, KeyframeAnimationDecoder) under "
        "ASan+UBSan; plus truncations, byte / 32-bit / varint patterns, header rewrites, count-field substitutions, splices "
        "and multi-site corruptions of those streams (what matters are the corrupted streams that are still accepted). "
        "Every geometry returned with an ok status is tested explicitly (face index < num_points, mapped_index < size, "
        "identity-mapped size >= num_points, buffer >= size * stride, stride >= components * type length) and then read "
        "completely through face(), mapped_index(), GetValue(), GetAddress(), GetMappedValue(); for sequential streams the "
        "Lean model decodes the same bytes (status, consumed bytes, geometry must agree; model geometry re-checked with "
        "Geometry.valid); distinct op lines"
        '; plus structure-aware corruption of every located field of small base streams, the tamper-hook campaign'
        ' (the encoder re-run with exactly one semantic value replaced; every produced stream is an ordinary '
        'case) and the regression streams of repaired findings (dcc9947, c9df685, 63027a3); the structure-aware '
        'bases include hand-built legacy 2.0-2.2 integer / float kd-tree streams (harness op legacykd; '
        'compared with the Lean model), point clouds spliced into one stream with 2..3 attributes decoders (validity cases '
        'and bases for header / count corruption) and valence-traversal streams with located context counts'
        '; multi-decoder streams are walked decoder by decoder, Edgebreaker decoder heads are copied / swapped '
        '(eb_decoder_head_mutations), re-laid-out legacy meshes (props/meshlegacy.py) and last_corner_fan bases '
        'are part of the foreign / structured families; the per-op watchdog counts CPU time')
THEOREM_BACKED = ("DracoProps.C03: decode_ok_valid: decodeGeometrySeq opts s = (some r, s') -> r.geometry.valid = true for "
                  'every byte string and option set (sequential point cloud + mesh decoders of every bitstream version); '
                  'decode_seq_stream_ok_valid; decode_ok_valid_with; decode_all_ok_valid_partial; '
                  'valid_accessors_in_bounds; kd-tree body, every version: Kd.decodeKdGeometry_valid '
                  '(C01Kd.kdtree_decoded_geometry_valid). DracoProps.C03Kd: kdtree_decoded_geometry_valid_legacy (kd-tree '
                  'streams 1.0 .. 2.2, integer and float method, every byte string; rests on the point-count checks of '
                  '0596d06 / d17d15d / c9df685 / 63027a3). DracoProps.C03Eb: eb_decode_ok_atts_valid (every attribute of an'
                  ' accepted Edgebreaker stream is valid, every input and version), eb_decode_ok_valid (geometry valid '
                  'whenever it has an attribute), eb_decode_ok_valid_of_faces (attribute-less mesh: face bound as '
                  'hypothesis), decode_all_ok_valid / decode_all_ok_accessors (the COMPLETE decoder decodeGeometry, every '
                  'method and version, no hypothesis on the stream: every attribute valid; valid and every accessor read in'
                  ' bounds whenever there is an attribute); source_dataTypeLength_is_model (DataTypeLength as compiled = '
                  'model for the valid data types)')
CORRESPONDENCE_ONLY = ('face index < num_points for an Edgebreaker mesh with ZERO attribute decoders (never produced by the '
                       'encoder, accepted by the decoder) is not proved — it is the hypothesis of eb_decode_ok_valid_of_faces '
                       '(evidence: 24.7 M exhaustively enumerated + 24 M random synthesized connectivity streams on the real '
                       'decoder, none invalid); there, and for streams the model reports as unsupported, validity is evaluated '
                       "on the implementation's returned geometry only (explicit test + sanitized accessor walk)")
EXPLANATION = ('proof on the decoder model for every body decoder (sequential: full; kd-tree of every bitstream version:'
               ' full; Edgebreaker: every attribute, and the faces whenever an attribute decoder ran its point-mapping '
               'check); the model is tied to the C++ by decoding the same (valid and corrupted) streams; the property '
               'itself is tested on every geometry the real decoder returns')
TRUSTED_EXTRA = ["harness/ops_robust.cc validity(): the explicit structural test applied to the returned PointCloud / Mesh"]
TIMEOUT = 3000
ORACLES = [R.oracle_valid, R.oracle_status]
FLAVOUR = "asan"


def generate(rng, tier):
    thorough = tier == "thorough"
    streams = R.base_streams(rng, 4500 if thorough else 1600, max_len=30000, legacy_max=200000 if thorough else 3000, small=False)
    if streams is None:
        return R.build_error_case()
    cases = R.regression_cases(FLAVOUR, ORACLES, kd=False) + R.selftest_cases(FLAVOUR)
    for s in streams:
        present = "".join(str(t) for t in s.present)
        skip = "01234" if rng.random() < 0.5 else ("".join(c for c in present if rng.random() < 0.6) or present[:1] or "0")
        cases.append(R.make_case(s.data, skip, FLAVOUR, ORACLES, ("valid", s.cls, "fam:" + s.family)))
    pool = [s for s in streams if len(s.data) <= 2600]
    muts = rng.sample(pool, min(len(pool), 500 if thorough else 70))
    for s in muts:
        for tag, data in R.mutations(rng, s, pool, "dense" if thorough and len(s.data) < 300 else "light"):
            cases.append(R.make_case(data, "01234", FLAVOUR, ORACLES, (tag, "mut:" + s.cls), base=s.data))
    # structure-aware corruption of every located small-integer field; tamper-hook streams (semantic corruption)
    cases += R.structured_cases(rng, tier, FLAVOUR, ORACLES, n_each=8 if thorough else 5)
    cases += R.tamper_cases(rng, tier, FLAVOUR, ORACLES, budget=None if thorough else 6000)
    # accepted geometry carrying an assembled metadata chain up to the nesting limit (and the rejected ones past it)
    cases += [c for c in R.metadata_chain_cases(streams, tier, FLAVOUR, ORACLES) if "mdchain:deep" not in c.tags]
    return cases


def replay_cases(lines):
    return R.replay_cases(lines, ORACLES, FLAVOUR)
