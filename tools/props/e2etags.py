"""Evidence tags for end-to-end cases: which member of every option family of the C01 quantifier a case
exercises (API, method, Edgebreaker sub-method, encoder / decoder speed, quantization bits, forced prediction
scheme, built-in entropy coding, split-on-seams, data types x component counts, topological features) and, after
the run, what the encoder actually produced (stream class) and how far the model followed."""
from . import e2e, geomgen as G, topo2

DTN = {v: k for k, v in G.DT.items()}
ATN = {0: "position", 1: "normal", 2: "color", 3: "texcoord", 4: "generic"}
PSN = {-2: "undefined(auto)", -1: "none", 0: "difference", 1: "parallelogram", 2: "multi_parallelogram(deprecated)",
       3: "texcoords_deprecated", 4: "constrained_multi_parallelogram", 5: "texcoords_portable", 6: "geometric_normal"}


def qbucket(b):
    return "1" if b == 1 else "2-7" if b < 8 else "8-15" if b < 16 else "16-23" if b < 24 else "24-29" if b < 30 else "30"


def option_tags(geom, toks, info):
    t = ["api:expert" if info.get("expert") else "api:encoder"]
    o = {}
    for k in toks:
        if "=" in k:
            a, b = k.split("=", 1)
            o[a] = b
    kind = "mesh" if geom.is_mesh else "pc"
    m = o.get("method")
    t.append(f"method:{kind}:" + ("auto" if m is None else {"0": "sequential", "1": "edgebreaker" if geom.is_mesh else "kd-tree"}.get(m, m)))
    if "submethod" in o:
        t.append("eb-submethod:" + {"0": "standard", "1": "predictive", "2": "valence"}.get(o["submethod"], o["submethod"]))
    if "speed" in o:
        es, ds = o["speed"].split(",")
        t += [f"enc-speed:{int(es):02d}", f"dec-speed:{int(ds):02d}"]
    else:
        t.append("speed:default")
    for k, v in o.items():
        if k[0] == "q" and k[1:].isdigit():
            t.append("quant-bits:" + qbucket(int(v)))
        elif k[0] == "x" and k[1:].isdigit():
            t.append("quant-bits:" + qbucket(int(v.split(",")[0])))
            t.append("quant:explicit-box")
        elif k[0] == "p" and k[1:].isdigit():
            t.append("pred-scheme:" + PSN.get(int(v), v))
    if not any(k[0] in "qx" and k[1:].isdigit() for k in o):
        t.append("quant:none")
    if "builtin" in o:
        t.append("builtin-entropy:" + ("on" if o["builtin"] == "1" else "off"))
    if "g:split_mesh_on_seams" in o:
        t.append("split-on-seams:" + o["g:split_mesh_on_seams"])
    if "g:compress_connectivity" in o:
        t.append("seq-compress-connectivity:" + o["g:compress_connectivity"])
    if "g:symbol_encoding_method" in o:
        t.append("symbol-coding:" + {"0": "tagged", "1": "raw"}.get(o["g:symbol_encoding_method"], "?"))
    if "track" in o:
        t.append("track-encoded-properties")
    if o.get("skip"):
        t.append("skip-set:" + o["skip"])
    for a in geom.atts:
        t.append(f"att:{ATN.get(a.att_type, a.att_type)}:{DTN.get(a.dtype, a.dtype)}x{a.ncomp if a.ncomp < 5 else '5+'}")
        if a.normalized:
            t.append("att:normalized")
        if a.map is not None:
            t.append("att:explicit-map")
    t.append(f"num-attributes:{len(geom.atts)}")
    n = geom.num_points
    t.append("points:" + ("0" if n == 0 else "1-9" if n < 10 else "10-99" if n < 100 else "100-999" if n < 1000 else "1000+"))
    t += topo2.features(geom)
    return sorted(set(t))


def result_tag(case):
    """one tag per case computed after the run: what the encoder produced and how far the model followed"""
    def f(mout):
        h = case.hout or ""
        if not h.startswith("ok "):
            return "encoder-result:" + (h.split()[0] if h else "none")
        hx = h.split()[1]
        is_mesh = " -- mesh " in case.op
        cls = e2e.stream_class(hx, is_mesh)
        return f"stream:{'mesh' if is_mesh else 'pc'}:{cls}:" + e2e.model_support_tag(mout)
    return f
