"""Development runner for the legacy (1.0 … 2.1) mesh streams re-laid out from 2.2 streams (slice eb follow-up 4):
props/meshlegacy.py through the engine.  `python3 tools/check.py --property MLEGDEV --tier quick|thorough`."""
from vlib.engine import Case
from . import meshlegacy

ID = "MLEGDEV"
LEVEL = "proof"
LEAN_MODULES = []
RULE = ("props/meshlegacy.py: 2.2 Edgebreaker (standard traversal) and sequential mesh streams of the real encoder re-laid "
        "out for every older bitstream version, their skip decodes and corruptions; generator self check (accepted, same "
        "geometry as the 2.2 original), then `dec` on the implementation vs the Lean decoder model token for token")
TIMEOUT = 3000


def generate(rng, tier):
    return meshlegacy.cases(rng, tier)


def replay_cases(lines):
    return [Case(l, model=False) for l in lines]
