"""C06 — encoding and decoding are deterministic functions of their inputs."""
import json
import os
import struct

from vlib.engine import Case
from . import corpus as K
from . import e2e, geomgen as G
from . import topo2

ID = "C06"
LEVEL = "proof"
LEAN_MODULES = ["DracoProps.C06"]
RULE = ("generated geometries x option sets (both APIs, all methods) with a HISTORY of 0..3 other (options, geometry) "
        "jobs; harness op `det`: reference = fresh encoder object that received every setter call of history + main "
        "job but made no earlier encode, fresh EncoderBuffer; compared byte for byte with (a) k repeats on fresh "
        "objects, (b) a reused Encoder / ExpertEncoder that encoded the history first — with a fresh EncoderBuffer per "
        "call, one EncoderBuffer + Clear(), one EncoderBuffer appended to; decode of the bytes: k repeats, reused "
        "Decoder object after decoding the history streams, reused DecoderBuffer object, all streams back to back in "
        "ONE DecoderBuffer (read position must land on the next stream), 0..64 (and 100 / 1024) trailing bytes of "
        "zeros / 0xff / random (result, consumed bytes and remaining_size() must not change), consumed == stream "
        "length; a history of the caller's own use of the reused EncoderBuffer through its public API (scalars, blocks, "
        "bit sequences with / without stored size, Resize, Clear: token bufhist); mesh pool includes tori, genus-2 "
        "surfaces, holed tori, grid patches (topology split events); targeted families: speed-derived method with "
        "speed crossing 10, very sparse huge rANS alphabets at the end of the stream, kd-tree with far-from-zero signed "
        "attributes last, meshes whose first attribute is NOT POSITION under Edgebreaker single-connectivity mode "
        "(speed >= 6 / split_mesh_on_seams), Edgebreaker on handle-rich topologies into application-used buffers; corpus streams (legacy writers) through op `det_dec`. Cross-process: the "
        "same op file in separate processes under ASLR on/off, MALLOC_PERTURB_ 0/165/255, MALLOC_ARENA_MAX=1, "
        "MALLOC_MMAP_THRESHOLD_ 4096 / 1 GiB, two pre-fragmented dirty heaps: every output line must be identical; "
        "thorough: a subset under valgrind memcheck (undefined-value errors end the run); non-trivial = distinct op line"
        '; Encoder::Reset() before the main job (token reset=1)')
THEOREM_BACKED = ('decode_is_a_function (trivial); expert_encoder_state_irrelevant / encoder_state_irrelevant / '
                  'expert_reused_eq_fresh / encoder_reused_eq_fresh / decoder_state_irrelevant (API objects as state '
                  'machines: the output of call n is a function of the setter calls and the geometry / bytes only); '
                  'encoder_counts_after_success / encoder_counts_history_independent / expert_counts_after_success (the '
                  'counters after a successful encode, repaired Encoder of /repo 85f04a5; '
                  'prefix_encoder_counts_depend_on_history = witness for the code before that fix); cited from C01: '
                  'seq_encoder_scheme_is_function_of_options / encodeGeometry_ignores_selectPrediction (the sequential '
                  'encoder model derives the prediction scheme from geometry + resolved options alone) and the option-store'
                  ' laws; encoded_stream_trailing_bytes_ignored_seq / _kd, encoded_stream_two_tails_seq / _kd '
                  '(encoder-produced streams: result independent of appended bytes, consumed = stream length; corollaries '
                  'of C01); for arbitrary accepted byte strings trailing_bytes_stable_header / _att_descs / _raw_symbols / '
                  '_tagged_symbols_inside, bit_read_inside_stable, and where it ends: remaining_is_not_stable, '
                  'bit_read_past_end_not_stable')
CORRESPONDENCE_ONLY = ("runtime determinism (uninitialised memory, container order, heap layout) is OBSERVED by "
                       "perturbation, not proved: the property is labelled partial")
EXPLANATION = ("the logic part is small: decoding is a function by construction of the model; the API state machine "
               "abstracts `encode` as a function of (options map, geometry) that writes only result fields — that the "
               "C++ objects behave like this abstraction is what the harness op checks on every case")
ASSUMPTIONS = ["glibc malloc honours MALLOC_PERTURB_/MALLOC_ARENA_MAX/MALLOC_MMAP_THRESHOLD_; personality(ADDR_NO_RANDOMIZE) "
               "permitted (the op det_env reports the effective state, recorded in input_distribution)"]
TIMEOUT = 3000
# The encoder objects also expose num_encoded_points()/num_encoded_faces(). Before /repo 85f04a5
# Encoder::EncodePointCloudToBuffer never updated them (found by the flag `rcounts` of this check: stale values of an
# earlier mesh encode, see notes/c0506.md); since that fix they are a function of setters + geometry after every
# successful encode (Lean: encoder_counts_history_independent) and `rcounts` — fresh repeats and the reused object in
# all three buffer disciplines against the reference — is part of the oracle. What the counts must BE is C09's matter.
COUNTS_ARE_OUTPUT = True

ENVS = [
    ("aslr-off", {"VH_NO_ASLR": "1"}),
    ("perturb-0", {"MALLOC_PERTURB_": "0"}),
    ("perturb-165", {"MALLOC_PERTURB_": "165"}),
    ("perturb-255", {"MALLOC_PERTURB_": "255"}),
    ("arena-1", {"MALLOC_ARENA_MAX": "1", "MALLOC_PERTURB_": "90"}),
    ("mmap-4096", {"MALLOC_MMAP_THRESHOLD_": "4096"}),
    ("mmap-1g", {"MALLOC_MMAP_THRESHOLD_": "1073741824", "MALLOC_TOP_PAD_": "0", "MALLOC_PERTURB_": "33"}),
    ("frag-a", {"VH_HEAP_FRAG": "11"}),
    ("frag-b", {"VH_HEAP_FRAG": "977", "MALLOC_PERTURB_": "201", "VH_NO_ASLR": "1"}),
]


# ----------------------------------------------------------------------------------------- generators

def det_options(rng, geom, expert=None):
    """option tokens for the `det` op; biased towards option-derived decisions (speed 10 vs < 10, no method)"""
    toks, info = e2e.rand_options(rng, geom, allow_expert=True if expert is None else expert, explicit=0.15)
    if expert is True and "expert=1" not in toks:
        return det_options(rng, geom, expert)
    if expert is False and "expert=1" in toks:
        toks = [t for t in toks if t != "expert=1"]
    # forced raw symbol coding of wide integers makes the encoder build histograms of gigabytes before it reports
    # failure (seconds per encode; out of memory under MALLOC_PERTURB_): not what this property is about.
    # (> 20-bit quantization used to be capped here for the same reason; that was the genuine defect repaired by
    # /repo 4ac05fd, so the full 1..30 range is generated again.)
    toks = [t for t in toks if not t.startswith("g:symbol_encoding_method")]
    if rng.random() < 0.45:
        toks = [t for t in toks if not t.startswith("method=")]
    if rng.random() < 0.5:
        toks = [t for t in toks if not t.startswith("speed=")]
        toks.append(f"speed={rng.choice([10, 10, 0, 3, 5, 9])},{rng.choice([10, 0, 5, 9])}")
    return toks


def trail_spec(rng):
    items = []
    for _ in range(3):
        n = rng.randint(0, 64)
        items.append(f"{n}:{rng.choice([0, 1, rng.randrange(2, 1 << 30)])}")
    if rng.random() < 0.5:
        items.append(f"{rng.choice([100, 1024])}:{rng.choice([0, 1, rng.randrange(2, 1 << 30)])}")
    return "trail=" + ",".join(items)


def sparse_alphabet_cloud(rng):
    """sequential point cloud whose only attribute is coded with a huge, almost empty rANS alphabet"""
    n = rng.choice([2500, 3000, 4000])
    V = rng.randint(120000, 131071) * rng.choice([1, 1, -1])
    vals = [V] * n
    for _ in range(rng.choice([1, 1, 2])):
        vals[rng.randrange(n)] = rng.choice([0, 1, -1])
    a = G.Attr(G.GENERIC, G.DT["i32"], 1, False, 0, n, None, b"".join(struct.pack("<i", v) for v in vals))
    return G.Geom(False, n, [], [a])


def mesh_on(rng, fam, nv, faces, specs=None):
    """geomgen.rand_mesh (attribute layouts, seams, point de-duplication) on a GIVEN topology"""
    orig = G.rand_topology
    G.rand_topology = lambda r, size: (fam, nv, list(faces))
    try:
        return G.rand_mesh(rng, 0, specs=specs)
    finally:
        G.rand_topology = orig


def handle_mesh(rng, specs=None):
    """tori, genus-2 surfaces, tori with holes, patches cut out of grids (topology split events), fans"""
    fam, nv, faces = topo2.rand_topology2(rng)
    return mesh_on(rng, "topo2_" + fam, nv, faces, specs)


def position_later_specs(rng):
    """attribute specs whose POSITION attribute is NOT attribute 0"""
    specs = [sp for sp in G.rand_att_specs(rng, max_atts=4)]
    pos = specs[0]
    rest = specs[1:]
    if not rest:
        t, dts, ncs, nz = rng.choice(G.ATT_CHOICES[1:])
        rest = [(t, G.DT[rng.choice(dts)], rng.choice(ncs), False, pos[4] + 1)]
    k = rng.randint(1, len(rest))
    return rest[:k] + [pos] + rest[k:]


def rand_geom(rng, sizes_pc=(3, 10, 40, 150), sizes_mesh=(3, 8, 20, 60)):
    if rng.random() < 0.55:
        if rng.random() < 0.3:
            return handle_mesh(rng)
        return G.rand_mesh(rng, rng.choice(sizes_mesh))
    return G.rand_point_cloud(rng, rng.choice(sizes_pc))


def det_line(rng, family):
    """-> (op line, tags)"""
    reps = rng.choice([1, 2, 3])
    if family == "sparse":
        g = sparse_alphabet_cloud(rng)
        expert = rng.random() < 0.6
        toks = (["expert=1"] if expert else []) + ["method=0", f"p{0 if expert else G.GENERIC}=-2"]
        if expert and rng.random() < 0.6:
            toks.append("g:symbol_encoding_method=1")
        if rng.random() < 0.5:
            toks.append(f"speed={rng.randint(0, 10)},{rng.randint(0, 10)}")
        hist = []
        if rng.random() < 0.5:
            gh = G.rand_point_cloud(rng, 10) if not expert else g
            hist.append((det_options(rng, gh, expert=expert), gh))
        toks += [f"reps={reps}", "trail=" + ",".join([f"{rng.randint(0, 64)}:{rng.randrange(2, 1 << 30)}", "64:0", "100:1", "1024:" + str(rng.randrange(1 << 30))])]
        tags = ("det", "family:sparse-alphabet", "expert" if expert else "encoder")
    else:
        big = rng.random() < 0.08
        g = rand_geom(rng, sizes_pc=(800, 2500), sizes_mesh=(250, 600)) if big else rand_geom(rng)
        while g.num_points == 0:
            g = rand_geom(rng)
        if family == "poslater":
            # meshes whose first attribute is not POSITION (loaders and the other generators always put it first)
            specs = position_later_specs(rng)
            g = None
            while g is None or g.num_points == 0 or not g.faces:
                g = handle_mesh(rng, specs) if rng.random() < 0.3 else G.rand_mesh(rng, rng.choice([8, 20, 60]), specs=specs)
        if family == "ebtopo":
            g = None
            while g is None or g.num_points == 0 or not g.faces:
                g = handle_mesh(rng)
        if family == "kd":
            specs = [(G.POSITION, G.DT["f32"], 3, False, 0)] + ([(G.COLOR, G.DT["u8"], 3, True, 1)] if rng.random() < 0.5 else [])
            g = G.rand_point_cloud(rng, rng.choice([1, 5, 64, 65, 200]), specs=specs, dedup_maps=False)
            while g.num_points == 0:
                g = G.rand_point_cloud(rng, 20, specs=specs, dedup_maps=False)
            if rng.random() < 0.6:
                # last attribute: signed integers far from zero — the kd-tree attribute coder stores the per-component
                # minimum as a (then 4..5 byte) zig-zag varint at the very END of the stream
                dt, lim = rng.choice([("i32", 31), ("i32", 31), ("i16", 15), ("i8", 7)])
                nc = rng.choice([1, 1, 2, 3])
                base = [rng.choice([-1, 1]) * rng.choice([(1 << (lim - 4)) + rng.randrange(1 << (lim - 4)), (1 << lim) - 1 - rng.randrange(40),
                                                          (1 << (lim - 1)) + rng.randrange(1000 if lim > 10 else 20)])
                        for _ in range(nc)]
                lo, hi = -(1 << lim), (1 << lim) - 1
                rows = []
                for _ in range(g.num_points):
                    rows.append([max(lo, min(hi, b + (rng.randrange(30) if b < 0 else -rng.randrange(30)))) for b in base])
                fmt = "<" + G.DT_FMT[G.DT[dt]] * nc
                vals = b"".join(struct.pack(fmt, *r) for r in rows)
                g.atts.append(G.Attr(G.GENERIC, G.DT[dt], nc, False, 7, g.num_points, None, vals))
        expert = rng.random() < 0.5
        toks = det_options(rng, g, expert=expert)
        if family == "kd":
            toks = [t for t in toks if not t.startswith(("method=", "q", "x", "p"))] + ["method=1", f"q0={rng.choice([8, 11, 14])}"]
        if family in ("poslater", "ebtopo"):
            # Edgebreaker; poslater: single-connectivity mode (speed >= 6, or split_mesh_on_seams=1 below that)
            toks = [t for t in toks if not t.startswith(("method=", "speed=", "g:split_mesh_on_seams"))]
            if family == "poslater":
                es = rng.choice([6, 7, 8, 9, 10]) if (not expert or rng.random() < 0.7) else rng.randint(0, 5)
                if es < 6:
                    toks.append("g:split_mesh_on_seams=1")
            else:
                es = rng.randint(0, 10)
            toks += ["method=1", f"speed={es},{rng.randint(0, 10)}"]
        if family == "speedmethod":
            toks = [t for t in toks if not t.startswith(("method=", "speed="))]
            main_speed = rng.choice([10, rng.randint(0, 9)])
            toks.append(f"speed={main_speed},{rng.randint(0, 10)}")
        nh = rng.choice([0, 1, 1, 2, 3])
        if family == "speedmethod":
            nh = max(1, nh)
        hist = []
        for k in range(nh):
            gh = g if expert else rand_geom(rng, sizes_pc=(3, 10, 40), sizes_mesh=(3, 8, 20))
            if gh.num_points == 0:
                continue
            th = det_options(rng, gh, expert=expert)
            if family == "speedmethod":
                th = [t for t in th if not t.startswith(("method=", "speed="))]
                other = rng.randint(0, 9) if main_speed == 10 else 10
                th.append(f"speed={other if k == 0 or rng.random() < 0.5 else rng.randint(0, 10)},{rng.randint(0, 10)}")
            hist.append((th, gh))
        toks += [f"reps={reps}", trail_spec(rng)]
        if family == "ebtopo" or rng.random() < 0.5:
            toks.append(f"bufhist={rng.randrange(1, 1 << 30)}")
        tags = ("det", "family:" + family, "expert" if expert else "encoder", "mesh" if g.is_mesh else "pc", f"history:{len(hist)}")
        if not expert and hist and rng.random() < 0.35:
            # the reused Encoder calls Reset() before the main job: it must then behave like a fresh Encoder that
            # received the main job's setters only
            toks.append("reset=1")
            tags += ("reset-before-main",)
    line = "det " + " ".join(toks) + " -- " + g.to_text()
    for th, gh in hist:
        # an ExpertEncoder is bound to one geometry: its history is a sequence of option changes
        line += " -- " + " ".join(t for t in th if not t.startswith(("reps=", "trail=", "bufhist="))) + " -- " + \
                (gh.to_text() if "expert=1" not in toks else "pc 1 0 - 0")
    return line, tags


def det_oracle(hout, case):
    parts = hout.split(" | ")
    if len(parts) != 4:
        return ("det-malformed", f"`{case.op[:200]}` -> {hout[:200]}")
    enc, dec, ef, df = parts
    flags = dict(t.split("=", 1) for t in (ef.split()[1:] + df.split()[1:]) if "=" in t)
    what = {"fresh": "two executions on fresh objects differ", "renc": "a reused encoder object with a history of encode calls differs from a fresh one with the same options",
            "rbufclear": "encoding into a reused EncoderBuffer after Clear() differs", "rbufappend": "encoding appended to a non-empty EncoderBuffer differs",
            "rdec": "a reused Decoder object decodes differently", "rbuf": "a reused DecoderBuffer object decodes differently",
            "concat": "decoding from a DecoderBuffer positioned behind an earlier stream differs (or does not end at the stream end)",
            "trail": "bytes after the end of the stream change the decode result / the consumed size"}
    for i, grp in enumerate((ef, df)):
        for t in grp.split()[1:]:
            if "=" not in t:
                continue
            k, v = t.split("=", 1)
            if k == "rcounts":
                if v != "1" and COUNTS_ARE_OUTPUT:
                    return ("encoded-counts-depend-on-history",
                            f"num_encoded_points()/num_encoded_faces() after the call (reference/reused = {v[2:]}) depend on "
                            f"earlier calls on the same Encoder object for `{case.op[:300]}`")
                continue
            if v not in ("1", "-"):
                return (f"nondeterministic:{'encode' if i == 0 else 'decode'}-{k}",
                        f"{what.get(k, k)}: {k}={v} for `{case.op[:300]}`")
    if enc.startswith("ok "):
        n = len(enc.split()[1]) // 2
        d = dec.split()
        if d and d[0] == "ok" and int(d[1]) != n:
            return ("decode-consumed", f"decode consumed {d[1]} bytes of the {n}-byte stream produced by the encoder for `{case.op[:300]}`")
    return None


def detdec_oracle(hout, case):
    parts = hout.split(" | ")
    if len(parts) != 2:
        return ("det-malformed", f"`{case.op[:200]}` -> {hout[:200]}")
    for t in parts[1].split()[1:]:
        k, v = t.split("=", 1)
        if v not in ("1", "-"):
            return (f"nondeterministic:decode-{k}", f"{k}={v} for corpus stream {case.note} (`{case.op[:120]}`)")
    return None


def env_oracle(base, label):
    def f(hout, case):
        if base.hout is None or base.hout.startswith("CRASH"):
            return None
        if hout != base.hout:
            return (f"cross-process-nondeterminism:{label}",
                    f"under {label} ({json.dumps(case.env)}) the line `{case.op[:200]}` gives a different output — "
                    f"{first_diff(base.hout, hout)}")
        return None
    return f


def first_diff(a, b):
    ta, tb = a.split(), b.split()
    for i in range(max(len(ta), len(tb))):
        x = ta[i] if i < len(ta) else "<end>"
        y = tb[i] if i < len(tb) else "<end>"
        if x != y:
            j = next((j for j in range(min(len(x), len(y))) if x[j] != y[j]), min(len(x), len(y)))
            return f"token {i} char {j}: `{x[max(0, j - 8):j + 16]}` vs `{y[max(0, j - 8):j + 16]}`"
    return "no difference"


def base_cases(rng, tier):
    cases = []
    n = 1800 if tier == "thorough" else 600
    fams = ["general"] * 4 + ["speedmethod"] * 2 + ["kd"] * 2 + ["sparse"] + ["poslater"] * 2 + ["ebtopo"] * 2
    for i in range(n):
        fam = fams[i % len(fams)]
        line, tags = det_line(rng, fam)
        c = Case(line, model=False, oracle=det_oracle, tags=tags)

        def obs(mout, c=c):
            return "observation:stale-encoded-counts" if " rcounts=0" in (c.hout or "") else "observation:encoded-counts-consistent"
        c.mtag = obs
        cases.append(c)
    # corpus streams (legacy writers included): decode determinism, reused objects, trailing bytes
    idx, streams, decodes, inputs = K.load()
    small = [e for e in idx["entries"] if e["size"] <= 12000]
    legacy = [e for e in small if e["kind"] == "legacy"]
    pick = legacy + rng.sample([e for e in small if e["kind"] == "frozen"], 150 if tier == "thorough" else 40)
    for e in pick:
        hist = []
        for x in rng.sample(small, rng.choice([0, 1, 2, 3])):
            hb = streams[x["name"]]
            r = rng.random()
            if r < 0.15:
                hb = hb[:rng.randint(1, 10)]                 # history call that fails inside the header
            elif r < 0.3:
                hb = K.rewrite_version(hb, 9, 9)            # history call that fails at the version gate
            hist.append(hb.hex())
        skip = "".join(str(t) for t in range(5) if rng.random() < 0.3)
        line = f"det_dec reps=2 {trail_spec(rng)}" + (f" skip={skip}" if skip else "") + " " + streams[e["name"]].hex() + \
               ("" if not hist else " " + " ".join(hist))
        cases.append(Case(line, model=False, oracle=detdec_oracle, tags=("det_dec", e["kind"], "class:" + e["class"]), note=e["name"]))
    return cases


class SanCase(Case):
    """a case of the ASan+UBSan subset: a sanitizer abort gets a signature that names the source location, so that
    a defect of the encoder that is not a determinism matter can be listed as a known finding without masking others"""

    @property
    def sig_override(self):
        import re
        m = re.search(r"src/draco/([\w/.]+:\d+)", self.hout or "")
        return ("sanitizer:" + m.group(1)) if m else None


def with_envs(base, envs, control_ref, flavour="plain"):
    out = []
    for label, env in envs:
        probe = Case("det_env", model=False, tags=("env:" + label,), nontrivial=False)
        probe.env = dict(env)

        def tag(mout, probe=probe, label=label):
            return f"env-effective:{label}:" + (probe.hout or "?").replace(" ", ",")[:80]
        probe.mtag = tag
        out.append(probe)
        ctl = Case("det_control", model=False, tags=(), nontrivial=False)
        ctl.env = dict(env)

        def ctag(mout, ctl=ctl, label=label, ref=control_ref):
            same = ref.hout is not None and ctl.hout == ref.hout
            return f"control:{label}:" + ("NOT-distinguished-from-default-process" if same else "distinguished")
        ctl.mtag = ctag
        out.append(ctl)
        for b in base:
            c = Case(b.op, model=False, oracle=env_oracle(b, label), tags=("env:" + label,), flavour=flavour,
                     nontrivial=False, note=b.note)
            c.env = dict(env)
            out.append(c)
    return out


def generate(rng, tier):
    base = base_cases(rng, tier)
    cases = list(base)
    # positive control: a line that prints uninitialised memory and an address must come out differently
    control_ref = Case("det_control", model=False, tags=("control",), nontrivial=False)
    cases.append(control_ref)
    cases += with_envs(base, ENVS, control_ref)
    if tier == "thorough":
        sub = rng.sample(base, 40)
        vg = []
        for b in sub:
            c = Case(b.op, model=False, oracle=env_oracle(b, "valgrind"), tags=("env:valgrind",), nontrivial=False, note=b.note)
            c.env = {"VH_VALGRIND": "1"}
            c.sig_override = "uninitialised-memory:valgrind-memcheck"
            vg.append(c)
        ctl = Case("det_control", model=False, nontrivial=False)
        ctl.env = {"VH_VALGRIND": "1"}
        ctl.crash_ok = True
        ctl.mtag = lambda mout, ctl=ctl: "control:valgrind:" + ("stops-on-uninitialised-value" if (ctl.hout or "").startswith("CRASH rc=97") else "DID-NOT-STOP(" + (ctl.hout or "")[:30] + ")")
        vg.append(ctl)
        cases += vg
        # and the base set once under ASan+UBSan
        for b in base[::3]:
            c = SanCase(b.op, model=False, oracle=env_oracle(b, "asan"), tags=("flavour:asan",), flavour="asan", nontrivial=False, note=b.note)
            cases.append(c)
    return cases


def replay_cases(lines):
    env = json.loads(os.environ.get("VERIF_REPLAY_ENV", "{}"))
    refs = []
    for l in lines:
        if l.startswith("det_env") or l.startswith("det_control"):
            continue
        cls = SanCase if os.environ.get("VERIF_REPLAY_FLAVOUR") == "asan" else Case
        refs.append(cls(l, model=False, oracle=detdec_oracle if l.startswith("det_dec") else det_oracle,
                        flavour=os.environ.get("VERIF_REPLAY_FLAVOUR", "plain") if not env else "plain"))
    out = list(refs)
    if env:
        for b in refs:
            c = Case(b.op, model=False, oracle=env_oracle(b, "replay-env"), flavour=os.environ.get("VERIF_REPLAY_FLAVOUR", "plain"))
            c.env = env
            if "VH_VALGRIND" in env:
                c.sig_override = "uninitialised-memory:valgrind-memcheck"
            out.append(c)
    return out
