"""C09 — reported encoded point/face counts equal what the decoder produces."""
from vlib.engine import Case
from . import e2e, e2etags, geomgen as G, topo2

ID = "C09"
LEVEL = "proof"
LEAN_MODULES = ["DracoProps.C09", "DracoProps.C09Eb"]
RULE = ("every case encodes with SetTrackEncodedProperties(true) through the Encoder / ExpertEncoder API and compares "
        "num_encoded_points() / num_encoded_faces() with num_points() / num_faces() of the geometry decoded from the "
        "produced stream. (a) random point clouds and meshes of all topology families x all methods, sub-methods, speeds "
        "0..10, split-on-seams, with the Lean model decoding the produced stream of every method (correspondence); (b) dedicated families, "
        "implementation only: vertex fans (interior and boundary centre, 2..8 triangles) and small grids with 2..3 "
        "non-position attributes carrying independent random seams (a quarter with the attribute order permuted, so that POSITION "
        "is not attribute 0; seams at the centre, seams caused by a split ring "
        "vertex only, seams in a later attribute only), bow-ties / k faces on an edge (non-manifold vertices and edges), "
        "degenerate and duplicate faces, isolated points, random sub-patches of small grids (many topology-split "
        "symbols, position-only and single-connectivity decoding), tori / genus-2 surfaces; (c) meshes whose points are "
        "NOT deduplicated (a vertex referenced through several point ids with identical value indices); the replays of the "
        "two defects this check found (repaired by 85f04a5 and 49d6567) run first as regression cases."
        ' (d) ONE draco::Encoder object used for two geometries in a row (op encdech: mesh then point cloud, '
        'point cloud then mesh, ...): the counts reported after the second encode are those of the second '
        'geometry; a point cloud must report 0 faces.')
THEOREM_BACKED = ('DracoProps.C09: seq_counts_mesh_connectivity / seq_counts_mesh_stream / seq_counts_pc_stream (a 2.2 '
                  'header + raw-index connectivity / point count followed by any bytes decodes to exactly the counts the '
                  'sequential encoders report), seq_counts (every accepted sequential stream of every bitstream version: '
                  'one value per point, identity maps, faces < points), seq_counts_independent_of_skip; eb_point_count_fan '
                  "/ eb_point_count_mesh / dec_points_* (the encoder's seam-sector formula AS REPAIRED by 49d6567 == the "
                  "decoder's point creation on an abstract fan, under H2 'seam flags sound' only — no deduplication "
                  'hypothesis), eb_point_count_fan_unsound_flag_witness (H2 cannot be dropped), the pre-fix formula with '
                  'eb_point_count_fan_prefix_agrees and its non-deduplicated witnesses. DracoProps.C09Eb (corner-table '
                  "models): eb_decoded_points_fans (the decoder's point count = sum of the per-fan counts, the fans read "
                  'off its corner table, under the table invariants APHyp), eb_decoded_points_encoder_formula (= sum of the'
                  " encoder's per-vertex formula over the same fans, under H2), eb_points_refine_vertices, "
                  'eb_encoded_points_fans (ComputeNumberOfEncodedPoints = (vertices - isolated) + sum over the fans of the '
                  "encoder's table, given ClosedOK), eb_encoded_faces (UNCONDITIONAL: reported faces = processed faces = "
                  'every non-degenerate face; traversal completeness encodeConnectivity_coverage / _size), '
                  "eb_encoded_points_eq_decoded_of_run / _single_of_run (nothing assumed about the encoder's table), "
                  'eb_encoded_counts_of_link / _single (reported points and faces = decoded, from the connectivity link, '
                  'SeamLink and the decoder-side facts APHyp / hhole). Cited: C01.seq_counts, C01Kd.pointcloud_kd_roundtrip'
                  ' (counts on encoder-model outputs), C01Eb.eb_encoded_counts_partial; proof library only: '
                  'EbCountsIso.eb_encoded_points_eq_decoded, EbEncCounts.encodeConnectivity_faces')
CORRESPONDENCE_ONLY = ('Edgebreaker: the connectivity link (isomorphism of the two tables; proved in C01Eb for runs without S '
                       'symbols and without attribute data) and the decoder-side facts APHyp / hhole are hypotheses of '
                       'eb_encoded_counts_of_link, evaluated per ebenc case of C01 (iso-ok, counts-ok) and covered here by the '
                       'oracle on the real outputs; the dedicated families of this check run on the implementation only '
                       '(model:none)')
EXPLANATION = ('the per-fan theorem is about an abstract model of the two counting procedures (one vertex at a time); '
               "C09Eb derives both sides' totals from their corner-table models as sums over fans read off the tables; "
               'the link between the two tables is tied to the code through the oracle (reported == decoded) on '
               'generated meshes; the streams of the random cases are also decoded by the Lean model (all methods)')
TIMEOUT = 900
CHECKS = {"counts"}


def finish(g, toks, info, tags, with_model):
    toks = [t for t in toks if t != "track=1"] + ["track=1"]
    info["track"] = True
    checks = CHECKS | ({"corr"} if with_model else set())
    c = e2e.make_case(g, toks, info, checks, tags=tuple(e2etags.option_tags(g, toks, info)) + tuple(tags))
    c.mtag = e2etags.result_tag(c)
    if not with_model:
        c.model = False
        c.spec = None
    return c


def seam_specs(rng, natt=None):
    natt = rng.randint(2, 3) if natt is None else natt
    specs = [(G.POSITION, G.DT["f32"], 3, False, 0)]
    for k in range(natt):
        t = rng.choice([G.TEX_COORD, G.GENERIC, G.NORMAL, G.COLOR])
        if t == G.NORMAL:
            specs.append((t, G.DT["f32"], 3, False, k + 1))
        elif t == G.TEX_COORD:
            specs.append((t, G.DT["f32"], 2, False, k + 1))
        else:
            specs.append((t, G.DT[rng.choice(["u8", "i16", "f32"])], rng.randint(1, 3), False, k + 1))
    return specs


def seam_mesh(rng, topo, natt=None, no_dedup=False, isolated=False, seam_rate=None):
    """mesh over the given topology whose non-position attributes get independent random seams: each attribute
    splits a random subset of (vertex, incident face) corners off into values of their own, optionally grouped in
    sectors (consecutive faces share the new value)"""
    fam, nv, vfaces = topo
    specs = seam_specs(rng, natt)
    ncorn = 3 * len(vfaces)
    corner_vertex = [v for f in vfaces for v in f]
    layouts = [(list(corner_vertex), nv)]
    for k in range(1, len(specs)):
        lay, nval = list(corner_vertex), nv
        rate = seam_rate if seam_rate is not None else rng.choice([0.0, 0.08, 0.15, 0.3])
        style = rng.choice(["corner", "vertex-sector", "one-vertex"])
        if style == "corner":
            for ci in range(ncorn):
                if rng.random() < rate:
                    lay[ci] = nval
                    nval += 1
        elif style == "vertex-sector":
            # for some vertices: the corners in a random subset of the incident faces share one new value
            for v in range(nv):
                if rng.random() < rate * 2:
                    cs = [ci for ci in range(ncorn) if corner_vertex[ci] == v]
                    if len(cs) >= 2:
                        sub = rng.sample(cs, rng.randint(1, len(cs) - 1))
                        for ci in sub:
                            lay[ci] = nval
                        nval += 1
        else:
            if ncorn:
                v = corner_vertex[rng.randrange(ncorn)]
                cs = [ci for ci in range(ncorn) if corner_vertex[ci] == v]
                for ci in cs:
                    if rng.random() < 0.5:
                        lay[ci] = nval
                        nval += 1
        layouts.append((lay, max(nval, 1)))
    point_of, tuples, faces = {}, [], []
    for fi in range(len(vfaces)):
        f = []
        for j in range(3):
            ci = 3 * fi + j
            key = tuple(l[0][ci] for l in layouts)
            if no_dedup and rng.random() < 0.3:
                pid = len(tuples)
                tuples.append(key)
            elif key in point_of:
                pid = point_of[key]
            else:
                pid = len(tuples)
                point_of[key] = pid
                tuples.append(key)
            f.append(pid)
        faces.append(tuple(f))
    if isolated:
        for _ in range(rng.randint(1, 3)):
            tuples.append(tuple(rng.randrange(l[1]) for l in layouts))
    if rng.random() < 0.3 and 1 < len(tuples):
        perm = list(range(len(tuples)))
        rng.shuffle(perm)
        inv = [0] * len(perm)
        for i, p in enumerate(perm):
            inv[p] = i
        tuples = [tuples[inv[i]] for i in range(len(tuples))]
        faces = [tuple(perm[i] for i in f) for f in faces]
    atts = []
    for k, (t, d, c, nz, uid) in enumerate(specs):
        nval = layouts[k][1]
        atts.append(G.Attr(t, d, c, nz, uid, nval, [tp[k] for tp in tuples], G.make_attr_values(rng, t, d, c, nval)))
    if rng.random() < 0.25:
        # POSITION need not be attribute 0 (the loaders always put it first, the API does not require it)
        rng.shuffle(atts)
    g = G.Geom(True, len(tuples), faces, atts)
    g.family = fam
    return g


def eb_options(rng, g, allow_seq=False):
    """Edgebreaker-centred option sets: all speeds (5/6 is the per-attribute / single connectivity border),
    sub-methods, split-on-seams"""
    while True:
        toks, info = e2e.rand_options(rng, g, force_method=(0 if allow_seq and rng.random() < 0.15 else 1), quant_prob=0.5)
        break
    toks = [t for t in toks if not t.startswith("speed=")]
    toks.append(f"speed={rng.choice([0, 1, 2, 3, 4, 5, 5, 6, 6, 7, 8, 9, 10])},{rng.randint(0, 10)}")
    return toks, info


def generate(rng, tier):
    # the replays of the two repaired defects (fixed: 85f04a5, 49d6567) run first as regression cases
    cases = replay_cases(REGRESSION_REPLAYS)
    thorough = tier == "thorough"
    mul = 6 if thorough else 1
    # ---- (a) random geometries, all methods, with the model on the sequential streams
    for _ in range(150 * mul):
        r = rng.random()
        if r < 0.35:
            g = G.rand_mesh(rng, rng.choice([3, 8, 20, 60, 200]))
        elif r < 0.55:
            g = G.rand_mesh(rng, 60, topo=topo2.rand_topology2(rng))
        else:
            g = G.rand_point_cloud(rng, rng.choice([3, 20, 200]))
        if g.num_points == 0:
            continue    # 0-point geometries: C01 (known finding empty-geometry)
        method = rng.choice([None, 0, 1, 1])
        toks, info = e2e.rand_options(rng, g, force_method=method, quant_prob=1.0 if (not g.is_mesh and method == 1) else 0.6)
        if "topo:non-deduplicated-points" in topo2.features(g):
            tag = "gen:random-non-deduplicated"
        else:
            tag = "gen:random"
        cases.append(finish(g, toks, info, (tag,), True))
    # ---- (b1) fans and small grids with independent seams in 2..3 attributes
    for _ in range(500 * mul):
        r = rng.random()
        if r < 0.5:
            nv, f = topo2.topo_fan(rng)
            topo = ("fan", nv, topo2._finish(rng, f))
        elif r < 0.8:
            nv, f = G.topo_grid(rng, rng.randint(1, 3), rng.randint(1, 3))
            topo = ("grid", nv, topo2._finish(rng, f))
        else:
            nv, f = topo2.topo_grid_patch(rng)
            topo = ("grid_patch", nv, f)
        g = seam_mesh(rng, topo, isolated=rng.random() < 0.1)
        toks, info = eb_options(rng, g)
        cases.append(finish(g, toks, info, ("gen:seam-fans-and-grids",), False))
    # ---- (b2) non-manifold vertices / edges, degenerate / duplicate faces, isolated points
    for _ in range(120 * mul):
        fam = rng.choice(["bowtie", "fan_on_edge", "degenerate", "soup"])
        if fam == "bowtie":
            nv, f = G.topo_bowtie(rng)
        elif fam == "fan_on_edge":
            nv, f = G.topo_fan_on_edge(rng)
        elif fam == "soup":
            nv, f = G.topo_soup(rng, rng.randint(3, 8), rng.randint(1, 10))
        else:
            nv, f = G.topo_grid(rng, 2, 2)
            for _ in range(rng.randint(1, 3)):
                a, b, c = rng.choice(f)
                f.append(rng.choice([(a, a, b), (a, b, b), (c, c, c), (a, b, c), (c, b, a)]))
        g = seam_mesh(rng, (fam, nv, topo2._finish(rng, f)), natt=rng.randint(0, 2), isolated=rng.random() < 0.4)
        toks, info = eb_options(rng, g, allow_seq=True)
        cases.append(finish(g, toks, info, ("gen:non-manifold-degenerate-isolated",), False))
    # ---- (b3) sub-patches of small grids and handle surfaces: many split symbols; position-only and single connectivity
    for _ in range(2500 * mul):
        r = rng.random()
        if r < 0.8:
            nv, f = topo2.topo_grid_patch(rng, w=rng.choice([3, 4, 4, 5]), h=rng.choice([2, 3, 3, 4]))
            topo = ("grid_patch", nv, f)
        else:
            nv, f = topo2.topo_handles(rng) if rng.random() < 0.5 else topo2.topo_torus(rng)
            topo = ("handles", nv, f)
        g = seam_mesh(rng, topo, natt=rng.choice([0, 0, 0, 1]), seam_rate=0.1)
        toks = ["method=1", f"speed={rng.randint(0, 10)},{rng.randint(0, 10)}"]
        info = {"expert": False, "req": {}, "track": True, "skip": None}
        if rng.random() < 0.4:
            toks = ["expert=1"] + toks + [f"submethod={rng.choice([0, 2])}"]
            info["expert"] = True
        cases.append(finish(g, toks, info, ("gen:split-rich-patches",), False))
    # ---- (d) one draco::Encoder object used for two geometries in a row (mesh then point cloud, point cloud then
    #      mesh, …): the counts reported after the second encode are those of the second geometry
    for _ in range(80 * mul):
        def one(as_mesh):
            if as_mesh:
                nv, f = topo2.topo_fan(rng) if rng.random() < 0.5 else G.topo_grid(rng, rng.randint(1, 3), rng.randint(1, 3))
                return seam_mesh(rng, ("fan", nv, topo2._finish(rng, f)), natt=rng.randint(0, 2))
            return G.rand_point_cloud(rng, 20)
        ga, gb = one(rng.random() < 0.6), one(rng.random() < 0.5)
        if ga.is_mesh == gb.is_mesh and rng.random() < 0.7:
            gb = one(not ga.is_mesh)
        if gb.num_points == 0 or ga.num_points == 0:
            continue
        ta = [f"method={rng.randint(0, 1)}", f"speed={rng.randint(0, 10)},{rng.randint(0, 10)}"] + (["track=1"] if rng.random() < 0.7 else [])
        tb = [f"method={rng.randint(0, 1)}", f"speed={rng.randint(0, 10)},{rng.randint(0, 10)}"]
        if not gb.is_mesh and tb[0] == "method=1":
            tb.append("q0=10")
        if not ga.is_mesh and ta[0] == "method=1":
            ta.append("q0=10")
        info = {"expert": False, "req": {}, "track": True, "skip": None}
        c = finish(gb, tb, info, ("gen:encoder-object-history", "first:" + ("mesh" if ga.is_mesh else "pc"), "second:" + ("mesh" if gb.is_mesh else "pc")), False)
        c.op = "encdech " + " ".join(ta) + " -- " + ga.to_text() + " ;; " + c.op[len("encdec "):]
        cases.append(c)
    # ---- (c) non-deduplicated points
    for _ in range(60 * mul):
        nv, f = topo2.topo_fan(rng) if rng.random() < 0.6 else G.topo_grid(rng, 2, 2)
        g = seam_mesh(rng, ("fan" if len(f) < 8 else "grid", nv, topo2._finish(rng, f)), natt=rng.randint(1, 2), no_dedup=True, seam_rate=rng.choice([0.0, 0.1]))
        toks, info = eb_options(rng, g, allow_seq=True)
        cases.append(finish(g, toks, info, ("gen:non-deduplicated-points",), False))
    return cases


# 4-triangle closed fan whose centre is referenced through point ids 0 and 5 (reported 6, decoded 5 before 49d6567), at the
# speeds / options that select per-attribute connectivity, and a point cloud through the Encoder API (reported 0 before 85f04a5)
FINDING_REPLAY = ("encdec method=1 speed=0,0 track=1 -- mesh 6 4 0,1,2,0,2,3,5,3,4,5,4,1 2 "
                  "0 9 3 0 0 5 0,1,2,3,4,0 0000000000000000000000000000803f0000000000000000000000000000803f00000000000080bf000000000000000000000000000080bf00000000 none "
                  "4 5 1 0 1 5 0,1,2,3,4,0 0a0000000b0000000c0000000d0000000e000000 none")


REGRESSION_REPLAYS = [
    FINDING_REPLAY,
    FINDING_REPLAY.replace("speed=0,0", "speed=5,5"),
    FINDING_REPLAY.replace("method=1 speed=0,0", "expert=1 method=1 speed=9,9 g:split_mesh_on_seams=0"),
    "encdec method=0 track=1 -- pc 1 0 - 1 0 9 3 0 0 1 id 3b590abee3ff0cbefa4944bf none",
    "encdec method=1 q0=10 track=1 -- pc 2 0 - 1 0 9 3 0 0 2 id 3b590abee3ff0cbefa4944bf0000803f0000004000004040 none",
]


def replay_cases(lines):
    from . import e2ereplay
    out = []
    for l in lines:
        if not l.startswith("encdec "):
            out.append(Case(l, model=False))
            continue
        head, gt = l.split(" -- ", 1)
        g, _ = G.parse_geom(gt.split())
        toks = head.split()[1:]
        info = e2ereplay.info_from_tokens(toks, g)
        out.append(finish(g, toks, info, ("replay",), False))
    return out
