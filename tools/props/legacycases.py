"""Legacy bitstreams (1.1 … 2.1) against the decoder model: cases for C05 / C02 style checks.

* `stream_cases()`        every legacy file of corpus/legacy: `dec` plain, all transforms skipped, subset skipped;
                          implementation == model token for token
* `rewrite_cases()`       the header of every legacy file (<= 4000 bytes) and of a few current streams rewritten to every
                          supported version 1.0 … 2.3: the version-gated branches run on data written for another version
                          (accept / reject and, when accepted, the whole geometry have to agree); asan flavour
* `corrupt_cases(rng)`    single byte (and a few structural) corruptions of the small legacy files, asan flavour
* `patched_scheme_cases(rng)`  the two legacy prediction schemes no shipped file uses — multi-parallelogram (id 2) and the
                          deprecated float tex-coord scheme (id 3) — reached on purpose: the real encoder writes a
                          2.2 stream with parallelogram / portable tex-coord prediction, the model's trace gives the offsets
                          of the scheme id (and of the orientation count), the ids are patched (the orientation count is
                          re-coded as a varint for the deprecated scheme, and the stream is also relabelled 2.1 / 2.0 where the
                          layouts coincide).  The result is a structurally valid stream with arbitrary corrections; both
                          decoders have to produce the same values (float path of the deprecated scheme bit for bit).
All comparisons tolerate `unsupported …` from the model and NaN payload differences of dequantized floats."""
import os

from vlib.engine import Case
from . import corpus as K, ebcases as E

LEGACY_VERSIONS = [(1, 0), (1, 1), (1, 2), (1, 3), (2, 0), (2, 1), (2, 2), (2, 3)]


def _expect(hout, mout, case):
    if mout is None or mout.startswith("unsupported"):
        return None
    if hout.startswith("CRASH"):
        return None
    if hout != mout and not E._same_up_to_nan(hout, mout):
        return f"legacy decode differs ({case.note}): {K.first_difference(mout, hout)}"
    return None


def _mtag(prefix):
    def f(mout):
        if mout is None:
            return prefix + ":model-none"
        t = mout.split(" ")
        return prefix + ":" + (t[0] if t[0] != "unsupported" else "unsupported:" + t[1][:40])
    return f


def legacy_files(max_size=None):
    d = os.path.join(K.ROOT, "legacy")
    out = []
    for f in sorted(os.listdir(d)):
        b = open(os.path.join(d, f), "rb").read()
        if max_size is None or len(b) <= max_size:
            out.append((f, b))
    return out


def stream_cases(flavour="plain"):
    cs = []
    for name, b in legacy_files(60000):
        h = K.header_of(b)
        for skip in ("-", "01234", "0", "13"):
            c = Case(f"dec {skip} {b.hex()}", expect=_expect, flavour=flavour,
                     tags=("legacy-file", f"v{h[0]}.{h[1]}", K.stream_class(b)), note=f"{name} skip={skip}")
            c.mtag = _mtag("legacy-file")
            cs.append(c)
    return cs


def rewrite_cases(extra_streams=(), flavour="asan", versions=LEGACY_VERSIONS):
    cs = []
    src = legacy_files(4000) + [(f"extra{i}", b) for i, b in enumerate(extra_streams)]
    for name, b in src:
        h = K.header_of(b)
        for (ma, mi) in versions:
            if (ma, mi) == (h[0], h[1]):
                continue
            rb = K.rewrite_version(b, ma, mi)
            c = Case(f"dec - {rb.hex()}", expect=_expect, flavour=flavour,
                     tags=("legacy-rewrite", f"to:v{ma}.{mi}", K.stream_class(b)), note=f"{name} relabelled {ma}.{mi}")
            c.mtag = _mtag("legacy-rewrite")
            cs.append(c)
    return cs


def _read_varint(b, pos):
    v, sh = 0, 0
    while pos < len(b):
        v |= (b[pos] & 0x7f) << sh
        pos += 1
        if not b[pos - 1] & 0x80:
            return v, pos
        sh += 7
        if sh > 63:
            break
    return 0, pos


def declared_points(b):
    """number of points a *sequential* stream declares (None when not applicable / metadata present)"""
    h = K.header_of(bytes(b))
    if h[3] != 0 or h[4] & 0x8000 or len(b) < 20:
        return None
    if h[2] == 0:
        return int.from_bytes(b[11:15], "little")
    if h[2] == 1:
        if (h[0], h[1]) < (2, 2):
            return int.from_bytes(b[15:19], "little")
        _, p = _read_varint(b, 11)
        return _read_varint(b, p)[0]
    return None


def _acceptable(b):
    """corrupted sequential streams that declare millions of points are left to the allocation property (C18): the
    real decoder allocates num_points * stride bytes before it looks at the data (ASan: allocator out of memory) and the
    list based model would need gigabytes to follow"""
    n = declared_points(b)
    return n is None or n <= 1 << 20


def _crash_oracle(hout, case):
    if hout.startswith("CRASH") and "out of memory" not in hout and "allocation-size-too-big" not in hout \
            and "requested allocation size" not in hout:
        return ("crash:" + (case.note or "legacy"), f"{hout[:300]} for `{case.op[:200]}`")
    return None


def corrupt_cases(rng, per_stream=60, flavour="asan"):
    cs = []
    for name, b in legacy_files(3000):
        h = K.header_of(b)
        if (h[0], h[1]) >= (2, 2):
            continue
        n = len(b)
        for _ in range(per_stream):
            c = bytearray(b)
            kind = rng.random()
            # the header, the connectivity head, the split events at the end of the connectivity and the attribute heads
            pos = rng.randrange(n) if rng.random() < 0.5 else min(n - 1, 7 + rng.randrange(min(90, n - 7)))
            if kind < 0.5:
                c[pos] = rng.randrange(256)
            elif kind < 0.65:
                c[pos] ^= 1 << rng.randrange(8)
            elif kind < 0.72:
                c = c[:max(11, rng.randrange(n))]
            elif kind < 0.8:
                c[pos] = rng.choice([0, 1, 2, 3, 0x7f, 0x80, 0xff])
            elif kind < 0.88:
                c[pos] = rng.randrange(256)
                c[rng.randrange(n)] = rng.randrange(256)
            elif kind < 0.94:
                c[pos] = (c[pos] + rng.choice([1, 255])) % 256
            else:
                # corruption + relabel: other version gates on almost valid data
                c[pos] = rng.randrange(256)
                ma, mi = rng.choice(LEGACY_VERSIONS)
                c[5], c[6] = ma, mi
            if not _acceptable(c):
                continue
            cs_ = Case(f"dec - {bytes(c).hex()}", expect=_expect, flavour=flavour, oracle=_crash_oracle,
                       tags=("legacy-corrupt", f"v{h[0]}.{h[1]}"), note=f"{name} corrupted")
            cs_.crash_ok = True      # allocation failures of the sanitizer run are not this check's subject
            cs_.mtag = _mtag("legacy-corrupt")
            cs.append(cs_)
    return cs


def _varint(v):
    out = bytearray()
    while True:
        b = v & 0x7f
        v >>= 7
        if v:
            out.append(b | 0x80)
        else:
            out.append(b)
            return bytes(out)


def patched_scheme_cases(rng, n=24, flavour="plain"):
    """needs the built harness (plain) and the compiled Lean driver: streams from the real encoder, offsets from the
    model's trace (`ebtrace`)"""
    from vlib import common as C, implside, leanside
    hd = implside.ensure(["plain"])
    ops, metas = [], []
    topos = [t for t in E.topologies(rng, "quick") if 4 <= len(t[1][1]) <= 400 and t[0] in
             ("grid", "grid_holes", "torus", "cylinder", "sphere", "components", "disc", "patch", "torus_two_splits")]
    for i in range(n):
        name, topo = rng.choice(topos)
        tex = i % 2 == 0
        extra = [("tex", rng.choice(["vertex", "seam_line", "seam_random"]))] if tex else \
            rng.choice([[], [("generic", "seam_random")], [("normal", "vertex")]])
        g = E.build(rng, topo, extra, pos_dtype=rng.choice(["f32", "f32", "i16"]))
        pred = [(1, 5)] if tex else [(0, 1)] + ([(1, 1)] if extra and extra[0][0] == "generic" else [])
        toks, _ = E.options(rng, g, speed=rng.choice([2, 3, 5]), pred=pred, submethod=rng.choice([0, 2]),
                            split=rng.choice([None, 0, 1]))
        ops.append("enc " + " ".join(t for t in toks if not t.startswith("track")) + " -- " + g.to_text())
        metas.append(name)
    wd = os.path.join(C.CACHE, "run", f"legacy-patch-{os.getpid()}")
    os.makedirs(wd, exist_ok=True)
    outs = implside.run_ops(hd["plain"], ops, wd, "legacypatch")
    streams = [bytes.fromhex(o.split()[1]) for o in outs if o.startswith("ok ")]
    f = os.path.join(wd, "trace.ops.txt")
    with open(f, "w") as fh:
        fh.write("\n".join("ebtrace - " + b.hex() for b in streams) + "\n")
    rc, traces, _ = leanside.run_driver(f)
    import shutil
    shutil.rmtree(wd, ignore_errors=True)
    cs = []
    for b, tr in zip(streams, traces):
        if not tr.startswith("ok "):
            continue
        tags = tr.split(" ", 1)[1].split(",")
        meth = []       # (offset, method)
        orient = []
        for t in tags:
            if t.startswith("at:method="):
                m, rem = t[len("at:method="):].split(":")
                meth.append((len(b) - int(rem), int(m)))
            elif t.startswith("at:orientations:"):
                orient.append(len(b) - int(t.split(":")[2]))
        variants = []
        # parallelogram (1) -> multi-parallelogram (2): same prediction data
        for off, m in meth:
            if m == 1 and b[off] == 1:
                v = bytearray(b)
                v[off] = 2
                variants.append(("multi_parallelogram", bytes(v)))
        # portable tex coords (5) -> deprecated (3): the orientation count becomes a varint at 2.2
        for off, m in meth:
            if m == 5 and b[off] == 5:
                later = [o for o in orient if o > off]
                if not later:
                    continue
                o = min(later)
                cnt = int.from_bytes(b[o:o + 4], "little")
                v = bytearray(b)
                v[off] = 3
                v = bytes(v[:o]) + _varint(cnt) + bytes(v[o + 4:])
                variants.append(("tex_coords_deprecated", v))
        for kind, v in variants:
            for skip in ("-", "01234"):
                c = Case(f"dec {skip} {v.hex()}", expect=_expect, flavour=flavour,
                         tags=("legacy-scheme", "legacy-scheme:" + kind), note=f"patched scheme {kind} skip={skip}")
                c.mtag = _mtag("legacy-scheme:" + kind)
                cs.append(c)
    return cs


def _marks(b, trace):
    """offsets (from the start of the stream) of the `at:<kind>:<remaining>` tags of the model's trace"""
    m = {"rans": []}
    for t in trace.split(" ", 1)[1].split(","):
        if not t.startswith("at:"):
            continue
        f = t.split(":")
        k = f[1]
        if k == "rans":
            m["rans"].append(len(b) - int(f[2]))
        elif k in ("events", "startface"):
            m[k] = (len(b) - int(f[2]), len(b) - int(f[3]))
        elif k == "startface_bits":
            m[k] = f[2]
        elif k.startswith("method=") or k == "orientations":
            continue
        else:
            m.setdefault(k, []).append(len(b) - int(f[2]))
    return m


def _pack_bits(bits):
    out = bytearray((len(bits) + 7) // 8)
    for i, x in enumerate(bits):
        if x:
            out[i // 8] |= 1 << (i % 8)
    return bytes(out)


def to_bitstream_21(b, trace, normal_mode=1):
    """Re-writes a 2.2 Edgebreaker stream (standard or valence traversal, no metadata) in the 2.1 layout, using the
    field offsets reported by the model: num_new_vertices, connectivity size + split events behind the traversal data
    with two-bit source edges, u64 bit-region sizes, start faces as a bit region, u32 rANS sizes, the valence header, the
    mode bytes of the constrained multi-parallelogram and geometric normal schemes.  Returns None when a mark is missing."""
    m = _marks(b, trace)
    try:
        a = m["after_traversal_type"][0]
        e0, e1 = m["events"]
        t0 = m["traversal"][0]
        te = m["traversal_end"][0]
        s0, s1 = m["startface"]
        sbits = [c == "1" for c in m.get("startface_bits", "")]
    except (KeyError, IndexError):
        return None
    valence = b[a - 1] == 2
    # split events: count, (source delta, split delta) pairs, one bit per event -> two bits per event
    n, p = _read_varint(b, e0)
    for _ in range(2 * n):
        _, p = _read_varint(b, p)
    edge_bits = []
    for i in range(n):
        byte = b[p + i // 8] if p + i // 8 < e1 else 0
        edge_bits += [bool(byte >> (i % 8) & 1), False]
    events = bytes(b[e0:p]) + _pack_bits(edge_bits)

    def region(lo, hi):
        """bytes [lo, hi) with the edits that fall inside"""
        edits = []
        if lo <= t0 < hi:
            if valence:
                edits.append((t0, t0, (1).to_bytes(8, "little") + b"\x07"))
            else:
                v, q = _read_varint(b, t0)
                edits.append((t0, q, v.to_bytes(8, "little")))
        if lo <= s0 < hi:
            packed = _pack_bits(sbits)
            edits.append((s0, s1, len(packed).to_bytes(8, "little") + packed))
        for r in m["rans"]:
            if lo <= r < hi:
                v, q = _read_varint(b, r + 1)
                edits.append((r + 1, q, v.to_bytes(4, "little")))
        for o in m.get("valence_contexts", []):
            if lo <= o < hi:
                edits.append((o, o, b"\x00\x00"))       # num_split_symbols = 0, EDGEBREAKER_VALENCE_MODE_2_7
        for o in m.get("constrained_mode", []):
            if lo <= o < hi:
                edits.append((o, o, b"\x00"))
        for o in m.get("normal_mode", []):
            if lo <= o < hi:
                edits.append((o, o, bytes([normal_mode])))           # 1 TRIANGLE_AREA, 0 ONE_TRIANGLE
        edits.sort()
        out, pos = bytearray(), lo
        for (x, y, rep) in edits:
            if x < pos:
                return None
            out += b[pos:x] + rep
            pos = y
        out += b[pos:hi]
        return bytes(out)

    trav = region(t0, te)
    tail = region(te, len(b))
    if trav is None or tail is None or e1 != t0:
        return None
    head = bytes(b[:5]) + bytes([2, 1]) + bytes(b[7:a]) + _varint(0) + bytes(b[a:e0])
    return head + _varint(len(trav)) + trav + events + tail


def transcoded_cases(rng, n=40, flavour="plain"):
    """valid bitstream-2.1 streams for the branches no shipped file reaches (valence start, bit-region start faces,
    constrained / geometric-normal mode bytes, portable tex coords with raw rANS sizes): 2.2 streams of the real
    encoder re-written by `to_bitstream_21`; a further copy is corrupted in one byte"""
    from vlib import common as C, implside, leanside
    hd = implside.ensure(["plain"])
    ops = []
    topos = [t for t in E.topologies(rng, "quick") if 1 <= len(t[1][1]) <= 600]
    for i in range(n):
        name, topo = rng.choice(topos)
        extra = rng.choice([e for _, e in E.ATT_SETS])
        g = E.build(rng, topo, extra, pos_dtype=rng.choice(["f32", "f32", "i16"]))
        toks, _ = E.options(rng, g, speed=rng.choice([0, 1, 2, 3, 5, 7]), submethod=rng.choice([0, 2]),
                            split=rng.choice([None, 0, 1]))
        ops.append("enc " + " ".join(t for t in toks if not t.startswith("track")) + " -- " + g.to_text())
    wd = os.path.join(C.CACHE, "run", f"legacy-transcode-{os.getpid()}")
    os.makedirs(wd, exist_ok=True)
    outs = implside.run_ops(hd["plain"], ops, wd, "legacytranscode")
    streams = [bytes.fromhex(o.split()[1]) for o in outs if o.startswith("ok ")]
    f = os.path.join(wd, "trace.ops.txt")
    with open(f, "w") as fh:
        fh.write("\n".join("ebtrace - " + b.hex() for b in streams) + "\n")
    rc, traces, _ = leanside.run_driver(f)
    import shutil
    shutil.rmtree(wd, ignore_errors=True)
    cs = []
    for b, tr in zip(streams, traces):
        if not tr.startswith("ok "):
            continue
        v = to_bitstream_21(b, tr)
        if v is None:
            continue
        kind = "valence" if b[11] == 2 else "standard"
        # variants only a legacy stream can carry: ONE_TRIANGLE normal prediction, and the legacy schemes at 2.1
        # (multi-parallelogram for parallelogram; deprecated tex coords for portable ones: same u32 orientation count)
        meth = [(len(b) - int(t.split(":")[2]), int(t.split(":")[1].split("=")[1]))
                for t in tr.split(" ", 1)[1].split(",") if t.startswith("at:method=")]
        variants = []
        if "at:normal_mode:" in tr:
            variants.append(("one_triangle", to_bitstream_21(b, tr, normal_mode=0)))
        for off, mth in meth:
            if mth in (1, 5) and b[off] == mth:
                pb = bytearray(b)
                pb[off] = 2 if mth == 1 else 3
                variants.append(("multi_parallelogram@2.1" if mth == 1 else "tex_coords_deprecated@2.1",
                                 to_bitstream_21(bytes(pb), tr)))
        for vk, vv in variants:
            if vv is None:
                continue
            c = Case(f"dec - {vv.hex()}", expect=_expect, flavour=flavour,
                     tags=("legacy-transcoded-variant", "legacy-transcoded-variant:" + vk), note=f"2.1 transcoded, {vk}")
            c.mtag = _mtag("legacy-transcoded-variant:" + vk)
            cs.append(c)
        for skip in ("-", "01234"):
            c = Case(f"dec {skip} {v.hex()}", expect=_expect, flavour=flavour,
                     tags=("legacy-transcoded", "legacy-transcoded:" + kind), note=f"2.2 stream transcoded to 2.1 skip={skip}")
            c.mtag = _mtag("legacy-transcoded:" + kind)
            cs.append(c)
        # the original 2.2 decode has to be the same geometry: checked by comparing the two implementation outputs
        ref = Case(f"dec - {b.hex()}", model=False, flavour=flavour, tags=("legacy-transcoded-reference",), nontrivial=False)
        cs.append(ref)

        def same_geometry(hout, case, ref=ref):
            r = (ref.hout or "").split(" ", 2)
            h = hout.split(" ", 2)
            if len(r) == 3 and r[0] == "ok" and (len(h) < 3 or h[0] != "ok" or h[2] != r[2]):
                case.tags = case.tags + ("legacy-transcoded:NOT-equivalent(generator)",)
            elif len(r) == 3 and r[0] == "ok":
                case.tags = case.tags + ("legacy-transcoded:equivalent-to-2.2-decode",)
            return None
        cs[-3].oracle = same_geometry
        cc = bytearray(v)
        cc[rng.randrange(11, len(cc))] = rng.randrange(256)
        c = Case(f"dec - {bytes(cc).hex()}", expect=_expect, flavour=flavour, oracle=_crash_oracle,
                 tags=("legacy-transcoded-corrupt",), note="transcoded 2.1 stream, one byte corrupted")
        c.crash_ok = True
        c.mtag = _mtag("legacy-transcoded-corrupt")
        cs.append(c)
    return cs


def cases(rng, tier="quick"):
    cs = stream_cases()
    cs += rewrite_cases()
    cs += corrupt_cases(rng, per_stream=40 if tier == "quick" else 400)
    cs += patched_scheme_cases(rng, n=24 if tier == "quick" else 120)
    cs += transcoded_cases(rng, n=40 if tier == "quick" else 300)
    return cs
