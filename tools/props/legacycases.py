"""Legacy bitstreams (1.1 … 2.1) against the decoder model: cases for C05 / C02 style checks.

* `stream_cases()`        every legacy file of corpus/legacy: `dec` plain, all transforms skipped, subset skipped;
                          implementation == model token for token
* `rewrite_cases()`       the header of every legacy file (<= 4000 bytes) and of a few current streams rewritten to every
                          supported version 1.0 … 2.3: the version-gated branches run on data written for another version
                          (accept / reject and, when accepted, the whole geometry have to agree); asan flavour
* `corrupt_cases(rng)`    single byte (and a few structural) corruptions of the small legacy files, asan flavour
* `patched_scheme_cases(rng)`  the two legacy prediction schemes no shipped file uses — multi-parallelogram (id 2) and the
                          deprecated float tex-coord scheme (id 3) — reached on purpose: the real encoder writes a
                          2.2 stream with parallelogram / portable tex-coord prediction, the model's trace gives the offsets
                          of the scheme id (and of the orientation count), the ids are patched (the orientation count is
                          re-coded as a varint for the deprecated scheme, and the stream is also relabelled 2.1 / 2.0 where the
                          layouts coincide).  The result is a structurally valid stream with arbitrary corrections; both
                          decoders have to produce the same values (float path of the deprecated scheme bit for bit).
All comparisons tolerate `unsupported …` from the model and NaN payload differences of dequantized floats."""
import os

from vlib.engine import Case
from . import corpus as K, ebcases as E

LEGACY_VERSIONS = [(1, 0), (1, 1), (1, 2), (1, 3), (2, 0), (2, 1), (2, 2), (2, 3)]


def _expect(hout, mout, case):
    if mout is None or mout.startswith("unsupported"):
        return None
    if hout.startswith("CRASH"):
        return None
    if hout != mout and not E._same_up_to_nan(hout, mout):
        return f"legacy decode differs ({case.note}): {K.first_difference(mout, hout)}"
    return None


def _mtag(prefix):
    def f(mout):
        if mout is None:
            return prefix + ":model-none"
        t = mout.split(" ")
        return prefix + ":" + (t[0] if t[0] != "unsupported" else "unsupported:" + t[1][:40])
    return f


def legacy_files(max_size=None):
    d = os.path.join(K.ROOT, "legacy")
    out = []
    for f in sorted(os.listdir(d)):
        b = open(os.path.join(d, f), "rb").read()
        if max_size is None or len(b) <= max_size:
            out.append((f, b))
    return out


def stream_cases(flavour="plain"):
    cs = []
    for name, b in legacy_files(60000):
        h = K.header_of(b)
        for skip in ("-", "01234", "0", "13"):
            c = Case(f"dec {skip} {b.hex()}", expect=_expect, flavour=flavour,
                     tags=("legacy-file", f"v{h[0]}.{h[1]}", K.stream_class(b)), note=f"{name} skip={skip}")
            c.mtag = _mtag("legacy-file")
            cs.append(c)
    return cs


def rewrite_cases(extra_streams=(), flavour="asan", versions=LEGACY_VERSIONS):
    cs = []
    src = legacy_files(4000) + [(f"extra{i}", b) for i, b in enumerate(extra_streams)]
    for name, b in src:
        h = K.header_of(b)
        for (ma, mi) in versions:
            if (ma, mi) == (h[0], h[1]):
                continue
            rb = K.rewrite_version(b, ma, mi)
            c = Case(f"dec - {rb.hex()}", expect=_expect, flavour=flavour,
                     tags=("legacy-rewrite", f"to:v{ma}.{mi}", K.stream_class(b)), note=f"{name} relabelled {ma}.{mi}")
            c.mtag = _mtag("legacy-rewrite")
            cs.append(c)
    return cs


def _read_varint(b, pos):
    v, sh = 0, 0
    while pos < len(b):
        v |= (b[pos] & 0x7f) << sh
        pos += 1
        if not b[pos - 1] & 0x80:
            return v, pos
        sh += 7
        if sh > 63:
            break
    return 0, pos


def declared_points(b):
    """number of points a *sequential* stream declares (None when not applicable / metadata present)"""
    h = K.header_of(bytes(b))
    if h[3] != 0 or h[4] & 0x8000 or len(b) < 20:
        return None
    if h[2] == 0:
        return int.from_bytes(b[11:15], "little")
    if h[2] == 1:
        if (h[0], h[1]) < (2, 2):
            return int.from_bytes(b[15:19], "little")
        _, p = _read_varint(b, 11)
        return _read_varint(b, p)[0]
    return None


def _acceptable(b):
    """corrupted sequential streams that declare millions of points are left to the allocation property (C18): the
    real decoder allocates num_points * stride bytes before it looks at the data (ASan: allocator out of memory) and the
    list based model would need gigabytes to follow"""
    n = declared_points(b)
    return n is None or n <= 1 << 20


def _crash_oracle(hout, case):
    if hout.startswith("CRASH") and "out of memory" not in hout and "allocation-size-too-big" not in hout \
            and "requested allocation size" not in hout:
        return ("crash:" + (case.note or "legacy"), f"{hout[:300]} for `{case.op[:200]}`")
    return None


def corrupt_cases(rng, per_stream=60, flavour="asan"):
    cs = []
    for name, b in legacy_files(3000):
        h = K.header_of(b)
        if (h[0], h[1]) >= (2, 2):
            continue
        n = len(b)
        for _ in range(per_stream):
            c = bytearray(b)
            kind = rng.random()
            # the header, the connectivity head, the split events at the end of the connectivity and the attribute heads
            pos = rng.randrange(n) if rng.random() < 0.5 else min(n - 1, 7 + rng.randrange(min(90, n - 7)))
            if kind < 0.5:
                c[pos] = rng.randrange(256)
            elif kind < 0.65:
                c[pos] ^= 1 << rng.randrange(8)
            elif kind < 0.72:
                c = c[:max(11, rng.randrange(n))]
            elif kind < 0.8:
                c[pos] = rng.choice([0, 1, 2, 3, 0x7f, 0x80, 0xff])
            elif kind < 0.88:
                c[pos] = rng.randrange(256)
                c[rng.randrange(n)] = rng.randrange(256)
            elif kind < 0.94:
                c[pos] = (c[pos] + rng.choice([1, 255])) % 256
            else:
                # corruption + relabel: other version gates on almost valid data
                c[pos] = rng.randrange(256)
                ma, mi = rng.choice(LEGACY_VERSIONS)
                c[5], c[6] = ma, mi
            if not _acceptable(c):
                continue
            cs_ = Case(f"dec - {bytes(c).hex()}", expect=_expect, flavour=flavour, oracle=_crash_oracle,
                       tags=("legacy-corrupt", f"v{h[0]}.{h[1]}"), note=f"{name} corrupted")
            cs_.crash_ok = True      # allocation failures of the sanitizer run are not this check's subject
            cs_.mtag = _mtag("legacy-corrupt")
            cs.append(cs_)
    return cs


def _varint(v):
    out = bytearray()
    while True:
        b = v & 0x7f
        v >>= 7
        if v:
            out.append(b | 0x80)
        else:
            out.append(b)
            return bytes(out)


def patched_scheme_cases(rng, n=24, flavour="plain"):
    """needs the built harness (plain) and the compiled Lean driver: streams from the real encoder, offsets from the
    model's trace (`ebtrace`)"""
    from vlib import common as C, implside, leanside
    hd = implside.ensure(["plain"])
    ops, metas = [], []
    topos = [t for t in E.topologies(rng, "quick") if 4 <= len(t[1][1]) <= 400 and t[0] in
             ("grid", "grid_holes", "torus", "cylinder", "sphere", "components", "disc", "patch", "torus_two_splits")]
    for i in range(n):
        name, topo = rng.choice(topos)
        tex = i % 2 == 0
        extra = [("tex", rng.choice(["vertex", "seam_line", "seam_random"]))] if tex else \
            rng.choice([[], [("generic", "seam_random")], [("normal", "vertex")]])
        g = E.build(rng, topo, extra, pos_dtype=rng.choice(["f32", "f32", "i16"]))
        pred = [(1, 5)] if tex else [(0, 1)] + ([(1, 1)] if extra and extra[0][0] == "generic" else [])
        toks, _ = E.options(rng, g, speed=rng.choice([2, 3, 5]), pred=pred, submethod=rng.choice([0, 2]),
                            split=rng.choice([None, 0, 1]))
        ops.append("enc " + " ".join(t for t in toks if not t.startswith("track")) + " -- " + g.to_text())
        metas.append(name)
    wd = os.path.join(C.CACHE, "run", f"legacy-patch-{os.getpid()}")
    os.makedirs(wd, exist_ok=True)
    outs = implside.run_ops(hd["plain"], ops, wd, "legacypatch")
    streams = [bytes.fromhex(o.split()[1]) for o in outs if o.startswith("ok ")]
    f = os.path.join(wd, "trace.ops.txt")
    with open(f, "w") as fh:
        fh.write("\n".join("ebtrace - " + b.hex() for b in streams) + "\n")
    rc, traces, _ = leanside.run_driver(f)
    import shutil
    shutil.rmtree(wd, ignore_errors=True)
    cs = []
    for b, tr in zip(streams, traces):
        if not tr.startswith("ok "):
            continue
        tags = tr.split(" ", 1)[1].split(",")
        meth = []       # (offset, method)
        orient = []
        for t in tags:
            if t.startswith("at:method="):
                m, rem = t[len("at:method="):].split(":")
                meth.append((len(b) - int(rem), int(m)))
            elif t.startswith("at:orientations:"):
                orient.append(len(b) - int(t.split(":")[2]))
        variants = []
        # parallelogram (1) -> multi-parallelogram (2): same prediction data
        for off, m in meth:
            if m == 1 and b[off] == 1:
                v = bytearray(b)
                v[off] = 2
                variants.append(("multi_parallelogram", bytes(v)))
        # portable tex coords (5) -> deprecated (3): the orientation count becomes a varint at 2.2
        for off, m in meth:
            if m == 5 and b[off] == 5:
                later = [o for o in orient if o > off]
                if not later:
                    continue
                o = min(later)
                cnt = int.from_bytes(b[o:o + 4], "little")
                v = bytearray(b)
                v[off] = 3
                v = bytes(v[:o]) + _varint(cnt) + bytes(v[o + 4:])
                variants.append(("tex_coords_deprecated", v))
        for kind, v in variants:
            for skip in ("-", "01234"):
                c = Case(f"dec {skip} {v.hex()}", expect=_expect, flavour=flavour,
                         tags=("legacy-scheme", "legacy-scheme:" + kind), note=f"patched scheme {kind} skip={skip}")
                c.mtag = _mtag("legacy-scheme:" + kind)
                cs.append(c)
    return cs


def cases(rng, tier="quick"):
    cs = stream_cases()
    cs += rewrite_cases()
    cs += corrupt_cases(rng, per_stream=40 if tier == "quick" else 400)
    cs += patched_scheme_cases(rng, n=24 if tier == "quick" else 120)
    return cs
