"""Development / staging check of the kd-tree slice: the dedicated kd-tree case family of props/kdcases.py
with the C01 oracle (round trip, validity, consumed bytes, model correspondence) and the C10 skip check, plus the
staging theorems of DracoProps.C01Kd.  The cases are meant to be merged into C01 / C04 / C10 (see notes/kd.md)."""
from vlib.engine import Case
from . import kdcases

ID = "C01kd"
LEVEL = "proof"
LEAN_MODULES = ["DracoProps.C01Kd", "DracoProps.C10Kd", "DracoProps.C18Kd", "DracoProps.C03Kd"]
RULE = kdcases.__doc__
THEOREM_BACKED = "see evidence.coverage.theorems"
CORRESPONDENCE_ONLY = "the attribute layer (KdTreeAttributesDecoder) and the entropy-coded byte layout are tied by correspondence"
EXPLANATION = "kd-tree point cloud codec: executable Lean decoder tied token for token, tree coding round trip proved"
TIMEOUT = 3000


def generate(rng, tier):
    return (kdcases.kd_cases(rng, tier, {"rt", "valid", "consumed", "corr", "skip"})
            + kdcases.kd_core_cases(rng, tier) + kdcases.kd_corrupt_cases(rng, tier))


def replay_cases(lines):
    return [Case(l, model=False) for l in lines]
