"""C07 — quantized normals decode to unit vectors within a bounded angle."""
import math

from vlib.engine import Case
from . import e2e, geomgen as G
from .geomgen import f32_bits, bits_f32, f32

ID = "C07"
LEVEL = "proof"
LEAN_MODULES = ["DracoProps.C07"]
RULE = ("float32 3-vectors: random directions, neighbourhoods of the 6 vertices / 12 edges / 8 face centres of the "
        "octahedron, lengths 1e-30..1e30, zero and denormal vectors, q=2..30; FloatVectorToQuantizedOctahedralCoords + "
        "QuantizedOctahedralCoordsToUnitVector of the real OctahedronToolBox compared bit for bit with the model "
        "(Float/Float32 instance); unit length, angle bound and coordinate range evaluated on the implementation's "
        "output; plus integer vectors on the L1 sphere and grid points through canonicalisation; distinct op lines")
THEOREM_BACKED = ('integer half: intvec_coords_in_square(_q), floatvec_coords_in_square, canonicalize_canonical/idempotent,'
                  ' canonicalizeIntVec_abs_sum (coordinates inside the q-bit square and canonical for every input); '
                  'exact-arithmetic geometric half for q >= 3: angle_bound_partial, angle_bound_exact (arccos(n.v/(|n||v|))'
                  ' <= 3*(2/(2^q-2)) for the exact octahedral projection and the nearest grid point incl. the repair '
                  'branch), octa_fixed_point (the generic decoder, tied to the Float32 model by '
                  'coordsToUnitVector_eq_generic, returns v/c), angle_bound_exact_decoded; float half for ANY rounding '
                  'oracle: float_decoded_unit_length (q = 2..30, every grid point), float_angle_bound (q >= 3), '
                  "float_angle_bound_q2, float_zero_input; source_canonicalize_is_model / source_isInDiamond_is_model' / "
                  "source_invertDiamond_is_model' / source_octaDecode_is_model' (CanonicalizeOctahedralCoords, IsInDiamond,"
                  " InvertDiamond and the canonicalized decoding transform, translated from clang's AST on every run, are "
                  'the model functions); also source_intVecToCoords_is_model, source_canonicalizeIntVec_is_model, '
                  'source_intSqrt_is_model (IntSqrt with both loops: the bound of the translated loop is never reached)')
CORRESPONDENCE_ONLY = ('that the compiled float arithmetic obeys the rounding models of the float theorems '
                       '(float_decoded_unit_length, float_angle_bound, float_angle_bound_q2, float_zero_input) is assumed; the '
                       'allowances those theorems give for binary32/binary64 (10u on the length, 144u + 120uE on the angle, '
                       'pi/2 + 144u + 64uE for q = 2) are the ones evaluated per case on the implementation')
EXPLANATION = ('integer core proved for all inputs; the angular bound proved in exact arithmetic (q >= 3); the float '
               'code is tied bit-exactly and its numeric bound evaluated on the implementation')
ASSUMPTIONS = ["IEEE-754 binary32/binary64 arithmetic of g++ x86-64 SSE equals Lean's Float32/Float",
               "binary32 / binary64 arithmetic obeys the standard rounding model (Octa.DecModel with u = 2^-24, Octa.DoubleModel "
               "with u = 2^-53): the float theorems of DracoProps.C07 are about every oracle with that property"]
# allowances given by the theorems of DracoProps.C07 for binary32 (decoder) / binary64 (encoder)
U32 = 2.0 ** -24
U64 = 2.0 ** -53
UNIT_TOL = 10 * U32                       # float_decoded_unit_length: | ||d|| - 1 | <= 10u
ANGLE_SLACK = 144 * U32 + 120 * U64       # float_angle_bound: + 120 uE + 144 u   (~8.58e-6)
ANGLE_SLACK_Q2 = 144 * U32 + 64 * U64     # float_angle_bound_q2: pi/2 + 64 uE + 144 u


def oracle(q, v):
    def f(hout, case):
        if hout in ("fail", "bad-op"):
            return ("octa-fail", f"`{case.op}` -> {hout}")
        s, t, b0, b1, b2 = map(int, hout.split())
        m = 2 ** q - 2
        if not (0 <= s <= m and 0 <= t <= m):
            return ("octa-coords-range", f"octahedral coordinates {(s, t)} outside [0,{m}] for `{case.op}`")
        d = [bits_f32(b0), bits_f32(b1), bits_f32(b2)]
        if any(math.isnan(x) or math.isinf(x) for x in d):
            return ("octa-nan", f"decoded normal {d} is not finite for `{case.op}`")
        ln = math.sqrt(sum(x * x for x in d))
        norm_in = math.sqrt(sum(float(x) * float(x) for x in v))
        if abs(ln - 1.0) > UNIT_TOL:
            return ("octa-unit-length", f"decoded normal {d} has length {ln} for `{case.op}`")
        # the angle bound is stated for finite non-zero inputs (not denormal-length)
        if norm_in > 1e-35 and all(abs(x) <= 3.4028234663852886e38 for x in v):
            a = [x / norm_in for x in v]
            cr = [a[1] * d[2] - a[2] * d[1], a[2] * d[0] - a[0] * d[2], a[0] * d[1] - a[1] * d[0]]
            ang = math.atan2(math.sqrt(sum(x * x for x in cr)), sum(x * y for x, y in zip(a, d)))
            # proved bounds: q >= 3: 3*(2/(2^q-2)) + slack; q = 2: pi/2 + slack (below the property's 3 rad)
            bound = (3 * (2.0 / (2 ** q - 2)) + ANGLE_SLACK) if q >= 3 else (math.pi / 2 + ANGLE_SLACK_Q2)
            if ang > bound:
                return ("octa-angle", f"angle {ang} exceeds {bound} for `{case.op}` (decoded {d})")
        return None
    return f


def rand_vec(rng):
    k = rng.randrange(7)
    if k == 0:
        v = [rng.gauss(0, 1) for _ in range(3)]
    elif k == 1:    # near a vertex
        v = [0.0, 0.0, 0.0]
        v[rng.randrange(3)] = rng.choice([-1.0, 1.0])
        v = [x + rng.gauss(0, 1) * 10.0 ** rng.randint(-9, -2) for x in v]
    elif k == 2:    # near an edge of the octahedron (one coordinate ~ 0)
        v = [rng.gauss(0, 1) for _ in range(3)]
        v[rng.randrange(3)] = rng.gauss(0, 1) * 10.0 ** rng.randint(-9, -3)
    elif k == 3:    # near a face centre
        v = [rng.choice([-1.0, 1.0]) * (1 + rng.gauss(0, 1) * 1e-3) for _ in range(3)]
    elif k == 4:    # exactly on axes / diagonals
        v = list(rng.choice([(1, 0, 0), (0, -1, 0), (0, 0, 1), (0, 0, -1), (1, 1, 0), (-1, 0, 1), (0, 1, -1), (1, 1, 1), (-1, -1, -1), (1, -1, 1)]))
        v = [float(x) for x in v]
    elif k == 5:    # z >= 0 vs z < 0 boundary
        v = [rng.gauss(0, 1), rng.gauss(0, 1), rng.choice([0.0, -0.0, 1e-30, -1e-30, 1e-12, -1e-12])]
    else:
        v = [rng.gauss(0, 1) for _ in range(3)]
    scale = 10.0 ** rng.choice([0, 0, 0, 0, -30, -20, -10, -3, 3, 10, 20, 30]) if rng.random() < 0.4 else 1.0
    if rng.random() < 0.05:     # components close to the largest finite float: |x|+|y|+|z| exceeds FLT_MAX
        m = max(abs(x) for x in v) or 1.0
        scale = rng.choice([1.2e38, 2.5e38, 3.3e38]) / m
    return [f32(max(-3.4e38, min(3.4e38, x * scale))) for x in v]


def generate(rng, tier):
    cases = []
    n = 20000 if tier == "thorough" else 4000
    for _ in range(n):
        q = rng.randint(2, 30) if rng.random() < 0.7 else rng.choice([2, 3, 4, 8, 10, 16, 30])
        v = rand_vec(rng)
        if all(x == 0 for x in v):
            continue
        cases.append(Case(f"octa_tool {q} fvec {f32_bits(v[0])} {f32_bits(v[1])} {f32_bits(v[2])}", oracle=oracle(q, v),
                          tags=("fvec", "tiny" if max(abs(x) for x in v) < 1e-20 else "huge" if max(abs(x) for x in v) > 1e20 else "normal")))
    # zero / denormal vectors: no NaN, coordinates in range (angle not defined)
    for q in (2, 3, 8, 10, 16, 30):
        for v in ([0.0, 0.0, 0.0], [-0.0, 0.0, -0.0], [1e-45, 0.0, 0.0], [1e-40, -1e-41, 1e-42], [0.0, 0.0, -1e-45]):
            cases.append(Case(f"octa_tool {q} fvec {f32_bits(v[0])} {f32_bits(v[1])} {f32_bits(v[2])}", oracle=oracle(q, v), tags=("zero_or_denormal",)))
    # integer half: all grid points through canonicalisation for small q, L1-sphere vectors
    for q in (2, 3, 4):
        m = 2 ** q - 2
        for s in range(m + 1):
            for t in range(m + 1):
                cases.append(Case(f"octa_tool {q} canon {s} {t}", tags=("canon_exhaustive",)))
                cases.append(Case(f"octa_tool {q} unit {s} {t}", tags=("unit_exhaustive",)))
        c = m // 2
        for x in range(-c, c + 1):
            for y in range(-(c - abs(x)), c - abs(x) + 1):
                z = c - abs(x) - abs(y)
                cases.append(Case(f"octa_tool {q} intvec {x} {y} {z}", tags=("intvec_exhaustive",)))
                if z:
                    cases.append(Case(f"octa_tool {q} intvec {x} {y} {-z}", tags=("intvec_exhaustive",)))
    for _ in range(2000 if tier == "thorough" else 400):
        q = rng.randint(5, 30)
        m = 2 ** q - 2
        c = m // 2
        s, t = rng.choice([0, m, c, rng.randint(0, m)]), rng.choice([0, m, c, rng.randint(0, m)])
        cases.append(Case(f"octa_tool {q} canon {s} {t}", tags=("canon_random",)))
        cases.append(Case(f"octa_tool {q} unit {s} {t}", tags=("unit_random",)))
        x = rng.randint(-c, c)
        y = rng.randint(-(c - abs(x)), c - abs(x))
        z = (c - abs(x) - abs(y)) * rng.choice([1, -1])
        cases.append(Case(f"octa_tool {q} intvec {x} {y} {z}", tags=("intvec_random",)))
    # histories: ONE AttributeOctahedronTransform object re-parameterised between uses must behave like a fresh one
    # (the property holds for every q, also on an object that served another q before)
    for _ in range(300 if tier == "thorough" else 60):
        qs = [rng.choice([2, 3, 5, 8, 10, 12, 16, 24, 30]) for _ in range(rng.choice([2, 2, 3]))]
        vecs = [rand_vec(rng) for _ in range(rng.choice([1, 4, 12]))]
        vecs = [v for v in vecs if not all(x == 0 for x in v)] or [[1.0, 2.0, 3.0]]
        flat = ",".join(str(f32_bits(x)) for v in vecs for x in v)

        def hist_oracle(hout, case, qs=qs, vecs=vecs):
            if " || " not in hout:
                return ("octa-fail", f"`{case.op[:200]}` -> {hout[:100]}")
            hist, fresh = hout.split(" || ")
            last = hist.split(" | ")[-1]
            if last != fresh:
                return ("octa-transform-reuse", f"a reused AttributeOctahedronTransform (q history {qs}) gives `{last[:120]}` where a fresh one gives `{fresh[:120]}` for `{case.op[:200]}`")
            # the property itself on every use of the reused object
            for q, part in zip(qs, hist.split(" | ")):
                f = part.split()
                if len(f) != 2:
                    return ("octa-fail", f"`{case.op[:200]}` -> {part[:100]}")
                st = [int(x) for x in f[0].split(",")]
                dec = [int(x) for x in f[1].split(",")]
                for i, v in enumerate(vecs):
                    r = oracle(q, v)(f"{st[2 * i]} {st[2 * i + 1]} {dec[3 * i]} {dec[3 * i + 1]} {dec[3 * i + 2]}", case)
                    if r:
                        return (r[0], "reused transform object: " + r[1])
            return None
        cases.append(Case(f"oattr_hist {','.join(map(str, qs))} {flat}", model=False, oracle=hist_oracle, tags=("transform_object_history",)))
    # end to end: normals through the codecs (sequential, Edgebreaker with delta / geometric-normal prediction),
    # checked by the executable specification RoundTripOK (decoded == octahedral decode(encode(original)))
    for _ in range(400 if tier == "thorough" else 80):
        r = rng.random()
        if r < 0.5:
            g = G.rand_wall_mesh(rng)
        else:
            specs = [(G.POSITION, G.DT["f32"], 3, False, 0), (G.NORMAL, G.DT["f32"], 3, False, 1)]
            g = G.rand_mesh(rng, rng.choice([6, 20, 60]), specs=specs) if r < 0.85 else G.rand_point_cloud(rng, 30, specs=specs)
        if g.num_points == 0:
            continue
        q = rng.choice([2, 3, 5, 8, 8, 10, 12, 14, 16, 24, 30])
        qp = rng.choice([8, 11, 14, 16])
        toks = [f"q0={qp}", f"q1={q}", f"speed={rng.randint(0, 10)},{rng.randint(0, 10)}"]
        if g.is_mesh:
            toks.append(f"method={rng.choice([0, 1, 1, 1])}")
            if rng.random() < 0.6:
                toks.append("p1=6")
        else:
            toks.append("method=0")
        info = {"expert": False, "req": {0: qp, 1: q}, "track": False, "skip": None}
        c = e2e.make_case(g, toks, info, {"rt", "valid"}, tags=("e2e_normals_" + getattr(g, "family", "pc"),))
        c.mtag = e2e.model_support_tag
        cases.append(c)
    return cases


def replay_cases(lines):
    return [Case(l) for l in lines]
