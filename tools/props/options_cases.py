"""Cases tying lean/DracoModel/Options.lean (Options / DracoOptions<int> / EncoderOptions::GetSpeed) to the C++ classes:
one random command script per case, run by the harness op `options` on the real classes and by the driver op
`options` on the model; outputs must be identical (default expect). Every option name is used with ONE kind of
value (int / bool / float / float vector / int vector / string — what options.h asks of callers), floats are finite or
infinite float32 patterns (no NaN: `%.9g` does not keep payloads).

`cases(rng, n)` returns engine Cases; hook into the generate() of C06 / C12 as wanted."""
import struct

from vlib.engine import Case

NAMES_INT = ["quantization_bits", "prediction_scheme", "encoding_speed", "decoding_speed", "n1", "n2"]
NAMES_BOOL = ["use_built_in_attribute_compression", "compress_connectivity", "b1"]
NAMES_FLOAT = ["quantization_range", "f1", "f2"]
NAMES_VEC = ["quantization_origin", "v1"]
NAMES_IVEC = ["w1"]
NAMES_STR = ["s1", "s2"]


def rand_f32_bits(rng):
    r = rng.random()
    if r < 0.1:
        return rng.choice([0, 0x80000000, 0x3f800000, 0xbf800000, 0x7f800000, 0xff800000, 1, 0x007fffff, 0x00800000,
                           0x7f7fffff, 0x3dcccccd, 0x3eaaaaab])
    while True:
        b = rng.getrandbits(32)
        if (b >> 23) & 0xff != 0xff:      # finite
            return b


def rand_int(rng):
    return rng.choice([0, 1, -1, -2, 7, 10, 30, 2147483647, -2147483648, rng.randint(-10 ** 9, 10 ** 9)])


def scope(rng):
    r = rng.random()
    return "" if r < 0.35 else ("G." if r < 0.6 else f"A{rng.randint(0, 3)}.")


def script(rng, length):
    out = []
    for _ in range(length):
        sc = scope(rng)
        kind = rng.choice("iibbffvvws" if sc == "" else "iiibbffvv")
        if kind == "i":
            n = rng.choice(NAMES_INT)
            out.append(sc + (f"si:{n}:{rand_int(rng)}" if rng.random() < 0.5 else f"gi:{n}:{rand_int(rng)}"))
        elif kind == "b":
            n = rng.choice(NAMES_BOOL)
            out.append(sc + (f"sb:{n}:{rng.randint(0, 1)}" if rng.random() < 0.5 else f"gb:{n}:{rng.randint(0, 1)}"))
            if rng.random() < 0.15:        # SetInt(-1) then GetBool: "-1 means unset"
                out.append(sc + f"si:{n}:{rng.choice([-1, 0, 2])}")
        elif kind == "f":
            n = rng.choice(NAMES_FLOAT)
            out.append(sc + (f"sf:{n}:{rand_f32_bits(rng)}" if rng.random() < 0.5 else f"gf:{n}:{rand_f32_bits(rng)}"))
        elif kind == "v":
            n = rng.choice(NAMES_VEC)
            if rng.random() < 0.5:
                k = rng.randint(1, 4)
                out.append(sc + f"sv:{n}:" + ",".join(str(rand_f32_bits(rng)) for _ in range(k)))
            else:
                out.append(sc + f"gv:{n}:{rng.randint(1, 4)}")
        elif kind == "w":
            n = rng.choice(NAMES_IVEC)
            if rng.random() < 0.5:
                out.append(f"sw:{n}:" + ",".join(str(rand_int(rng)) for _ in range(rng.randint(1, 4))))
            else:
                out.append(f"gw:{n}:{rng.randint(1, 4)}")
        else:
            n = rng.choice(NAMES_STR)
            if rng.random() < 0.5:
                txt = rng.choice([b"12", b"-7x", b"  +42 ", b"abc", b"0", b"99999", b"-0", b" 3 4"])
                out.append(f"ss:{n}:{txt.hex()}")
            else:
                out.append(rng.choice([f"gs:{n}", f"gi:{n}:{rand_int(rng)}"]))
        if rng.random() < 0.2:
            allnames = NAMES_INT + NAMES_BOOL + NAMES_FLOAT + NAMES_VEC
            out.append(scope(rng) + f"is:{rng.choice(allnames)}")
        if rng.random() < 0.08:
            out.append("speed")
        if rng.random() < 0.03:
            out.append("merge")
    # read back every int name as text (std::to_string) through the plain object
    for n in NAMES_INT[:2]:
        out.append(f"gs:{n}")
    return out


def cases(rng, n):
    out = []
    for _ in range(n):
        line = "options " + " ".join(script(rng, rng.choice([5, 12, 30])))
        out.append(Case(line, tags=("options",)))
    return out
