"""C08 — symbol entropy coding is lossless and self-delimiting."""
from vlib.engine import Case
from . import gen

ID = "C08"
LEVEL = "proof"
LEAN_MODULES = ["DracoProps.C08"]
RULE = ("symbol arrays of length 1..2e4 (quick) / 1e5 (thorough), 1..4 components, compression levels 0..10 and unset, "
        "forced tagged / raw / automatic scheme; distributions: uniform, geometric, constant, single outlier, two-point, "
        "all-distinct up to 2^18(+1) symbols, sparse values up to 2^26, values up to 2^32-1 (tagged); encoder bytes of "
        "the model (Float instance) == EncodeSymbols bytes; real encode -> decode with trailing bytes evaluated on the "
        "implementation (values and consumed bytes); decoder on damaged / truncated blocks and wrong counts compared "
        "with the model under ASan+UBSan; distinct op lines"
        '; fixed families: wide rANS states (raw scheme running with >= 17 precision bits), the 2^14 table-entry '
        'boundary alphabet, thorough: the automatic mode on 2^18 distinct symbols; model-only rans_oracle lines '
        'sample the five oracle facts of create_complete on the binary64 oracle')
THEOREM_BACKED = ('rans_roundtrip, table_roundtrip, create_sound (any oracle), raw_roundtrip, tagged_roundtrip, '
                  'symbols_roundtrip (every oracle, scheme, level), symbols_roundtrip_float, create_complete (+ sharpness '
                  'witness), precision_suffices(_table), symbols_failure_characterised, scheme_choice_irrelevant; 9 '
                  'obligations source_*_is_model (rANS precision functions, MostSignificantBit, the size-class branch of '
                  "EncodeTable, RAnsDecoder::read_init in all four size classes: translated from clang's AST on every run, "
                  "equal to the model's)")
EXPLANATION = ("full proof for every oracle instance; the Float instance of the model reproduces the C++ bytes; the "
               "ignored result of RAnsSymbolEncoder::Create is proved to be `true` for every oracle with five explicit "
               "properties (monotone, contractive rescale; estimate exact to +1; est 0 = 0; est T <= P), which the exact "
               "oracle has by proof and the binary64 oracle by assumption (sampled by the rans_oracle cases)")
ASSUMPTIONS = ["IEEE-754 binary64 (round to nearest, monotone, x/x = 1) gives ProbOracle.float the five properties of "
               "create_complete; sampled, not proved (Lean's Float is opaque)"]
TIMEOUT = 3000


def rand_syms(rng, n, kind):
    if kind == "uniform":
        m = rng.choice([1, 2, 7, 255, 1000, 65535, (1 << 18) - 1, (1 << 22)])
        return [rng.randint(0, m) for _ in range(n)]
    if kind == "geometric":
        out = []
        for _ in range(n):
            v = 0
            while rng.random() < 0.7 and v < 60:
                v += 1
            out.append(v)
        return out
    if kind == "constant":
        return [rng.choice([0, 1, 5, 131071, 1 << 18])] * n
    if kind == "outlier":
        l = [rng.choice([0, 3])] * n
        l[rng.randrange(n)] = rng.choice([1 << 17, (1 << 18) - 1, 1 << 18, 1 << 22, (1 << 26), (1 << 31) - 1, 1 << 31, (1 << 32) - 1])
        return l
    if kind == "twopoint":
        a, b = rng.randint(0, 1 << 16), rng.randint(0, 1 << 16)
        p = rng.choice([0.5, 0.999, 0.01])
        return [a if rng.random() < p else b for _ in range(n)]
    if kind == "distinct":
        base = rng.choice([0, 1000])
        return [base + i for i in range(n)]
    if kind == "sparse":
        pool = [rng.randint(0, 1 << 24) for _ in range(rng.randint(2, 40))]
        return [rng.choice(pool) for _ in range(n)]
    if kind == "halfprob":      # one symbol exactly half of the values (probability exactly 2^k)
        k = rng.choice([512, 513, 1024, 2048])
        l = [0] * k + list(range(1, k + 1))
        rng.shuffle(l)
        return l
    if kind == "longtail":      # many singletons behind a heavy head
        k = rng.choice([2200, 2900])
        l = [rng.randint(0, 3) for _ in range(rng.choice([70000, 100000]))] + list(range(10, 10 + k))
        rng.shuffle(l)
        return l
    return [rng.randint(0, 9) for _ in range(n)]


def rt_oracle(syms, ntrail):
    def f(hout, case):
        if hout == "err-enc":
            return None         # the encoder reported failure
        t = hout.split()
        if len(t) < 2 or t[1] != "ok":
            return ("symbols-undecodable", f"EncodeSymbols reported success but DecodeSymbols failed ({hout[:60]}) for `{case.op[:200]}`")
        enc_len, consumed = int(t[0]), int(t[2])
        vals = [] if t[3] == "-" else [int(x) for x in t[3].split(",")]
        if vals != syms:
            bad = next((i for i, (a, b) in enumerate(zip(vals, syms)) if a != b), min(len(vals), len(syms)))
            return ("symbols-altered", f"symbol {bad} decoded as {vals[bad] if bad < len(vals) else None}, expected {syms[bad] if bad < len(syms) else None} for `{case.op[:200]}`")
        if consumed != enc_len:
            return ("symbols-consumed", f"decoder consumed {consumed} of {enc_len} bytes (+{ntrail} trailing) for `{case.op[:200]}`")
        return None
    return f


def generate(rng, tier):
    cases = []
    thorough = tier == "thorough"
    kinds = ["uniform", "geometric", "constant", "outlier", "twopoint", "distinct", "sparse", "small"]
    n_cases = 900 if thorough else 220
    for i in range(n_cases):
        kind = kinds[i % len(kinds)]
        comps = rng.choice([1, 1, 2, 3, 4])
        n = rng.choice([1, 2, 3, 10, 100, 1000, 5000]) if not thorough else rng.choice([1, 2, 10, 100, 1000, 20000, 100000])
        if kind == "distinct":
            n = rng.choice([300, 2000, 1 << 12]) if not thorough else rng.choice([2000, 1 << 16, (1 << 18) - 1, 1 << 18, (1 << 18) + 1])
        n -= n % comps
        if n == 0:
            n = comps
        syms = rand_syms(rng, n, kind)
        big = max(syms) >= (1 << 24)
        level = rng.choice(["-", "0", "3", "7", "10", str(rng.randint(0, 10))])
        method = rng.choice(["-", "-", "0", "1"])
        if big and method != "0":
            method = "-" if max(syms) >= (1 << 18) else method     # forced raw with huge values needs GBs of histogram by design
        if method == "1" and max(syms) >= (1 << 22):
            method = "-"
        s = ",".join(map(str, syms))
        trail = gen.rand_bytes(rng, rng.choice((0, 2, 4)))
        tags = (f"kind:{kind}", f"method:{method}", f"comps:{comps}")
        cases.append(Case(f"syms_enc {level} {method} {comps} {s}", tags=tags))
        cases.append(Case(f"syms_rt {level} {method} {comps} {s} {gen.hexs(trail)}", oracle=rt_oracle(syms, len(trail)),
                          flavour="asan", tags=("rt",)))
        if n <= 5000 and rng.random() < 0.7:
            for _ in range(3):
                what = rng.choice(("trunc", "flip", "flip", "set"))
                n2 = rng.choice([n, n, n, max(1, n - comps), n + comps, 1])
                c2 = comps if rng.random() < 0.85 else rng.choice([1, 2, 3])
                n2 -= n2 % c2
                n2 = n2 or c2
                cases.append(Case(f"syms_dmg {level} {method} {comps} {s} {what} {rng.getrandbits(24)} {rng.getrandbits(16)} {n2} {c2}",
                                  flavour="asan", tags=("dmg_" + what,)))
    # targeted shapes: probability exactly 2^14 (table field boundary), >2 renormalisation bytes per symbol
    for kind in ("halfprob", "longtail"):
        for it in range(6 if thorough else (2 if kind == "halfprob" else 1)):
            syms = rand_syms(rng, 0, kind)
            if kind == "halfprob" and it == 0:
                # always present: 513 symbols at 15 precision bits, symbol 0 has probability exactly 2^14 (the
                # boundary between the two- and three-byte table entries)
                syms = [0] * 512 + list(range(1, 513))
                rng.shuffle(syms)
            for method in (("-", "1") if thorough or kind == "halfprob" else ("1",)):
                for level in ("-", "10"):
                    s = ",".join(map(str, syms))
                    cases.append(Case(f"syms_rt {level} {method} 1 {s} -", oracle=rt_oracle(syms, 0), flavour="asan", tags=(f"kind:{kind}",)))
                    cases.append(Case(f"syms_enc {level} {method} 1 {s}", tags=(f"kind:{kind}",)))
    # wide rANS states: raw scheme running with >= 17 precision bits (thousands of distinct symbols, or a few hundred at
    # level 10), where the final coder state needs the four-byte tail (state - base >= 2^26 for a good share of inputs)
    for it in range(24 if thorough else 8):
        level, ndist = rng.choice([("10", 700), ("10", 1500), ("7", 2600), ("8", 1300), ("5", 5000), ("-", 2600), ("0", 9000)])
        pool = rng.sample(range(1 << 14), ndist)
        syms = pool + [rng.choice(pool) for _ in range(rng.choice([0, ndist // 3, ndist]))]
        rng.shuffle(syms)
        s = ",".join(map(str, syms))
        for method in ("1", "-"):
            cases.append(Case(f"syms_rt {level} {method} 1 {s} -", oracle=rt_oracle(syms, 0), flavour="asan", tags=("kind:wide_state", f"method:{method}")))
        cases.append(Case(f"syms_enc {level} 1 1 {s}", tags=("kind:wide_state",)))
    if thorough:
        # every value below 2^18 present (2^18 distinct symbols), 20 times each: the automatic selection prefers
        # the raw scheme (its estimate wins from about 16*2^18 values on) and EncodeRawSymbols then reports failure
        # (unique-symbols bit length 19 > 18) although the tagged scheme codes the input -- the one `return false`
        # of the automatic mode (DracoProps.C08 `symbols_failure_characterised`); model and code must agree
        big = list(range(1 << 18)) * 20
        rng.shuffle(big)
        s = ",".join(map(str, big))
        cases.append(Case(f"syms_rt - - 1 {s} -", oracle=rt_oracle(big, 0), tags=("auto_raw_2^18_unique",)))
        cases.append(Case(f"syms_rt - 0 1 {s} -", oracle=rt_oracle(big, 0), tags=("auto_raw_2^18_unique",)))
    # decoder on arbitrary bytes
    for _ in range(2000 if thorough else 400):
        b = bytearray(gen.rand_bytes(rng, rng.choice((0, 1, 2, 3, 8, 30, 100))))
        if b and rng.random() < 0.7:
            b[0] = rng.choice([0, 1])
        n = rng.choice([1, 2, 5, 64, 1000])
        c = rng.choice([1, 1, 2, 3])
        n -= n % c
        n = n or c
        cases.append(Case(f"syms_dec {n} {c} {gen.hexs(bytes(b))}", flavour="asan", tags=("dec_garbage",)))
    # the hypotheses of `create_complete` sampled on the binary64 oracle of the model (model-only cases)
    for _ in range(400 if thorough else 120):
        pb = rng.randint(12, 20)
        P = 1 << pb
        T = rng.choice([1, 2, 3, rng.randint(1, 100), rng.randint(1, 1 << 20), rng.randint(1, 1 << 32), rng.randint(1, 1 << 40),
                        P, P + 1, P - 1, 3 * P])
        fs = set([1, T, max(1, T - 1), max(1, T // 2), max(1, T // 3)])
        for _ in range(40):
            fs.add(rng.randint(1, T))
            k = rng.randint(0, P)                       # frequencies whose exact estimate is close to k + 1/2
            f0 = ((2 * k + 1) * T) // (2 * P)
            for d in (0, 1):
                if 1 <= f0 + d <= T:
                    fs.add(f0 + d)
        A = P + rng.choice([1, 2, rng.randint(1, 64), rng.randint(1, P), rng.randint(1, 1 << 20)])
        ps = sorted(set([0, 1, 2, 3, P, P + 1, A] + [rng.randint(0, 2 * P) for _ in range(40)]))
        cases.append(Case(None, model=f"rans_oracle {T} {pb} {','.join(map(str, sorted(fs)))} {A} {','.join(map(str, ps))}",
                          expect=lambda hout, mout, case: None if mout == "ok" else
                          f"binary64 oracle violates a hypothesis of create_complete: {mout} for `{case.model}`",
                          tags=("oracle_hyp",)))
    return cases


def replay_cases(lines):
    return [Case(None, model=l, expect=lambda hout, mout, case: None if mout == "ok" else f"{mout} for `{case.model}`")
            if l.startswith("rans_oracle ") else Case(l) for l in lines]
