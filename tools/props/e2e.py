"""Shared end-to-end machinery (C01, C03, C06, C09, C10, C12, C20, e2e halves of C04/C07):
random option sets for the public encoder API, one `encdec` harness op per case, the Lean driver
decodes the produced stream itself (correspondence) and evaluates the executable specification
(RoundTripOK, skip check) on the implementation's outputs."""
from vlib.engine import Case
from . import geomgen as G

DT = G.DT


def rand_options(rng, geom, force_method=None, allow_expert=True, want_skip=False, quant_prob=0.7, explicit=0.25):
    """returns (tokens, info). info: expert, req {uid: bits}, track, skip"""
    toks = []
    expert = allow_expert and rng.random() < 0.5
    info = {"expert": expert, "req": {}, "track": False, "skip": None}
    if expert:
        toks.append("expert=1")
    # method
    m = force_method
    if m is None:
        r = rng.random()
        m = None if r < 0.2 else (0 if r < 0.6 else 1)
    if m is not None:
        toks.append(f"method={m}")
    es, ds = rng.randint(0, 10), rng.randint(0, 10)
    if rng.random() < 0.8:
        toks.append(f"speed={es},{ds}")
    # quantization
    by_type = {}
    for i, a in enumerate(geom.atts):
        if a.dtype != DT["f32"]:
            continue
        if rng.random() < quant_prob:
            bits = rng.choice([1, 2, 5, 8, 10, 11, 12, 14, 16, 20, 24, 30]) if rng.random() < 0.8 else rng.randint(1, 30)
            if a.att_type == G.NORMAL:
                bits = max(2, bits)
            if expert:
                if explicit and a.att_type != G.NORMAL and rng.random() < explicit:
                    # explicit quantization: box around the attribute's values (values inside the box)
                    import struct
                    comps = [a.components(v) for v in range(a.num_values)] or [(0.0,) * a.ncomp]
                    mins = [min(c[k] for c in comps) for k in range(a.ncomp)]
                    maxs = [max(c[k] for c in comps) for k in range(a.ncomp)]
                    org = [G.f32(m - rng.choice([0.0, 0.5, 1.0]) * (1.0 + abs(m)) * 0.01) for m in mins]
                    # the API accepts fewer origin dimensions than the attribute has components: the missing ones
                    # are 0 (only generated when the values of those components are inside [0, range])
                    if a.ncomp > 1 and rng.random() < 0.3:
                        nd = rng.randint(1, a.ncomp - 1)
                        if all(mins[k] >= 0.0 for k in range(nd, a.ncomp)):
                            org = org[:nd] + [0.0] * (a.ncomp - nd)
                            short_dims = nd
                        else:
                            short_dims = None
                    else:
                        short_dims = None
                    rngv = max([mx - o for mx, o in zip(maxs, org)] + [1e-3]) * rng.choice([1.0, 1.5, 2.0])
                    rngv = G.f32(rngv if rng.random() < 0.7 else float(int(rngv) + 1))
                    shown = org if short_dims is None else org[:short_dims]
                    toks.append(f"x{i}={bits},{G.f32_bits(rngv)}," + ",".join(str(G.f32_bits(o)) for o in shown))
                    info.setdefault("explicit", {})[a.uid] = (bits, G.f32_bits(rngv), [G.f32_bits(o) for o in org])
                else:
                    toks.append(f"q{i}={bits}")
                info["req"][a.uid] = bits
            else:
                by_type.setdefault(a.att_type, bits)
    if not expert:
        for t, bits in by_type.items():
            toks.append(f"q{t}={bits}")
        for a in geom.atts:
            if a.dtype == DT["f32"] and a.att_type in by_type:
                info["req"][a.uid] = by_type[a.att_type]
    # prediction scheme (only combinations CheckPredictionScheme accepts; others give err-predscheme)
    if rng.random() < 0.35 and geom.atts:
        i = rng.randrange(len(geom.atts))
        a = geom.atts[i]
        cands = [0, -2]
        if geom.is_mesh:
            cands += [1, 4]
            if a.att_type == G.TEX_COORD:
                cands.append(5)
            if a.att_type == G.NORMAL:
                cands.append(6)
        if rng.random() < 0.1:
            cands = [2, 3, 5, 6, 1]
        toks.append(f"p{i if expert else a.att_type}={rng.choice(cands)}")
    if rng.random() < 0.5:
        toks.append("track=1")
        info["track"] = True
    if expert:
        if rng.random() < 0.15:
            toks.append("builtin=0")
        if geom.is_mesh and rng.random() < 0.4:
            toks.append(f"submethod={rng.choice([0, 2])}")
        if geom.is_mesh and rng.random() < 0.2:
            toks.append(f"g:split_mesh_on_seams={rng.choice([0, 1])}")
        if geom.is_mesh and rng.random() < 0.3:
            toks.append(f"g:compress_connectivity={rng.choice([0, 1])}")
        if rng.random() < 0.15:
            toks.append(f"g:symbol_encoding_method={rng.choice([0, 1])}")
    if want_skip:
        present = sorted({a.att_type for a in geom.atts})
        sk = "".join(str(t) for t in present if rng.random() < 0.6) or str(rng.choice(present or [0]))
        toks.append(f"skip={sk}")
        info["skip"] = sk
    return toks, info


def parse_encdec(hout):
    """-> dict(status, hex, nep, nef, dec(tokens), skip(tokens))"""
    if not hout.startswith("ok "):
        return {"status": hout.split()[0] if hout else "?"}
    parts = hout.split(" | ")
    head = parts[0].split()
    return {"status": "ok", "hex": head[1], "nep": int(head[2]), "nef": int(head[3]),
            "dec": parts[1].split() if len(parts) > 1 else [], "skipall": parts[2].split() if len(parts) > 2 else [],
            "skip": parts[3].split() if len(parts) > 3 else [], "extra": parts[4:]}


def stream_class(hexs, is_mesh):
    b = bytes.fromhex(hexs[:24])
    method = b[8] if len(b) > 8 else 0
    if method == 0:
        return "seq"
    return "eb" if is_mesh else "kd"


def make_case(geom, toks, info, checks, trail=b"", tags=(), flavour="plain"):
    """checks: set of {'rt','valid','consumed','counts','skip','corr'}"""
    t = list(toks)
    if trail:
        t.append("trail=" + trail.hex())
    gtext = geom.to_text()
    op = "encdec " + " ".join(t) + " -- " + gtext
    req = ",".join(f"{u}:{b}" for u, b in sorted(info["req"].items())) or "-"

    def model(hout):
        r = parse_encdec(hout)
        if r["status"] != "ok":
            return None
        cls = stream_class(r["hex"], geom.is_mesh)
        hx = r["hex"] + trail.hex()
        return (f"e2e cls={cls} req={req} skip={info['skip'] or '-'} hex={hx} -- {gtext} -- "
                + " ".join(r["dec"]) + " -- " + " ".join(r["skipall"]) + " -- " + (" ".join(r["skip"]) or "-"))

    def oracle(hout, case):
        r = parse_encdec(hout)
        if r["status"] != "ok":
            return None     # the encoder reported failure: nothing is promised
        n = len(r["hex"]) // 2
        d = r["dec"]
        if not d or d[0] != "ok":
            return ("encode-ok-decode-fails", f"encoding reported success but decoding the {n}-byte stream failed ({' '.join(d)[:60]}) for `{case.op[:300]}`")
        if "consumed" in checks and int(d[1]) != n:
            return ("decode-consumed", f"decode consumed {d[1]} bytes of a {n}-byte stream (+{len(trail)} trailing) for `{case.op[:300]}`")
        g2, _ = G.parse_geom(d, 2)
        if "valid" in checks:
            v = g2.valid()
            if v or any(getattr(a, "short", False) for a in g2.atts):
                return ("decoded-geometry-invalid", f"decoded geometry is not structurally valid: {v or 'attribute buffer too small'} for `{case.op[:300]}`")
        if "counts" in checks and info["track"]:
            # a point cloud decodes to 0 faces: the reported face count must be 0 as well
            if r["nep"] != g2.num_points or r["nef"] != len(g2.faces):
                return ("encoded-counts", f"encoder reported {r['nep']} points / {r['nef']} faces, decoder produced {g2.num_points} / {len(g2.faces)} for `{case.op[:300]}`")
        return None

    def expect(hout, mout, case):
        r = parse_encdec(hout)
        if r["status"] != "ok" or mout is None:
            return None
        mp = mout.split(" | ")
        if len(mp) != 6:
            return f"model output malformed: {mout[:200]}"
        if "corr" in checks:
            if not mp[0].startswith("unsupported") and mp[0] != " ".join(r["dec"]):
                return f"decode of the same stream differs: implementation `{' '.join(r['dec'])[:300]}` model `{mp[0][:300]}`"
            if not mp[1].startswith("unsupported") and mp[1] != " ".join(r["skipall"]):
                return f"skip-all decode differs: implementation `{' '.join(r['skipall'])[:300]}` model `{mp[1][:300]}`"
            if mp[2] != "-" and not mp[2].startswith("unsupported") and mp[2] != " ".join(r["skip"]):
                return f"skip-transform decode differs: implementation `{' '.join(r['skip'])[:300]}` model `{mp[2][:300]}`"
        return None

    def spec(hout, mout, case):
        r = parse_encdec(hout)
        if r["status"] != "ok" or mout is None:
            return None
        mp = mout.split(" | ")
        if len(mp) != 6:
            return None
        if "rt" in checks and mp[3].startswith("violation"):
            return ("roundtrip:" + mp[3].split(":", 1)[1].strip()[:40], f"RoundTripOK (Lean spec) fails on the implementation's output: {mp[3]} for `{case.op[:300]}`")
        for k in (4, 5):
            if "skip" in checks and mp[k].startswith("violation"):
                return ("skip:" + mp[k].split(":", 1)[1].strip()[:40], f"skip-transform check (Lean spec, {'all types' if k == 4 else 'skip=' + str(info['skip'])}) fails on the implementation's output: {mp[k]} for `{case.op[:300]}`")
        return None

    # findings are identified by the class of input that fails: a geometry without points
    override = "empty-geometry" if geom.num_points == 0 else None

    def wrap(f):
        def g(*a):
            v = f(*a)
            if v is not None and override:
                return (override, v[1])
            return v
        return g

    c = Case(op, model=model, expect=expect, oracle=wrap(oracle), flavour=flavour, tags=tags)
    c.spec = wrap(spec)
    if override:
        c.sig_override = override
    return c


def model_support_tag(mout):
    if mout is None:
        return "model:none"
    p = mout.split(" | ")[0]
    if p.startswith("unsupported"):
        return "model:" + p.replace(" ", "_")
    return "model:decoded"
