"""C17 — bit, varint and buffer primitives round-trip every value."""
from vlib.engine import Case
from . import gen

ID = "C17"
LEVEL = "proof"
LEAN_MODULES = ["DracoProps.C17"]
RULE = ("exhaustive 8/16-bit varints (quick: all 8-bit, seeded slice of 16-bit); boundary-biased random 32/64-bit; "
        "varint decoder on random/garbage bytes; binary coders (rANS bit, adaptive rANS bit, direct, folded over both, "
        "buffer bit mode with and without stored size; whole item sequences — raw blocks, varints, bit regions of "
        "both kinds in random order — on ONE EncoderBuffer read back by ONE DecoderBuffer): random op sequences (single bits and 1..32-bit groups, biases "
        "0, 0.002, 0.1, 0.5, 0.97, 0.9995, 1, lengths 0..4000 quick / 0..20000 thorough): encoder bytes model == "
        "implementation, real encode->decode round trip evaluated on the implementation (values and consumed bytes), "
        "decoders on trailing bytes / over-reads / truncations / bit flips / garbage under ASan+UBSan compared with the "
        "model; a case is non-trivial when it is a distinct op line")
THEOREM_BACKED = ('varint_roundtrip, zigzag_roundtrip, scalar_roundtrip, bits_roundtrip, fastdiv_correct (generated table),'
                  ' rabs_roundtrip, ransBit/adaptive/direct/folded/symbolBit_roundtrip, getBit_past_end, direct_past_end, '
                  'encoder_buffer_refines_items, buffer_items_roundtrip (stateful EncoderBuffer vs item-wise '
                  'specification); 12 obligations source_*_is_model (zig-zag conversions, EncodeVarint<u32/u64>, '
                  'DecodeVarintUnsigned as a whole and its max_depth, ans_write_end, ans_read_init x0..x2, ReverseBits32 / '
                  "CountOneBits32 / CopyBits32: translated from clang's AST on every run, equal to the model functions)")
CORRESPONDENCE_ONLY = ""
EXPLANATION = "Lean theorems about the executable model of the primitives + byte-exact correspondence with the real classes"


def _rt_oracle(v):
    def f(hout, case):
        t = hout.split()
        if t[0] != "ok" or int(t[1]) != v or t[2] != t[3]:
            return ("varint-roundtrip", f"real EncodeVarint/DecodeVarint round trip of {v} gave `{hout}` for `{case.op}`")
        return None
    return f


KINDS = ["rans", "adapt", "direct", "folded", "foldedadapt", "bits0", "bits1"]


def rand_ops(rng, n, bias, mode, minbits):
    ops = []
    for _ in range(n):
        m = rng.randrange(2) if mode == 2 else mode
        if m == 0:
            ops.append(("b", 1, 1 if rng.random() < bias else 0))
        else:
            k = rng.randrange(8)
            nb = 32 if k == 0 else (max(minbits, 1) if k == 1 and minbits else (0 if k == 1 else rng.randint(minbits, 32)))
            v = 0
            for i in range(32):
                v |= (1 if rng.random() < bias else 0) << i
            if rng.random() < 0.5 and nb < 32:
                v &= (1 << nb) - 1
            ops.append(("l", nb, v))
    return ops


def ops_str(ops):
    return ",".join(f"b{v}" if t == "b" else f"l{nb}:{v}" for t, nb, v in ops) or "-"


def reqs_str(ops):
    return ",".join("b" if t == "b" else f"l{nb}" for t, nb, v in ops) or "-"


def rt_oracle(kind, ops):
    want = [str(v & ((1 << nb) - 1)) if nb < 32 else str(v) for t, nb, v in ops]

    def f(hout, case):
        t = hout.split()
        if len(t) != 2 or t[1] == "F":
            return ("bitcoder-roundtrip", f"{kind}: round trip failed ({hout[:80]}) for `{case.op[:200]}`")
        enc_len = int(t[0])
        pos, vals = t[1].split(":", 1)
        vals = vals.split(",") if vals else []
        if kind.startswith("bits"):
            vals = vals[1:]     # first value is the stored size
        if vals != want:
            bad = next((i for i, (a, b) in enumerate(zip(vals, want)) if a != b), min(len(vals), len(want)))
            return ("bitcoder-roundtrip", f"{kind}: decoded value {bad} is {vals[bad] if bad < len(vals) else None}, written {want[bad] if bad < len(want) else None} for `{case.op[:200]}`")
        return None
    return f


def generate(rng, tier):
    cases = []
    thorough = tier == "thorough"
    biases = [0.0, 0.002, 0.1, 0.5, 0.97, 0.9995, 1.0]
    lens = [0, 1, 2, 3, 7, 31, 32, 33, 64, 65, 100, 257, 1000] + ([4096, 20000] if thorough else [3000])
    ncoder = 140 if thorough else 36
    for c in range(ncoder):
        bias = biases[c % 7]
        n = lens[(c // 7 + c) % len(lens)] if c < 105 else rng.randrange(3000)
        mode = c % 3
        if mode != 0:
            n = min(n, 5000)
        for kind in KINDS:
            bitmode = kind.startswith("bits")
            ops = rand_ops(rng, min(n, 3000) if bitmode else n, bias, 1 if bitmode else mode, 0 if bitmode else 1)
            o = ops_str(ops)
            trail = gen.rand_bytes(rng, rng.choice((0, 3, 5)))
            cases.append(Case(f"bc_enc {kind} {o}", tags=(f"bc_enc_{kind}",), nontrivial=n > 0))
            cases.append(Case(f"bc_rt {kind} {o} {gen.hexs(trail)}", oracle=rt_oracle(kind, ops), flavour="asan",
                              tags=(f"bc_rt_{kind}",), nontrivial=n > 0))
        for kind in KINDS:
            g = bytearray(gen.rand_bytes(rng, rng.choice((0, 1, 2, 5, 9, 30, 200))))
            style = rng.randrange(3)
            for i in range(len(g)):
                if style == 1 and rng.random() < 0.75:
                    g[i] = 0
                elif style == 2 and rng.random() < 0.75:
                    g[i] = 0xff
            if len(g) >= 5 and rng.random() < 0.5:
                g[1] = rng.randrange(len(g)); g[2] = 0; g[3] = 0
                if rng.random() < 0.5:
                    g[0] = (rng.randrange(len(g) // 4 + 1) * 4) & 255
            reqs = rand_ops(rng, rng.randint(0, 60), 0.5, 2, 0 if kind.startswith("bits") else 1)
            legacy = 1 if kind in ("rans", "folded", "bits1") and rng.random() < 0.3 else 0
            cases.append(Case(f"bc_dec {kind} {legacy} {gen.hexs(bytes(g))} {reqs_str(reqs)}", flavour="asan",
                              tags=(f"bc_dec_garbage_{kind}",)))
    # decoders on damaged encoder output (both sides damage their own, identical, encoder output)
    for c in range(700 if thorough else 140):
        kind = KINDS[c % len(KINDS)]
        bitmode = kind.startswith("bits")
        ops = rand_ops(rng, rng.choice((5, 40, 300)), rng.choice(biases), 1 if bitmode else rng.randrange(3), 0 if bitmode else 1)
        more = ops + rand_ops(rng, 40, 0.5, 2, 0 if bitmode else 1)
        what = rng.choice(("trunc", "flip", "flip", "set"))
        legacy = 1 if kind in ("rans", "folded", "bits1") and rng.random() < 0.3 else 0
        cases.append(Case(f"bc_dmg {kind} {ops_str(ops)} {what} {rng.getrandbits(24)} {rng.getrandbits(16)} {legacy} {reqs_str(more)}",
                          flavour="asan", tags=(f"bc_dmg_{what}",)))
    # exhaustive: every rABS final state through ans_write_end / ans_read_init (the whole finite domain)
    def tail_oracle(hout, case):
        t = hout.split()
        if len(t) != 3 or int(t[1]) != 0:
            return ("ans-state-tail", f"`{case.op}`: {t[1] if len(t) == 3 else '?'} of {t[2] if len(t) == 3 else '?'} rABS states are not restored by ans_write_end/ans_read_init")
        return None
    step = 1 << 16
    for lo in range(4096, 4096 * 256, step):
        cases.append(Case(f"ans_tail_sweep {lo} {min(lo + step, 4096 * 256)}", oracle=tail_oracle, tags=("ans_tail_exhaustive",)))
    # histories: one encoder object and one decoder object reused for two streams
    for c in range(200 if thorough else 50):
        kind = KINDS[c % 5]
        o1 = rand_ops(rng, rng.choice((1, 10, 200)), rng.choice(biases), rng.randrange(3), 1)
        o2 = rand_ops(rng, rng.choice((1, 10, 200)), rng.choice(biases), rng.randrange(3), 1)
        def reuse_oracle(hout, case, kind=kind, o1=o1, o2=o2):
            parts = hout.split(" | ")
            if len(parts) != 2:
                return ("bitcoder-reuse", f"`{case.op[:200]}` -> {hout[:100]}")
            for part, ops in zip(parts, (o1, o2)):
                v = rt_oracle(kind, ops)(part, case)
                if v:
                    return ("bitcoder-reuse", "reused encoder/decoder objects: " + v[1])
            return None
        cases.append(Case(f"bc_reuse {kind} {ops_str(o1)} {ops_str(o2)}", flavour="asan", oracle=reuse_oracle,
                          tags=(f"bc_reuse_{kind}",)))
    # ONE EncoderBuffer, all interleavings of byte-mode writes and bit regions with / without stored size; ONE
    # DecoderBuffer reads the items back (theorems encoder_buffer_refines_items, buffer_items_roundtrip)
    def buf_oracle(hout, case):
        t = hout.split()
        if t[0] == "fail":
            return None     # a write call reported failure: compared with the model only
        if len(t) != 3 or t[2] != "T":
            return ("buffer-interleaving", f"items written to one EncoderBuffer are not read back: {' '.join(t[2:])[:120]} for `{case.op[:300]}`")
        return None
    for c in range(1500 if thorough else 300):
        items = []
        for _ in range(rng.choice((1, 2, 3, 5, 9, 16))):
            k = rng.random()
            if k < 0.3:
                items.append("r" + (gen.hexs(gen.rand_bytes(rng, rng.choice((1, 2, 4, 8, 3, 17))))))
            elif k < 0.45:
                items.append(f"v{gen.boundary_int(rng, rng.choice((8, 16, 32, 64)), False)}")
            else:
                ops = rand_ops(rng, rng.choice((0, 1, 2, 7, 40, 300)), rng.choice(biases), 1, 0)
                nbits = sum(nb for _, nb, _ in ops)
                # the caller's reservation: exact, rounded up, or generous (never less than what is written)
                req = max(1, rng.choice((nbits, nbits + rng.randint(0, 64), (nbits + 7) // 8 * 8, nbits * 2 + 1)))
                if rng.random() < 0.02:
                    req = 0     # StartBitEncoding refuses an empty reservation on both sides
                items.append(("s" if rng.random() < 0.5 else "n") + f"{req}:" + (";".join(f"{nb}.{v}" for _, nb, v in ops) or "-"))
        trail = gen.rand_bytes(rng, rng.choice((0, 0, 1, 5)))
        line = "buf_seq " + " ".join(items) + (f" t{gen.hexs(trail)}" if trail else "")
        cases.append(Case(line, oracle=buf_oracle, flavour="asan", tags=("buf_seq",)))
    cases_extra = cases
    cases = []
    # encoder: model bytes == implementation bytes
    for w in (8, 16, 32, 64):
        for sg in (0, 1):
            if w == 8:
                vals = range(-128, 128) if sg else range(256)
            elif w == 16:
                full = range(-32768, 32768) if sg else range(65536)
                vals = full if tier == "thorough" else rng.sample(list(full), 1500)
            else:
                vals = [gen.boundary_int(rng, w, bool(sg)) for _ in range(3000 if tier == "thorough" else 600)]
            for v in vals:
                cases.append(Case(f"varint_enc {w} {sg} {v}", tags=(f"varint_enc_{w}_{'s' if sg else 'u'}",)))
                trail = gen.rand_bytes(rng, rng.choice((0, 0, 1, 3)))
                cases.append(Case(f"varint_rt {w} {sg} {v} {gen.hexs(trail)}", model=False, oracle=_rt_oracle(v),
                                  tags=("varint_rt",)))
    # decoder on the encoder's bytes followed by garbage, and on arbitrary bytes
    n = 6000 if tier == "thorough" else 1500
    for _ in range(n):
        w = rng.choice((8, 16, 32, 64))
        sg = rng.choice((0, 1))
        k = rng.randint(0, 12)
        r = rng.random()
        if r < 0.5:
            b = bytes((rng.getrandbits(7) | 0x80) for _ in range(k)) + bytes([rng.getrandbits(7)]) + gen.rand_bytes(rng, rng.randint(0, 3))
        elif r < 0.7:
            b = bytes((rng.getrandbits(7) | 0x80) for _ in range(k))  # truncated
        else:
            b = gen.rand_bytes(rng, k)
        cases.append(Case(f"varint_dec {w} {sg} {gen.hexs(b)}", tags=(f"varint_dec_{w}",)))
    return cases + cases_extra


def replay_cases(lines):
    return [Case(l) for l in lines]
