"""C17 — bit, varint and buffer primitives round-trip every value."""
from vlib.engine import Case
from . import gen

ID = "C17"
LEVEL = "proof"
LEAN_MODULES = ["DracoProps.C17"]
RULE = ("exhaustive 8/16-bit varints (quick: all 8-bit, seeded slice of 16-bit); boundary-biased random 32/64-bit; "
        "decoder on random/garbage bytes; a case is non-trivial when it is a distinct op line")
THEOREM_BACKED = "varint (all widths)"
CORRESPONDENCE_ONLY = ""
EXPLANATION = "Lean theorems about the executable model of the primitives + byte-exact correspondence with the real classes"


def _rt_oracle(v):
    def f(hout, case):
        t = hout.split()
        if t[0] != "ok" or int(t[1]) != v or t[2] != t[3]:
            return ("varint-roundtrip", f"real EncodeVarint/DecodeVarint round trip of {v} gave `{hout}` for `{case.op}`")
        return None
    return f


def generate(rng, tier):
    cases = []
    # encoder: model bytes == implementation bytes
    for w in (8, 16, 32, 64):
        for sg in (0, 1):
            if w == 8:
                vals = range(-128, 128) if sg else range(256)
            elif w == 16:
                full = range(-32768, 32768) if sg else range(65536)
                vals = full if tier == "thorough" else rng.sample(list(full), 1500)
            else:
                vals = [gen.boundary_int(rng, w, bool(sg)) for _ in range(3000 if tier == "thorough" else 600)]
            for v in vals:
                cases.append(Case(f"varint_enc {w} {sg} {v}", tags=(f"varint_enc_{w}_{'s' if sg else 'u'}",)))
                trail = gen.rand_bytes(rng, rng.choice((0, 0, 1, 3)))
                cases.append(Case(f"varint_rt {w} {sg} {v} {gen.hexs(trail)}", model=False, oracle=_rt_oracle(v),
                                  tags=("varint_rt",)))
    # decoder on the encoder's bytes followed by garbage, and on arbitrary bytes
    n = 6000 if tier == "thorough" else 1500
    for _ in range(n):
        w = rng.choice((8, 16, 32, 64))
        sg = rng.choice((0, 1))
        k = rng.randint(0, 12)
        r = rng.random()
        if r < 0.5:
            b = bytes((rng.getrandbits(7) | 0x80) for _ in range(k)) + bytes([rng.getrandbits(7)]) + gen.rand_bytes(rng, rng.randint(0, 3))
        elif r < 0.7:
            b = bytes((rng.getrandbits(7) | 0x80) for _ in range(k))  # truncated
        else:
            b = gen.rand_bytes(rng, k)
        cases.append(Case(f"varint_dec {w} {sg} {gen.hexs(b)}", tags=(f"varint_dec_{w}",)))
    return cases


def replay_cases(lines):
    return [Case(l) for l in lines]
