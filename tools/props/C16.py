"""C16 — prediction-correction transforms are exactly invertible for any prediction."""
from vlib.engine import Case
from . import gen

ID = "C16"
LEVEL = "proof"
LEAN_MODULES = ["DracoProps.C16"]
RULE = ("exhaustive sweeps (digest compared between model and real classes, violations counted on the real classes): "
        "wrap: all (min,max,orig) in windows of width<=6 at INT_MIN, -3, 2^30, INT_MAX-6 x predictions around the "
        "range and at the int32 extremes; octahedron: every (orig,pred) pair of the q-bit grid for q<=4 (quick) / "
        "q<=5 (thorough); plus boundary-biased random 32-bit wrap tuples and random grid pairs for q=2..30, and the "
        "decoders on arbitrary corrections; distinct op lines are the non-trivial cases")
THEOREM_BACKED = ('wrap transform (all 32-bit predictions), canonicalized + legacy octahedral transform (all q in 2..30); '
                  'SOURCE = MODEL: 18 obligations source_{modMax, makePositive, isInDiamond, invertDiamond, rotationCount, '
                  'rotatePoint, isInBottomLeft, octaDecode, octaEncode, octaLegacyDecode, octaLegacyEncode, wrapClamp, '
                  'wrapInit, wrapDecode, wrapEncode, addAsUnsigned, msb, parallelogramComponent}_is_model — the C++ '
                  "functions, translated mechanically from clang's AST of the working tree on every run "
                  '(tools/vlib/xlate.py -> lean/Generated/Funcs.lean), are proved equal to the model functions the '
                  'round-trip theorems are about')
EXPLANATION = ('wrap_roundtrip (full statement) / octa_roundtrip proved in Lean for every input; the integer functions '
               "of the tool box, the canonicalized transform's ComputeOriginalValue / ComputeCorrection and the wrap "
               "transform's per-component cores are not only hand-transcribed: their mechanical translation from the "
               'source is proved equal to the model (a source change breaks the obligation); the loops over components '
               'and array aliasing are tied to the real template classes by exhaustive small-domain digests and random '
               "cases only. Trusted for the translation: clang-14's AST, tools/vlib/xlate.py, DracoModel/CInt.lean")
INT_MIN, INT_MAX = -2 ** 31, 2 ** 31 - 1


def b32(rng):
    anchors = [INT_MIN, INT_MIN // 2, -65536, -1, 0, 1, 65535, 1 << 30, INT_MAX // 2, INT_MAX]
    m = rng.randrange(4)
    if m == 0:
        return rng.randint(INT_MIN, INT_MAX)
    off = rng.randint(-20, 20) if m < 3 else rng.randint(-100000, 100000)
    return max(INT_MIN, min(INT_MAX, rng.choice(anchors) + off))


def wrap_oracle(orig):
    def f(hout, case):
        if hout == "fail":
            return ("wrap-init-fail", f"transform rejected a range with max-min < 2^31-1: `{case.op}`")
        corr, dec, minc, maxc = map(int, hout.split())
        if dec != orig:
            return ("wrap-roundtrip", f"wrap transform: decoded {dec} != original {orig} for `{case.op}` (corr {corr})")
        if not (minc <= corr <= maxc):
            return ("wrap-bounds", f"wrap transform: correction {corr} outside [{minc},{maxc}] for `{case.op}`")
        return None
    return f


def sweep_oracle(what):
    def f(hout, case):
        if hout == "fail":
            return (what + "-sweep-fail", f"`{case.op}` failed to initialise")
        h, viol, bad, n = hout.split()
        if int(viol) or int(bad):
            return (what + "-sweep", f"`{case.op}` on the real classes: {viol} round-trip violations, {bad} corrections out of bounds among {n} cases")
        return None
    return f


def octa_oracle(orig, m):
    def f(hout, case):
        if hout == "fail":
            return ("octa-init-fail", f"`{case.op}` failed to initialise")
        cs, ct, ds, dt, canon = map(int, hout.split())
        if canon and (ds, dt) != orig:
            return ("octa-roundtrip", f"octahedral transform: decoded {(ds, dt)} != canonical original {orig} for `{case.op}`")
        if canon and not (0 <= cs <= m and 0 <= ct <= m):
            return ("octa-bounds", f"octahedral transform: correction {(cs, ct)} outside [0,{m}] for `{case.op}`")
        return None
    return f


def grid_biased(rng, c):
    m = 2 * c
    k = rng.randrange(6)
    if k == 0:
        return rng.randint(0, m)
    if k == 1:
        return min(m, rng.randrange(4))
    if k == 2:
        return max(0, m - rng.randrange(4))
    base = [c, c // 2, c + c // 2][k - 3]
    return min(m, max(0, base + rng.randint(-3, 3)))


def generate(rng, tier):
    cases = []
    thorough = tier == "thorough"
    for base in (INT_MIN, -3, (1 << 30), INT_MAX - 6):
        cases.append(Case(f"wrap_sweep {base} 6", oracle=sweep_oracle("wrap"), tags=("wrap_sweep",)))
    cases.append(Case(f"wrap {1 << 30} {INT_MAX} {1 << 30} {INT_MAX - 10}", oracle=wrap_oracle(1 << 30), tags=("wrap_f1_witness",)))
    cases.append(Case(f"wrap {INT_MIN} {INT_MIN + 1} {INT_MIN + 1} {INT_MIN}", oracle=wrap_oracle(INT_MIN + 1), tags=("wrap_f1_witness",)))
    for _ in range(60000 if thorough else 8000):
        a, b = b32(rng), b32(rng)
        mn, mx = min(a, b), max(a, b)
        dif = mx - mn
        if dif >= INT_MAX:
            continue
        r = rng.randrange(4)
        o = [mn + rng.randrange(5), mx - rng.randrange(5), mn + dif // 2 + rng.randint(-2, 2), mn + rng.randint(0, dif)][r]
        o = max(mn, min(mx, o))
        r = rng.randrange(4)
        p = [b32(rng), min(INT_MAX, mx + rng.randint(-15, 15)), max(INT_MIN, mn + rng.randint(-15, 15)), mn + rng.randint(0, dif)][r]
        p = max(INT_MIN, min(INT_MAX, p))
        cases.append(Case(f"wrap {mn} {mx} {o} {p}", oracle=wrap_oracle(o), tags=("wrap_random",)))
        if rng.random() < 0.3:
            cases.append(Case(f"wrapdec {mn} {mx} {b32(rng)} {b32(rng)}", tags=("wrapdec_arbitrary",)))
    # rejected ranges
    for (mn, mx) in ((INT_MIN, INT_MAX), (INT_MIN, INT_MAX - 1), (0, INT_MAX), (5, 4), (INT_MIN + 1, INT_MAX)):
        cases.append(Case(f"wrapdec {mn} {mx} 0 0", tags=("wrap_init_reject",)))
    for q in range(2, 6 if thorough else 5):
        cases.append(Case(f"octa_sweep {q}", oracle=sweep_oracle("octa"), tags=("octa_sweep",)))
    for q in range(2, 31):
        c = (1 << (q - 1)) - 1
        for _ in range(1500 if thorough else 250):
            o = (grid_biased(rng, c), grid_biased(rng, c))
            p = (grid_biased(rng, c), grid_biased(rng, c))
            cases.append(Case(f"octa {q} {o[0]} {o[1]} {p[0]} {p[1]}", oracle=octa_oracle(o, 2 * c), tags=("octa_random",)))
            if rng.random() < 0.2:
                cases.append(Case(f"octadec {q} {grid_biased(rng, c)} {grid_biased(rng, c)} {grid_biased(rng, c)} {grid_biased(rng, c)}", tags=("octadec_arbitrary",)))
    return cases


def replay_cases(lines):
    return [Case(l) for l in lines]
