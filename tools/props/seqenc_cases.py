"""Cases tying the Lean model of the SEQUENTIAL ENCODERS (lean/DracoModel/SeqEncoder.lean) to the C++
encoders: the harness op `enc` encodes a generated geometry with a sequential method, the Lean driver op
`seqenc` re-encodes the same geometry with the model (encoder heuristics read back from the C++ stream)
and must reproduce the C++ bytes exactly; in addition the driver evaluates the conclusion of
`pointcloud_seq_roundtrip` / `mesh_seq_roundtrip` on the model's own stream (`rt-ok`).

`cases(rng, n, size)` returns engine Cases; hook into C01.generate (and C06 / C20 as wanted)."""
from vlib.engine import Case
from . import geomgen as G

DT = G.DT


def seq_options(rng, geom):
    """option tokens that keep the encoder on the sequential methods; all randomness from rng"""
    toks = []
    expert = rng.random() < 0.7
    if expert:
        toks.append("expert=1")
    r = rng.random()
    if r < 0.75:
        toks.append("method=0")
        if rng.random() < 0.8:
            toks.append(f"speed={rng.randint(0, 10)},{rng.randint(0, 10)}")
    else:
        # speed 10 selects the sequential encoders when no method is requested
        toks.append(f"speed={rng.choice([10, rng.randint(0, 10)])},10")
    by_type = {}
    for i, a in enumerate(geom.atts):
        if a.dtype != DT["f32"] or rng.random() > 0.7:
            continue
        bits = rng.choice([1, 2, 5, 8, 10, 11, 12, 14, 16, 20, 24, 30]) if rng.random() < 0.8 else rng.randint(1, 30)
        if a.att_type == G.NORMAL:
            bits = max(2, bits)
        if expert:
            if a.att_type != G.NORMAL and rng.random() < 0.25:
                comps = [a.components(v) for v in range(a.num_values)] or [(0.0,) * a.ncomp]
                mins = [min(c[k] for c in comps) for k in range(a.ncomp)]
                maxs = [max(c[k] for c in comps) for k in range(a.ncomp)]
                org = [G.f32(m - rng.choice([0.0, 0.5, 1.0]) * (1.0 + abs(m)) * 0.01) for m in mins]
                rngv = max([mx - o for mx, o in zip(maxs, org)] + [1e-3]) * rng.choice([1.0, 1.5, 2.0])
                rngv = G.f32(rngv if rng.random() < 0.7 else float(int(rngv) + 1))
                toks.append(f"x{i}={bits},{G.f32_bits(rngv)}," + ",".join(str(G.f32_bits(o)) for o in org))
            else:
                toks.append(f"q{i}={bits}")
        else:
            by_type.setdefault(a.att_type, bits)
    for t, bits in by_type.items():
        toks.append(f"q{t}={bits}")
    if geom.atts and rng.random() < 0.5:
        i = rng.randrange(len(geom.atts))
        a = geom.atts[i]
        cands = [0, -2]
        if geom.is_mesh:
            cands += [1, 4]
            if a.att_type == G.TEX_COORD:
                cands.append(5)
            if a.att_type == G.NORMAL:
                cands.append(6)
        toks.append(f"p{i if expert else a.att_type}={rng.choice(cands)}")
    if expert:
        if rng.random() < 0.3:
            toks.append("builtin=0")
        if geom.is_mesh and rng.random() < 0.5:
            toks.append(f"g:compress_connectivity={rng.choice([0, 1])}")
        # global fallbacks of the per-attribute getters (DracoOptions::GetAttributeInt: attribute -> global -> default)
        if rng.random() < 0.15:
            toks.append(f"g:quantization_bits={rng.choice([2, 7, 11, 14, 30, 31, 0, -1])}")
        if rng.random() < 0.15:
            toks.append(f"g:prediction_scheme={rng.choice([-2, -1, 0, 1, 4, 5, 6, 7, -3])}")
        if rng.random() < 0.1:
            toks.append(f"g:use_built_in_attribute_compression={rng.choice([0, 1, -1, 2])}")
    if rng.random() < 0.15:
        toks.append("meta=" + rand_meta(rng, geom))
    return toks


def _hx(b):
    return b.hex() if b else "_"


def rand_meta(rng, geom):
    """geometry metadata in the text form of harness/meta_text.h (names are distinct: std::map keys)"""
    def node(depth):
        names = rng.sample([b"a", b"name", b"k1", b"zz", b"\x00\xff", b"key"], rng.randint(0, 3))
        ents = ",".join(f"{_hx(n)}={_hx(bytes(rng.randrange(256) for _ in range(rng.randint(0, 5))))}" for n in sorted(names))
        subs = ""
        if depth < 2 and rng.random() < 0.4:
            sn = rng.sample([b"s", b"sub", b"t"], rng.randint(1, 2))
            subs = ",".join(f"{_hx(n)}={node(depth + 1)}" for n in sorted(sn))
        return "{" + ents + ";" + subs + "}"
    uids = [a.uid for a in geom.atts if rng.random() < 0.4]
    return "G[" + ",".join(f"{u}:{node(1)}" for u in uids) + "]" + node(0)


def make_case(geom, toks, tags=()):
    gtext = geom.to_text()
    op = "enc " + " ".join(toks) + " -- " + gtext

    forced_seq = "method=0" in toks

    def model(hout):
        if hout.startswith("err-encode") and forced_seq and geom.num_points > 0:
            # the sequential encoder reported failure: the model (default choices) must fail too
            return "seqenc " + " ".join(toks) + " hex=- -- " + gtext
        if not hout.startswith("ok "):
            return None
        hx = hout.split()[1]
        b = bytes.fromhex(hx[:24])
        if len(b) < 9 or b[8] != 0:
            return None     # not a sequential stream (kd-tree / edgebreaker)
        return "seqenc " + " ".join(toks) + f" hex={hx} -- " + gtext

    def expect(hout, mout, case):
        if mout is None:
            return None
        if hout.startswith("err-encode"):
            if mout.split()[0] != "fail":
                return f"the implementation's sequential encoder reports failure, the encoder model produces a stream for `{case.op[:300]}`"
            return None
        if not hout.startswith("ok "):
            return None
        hx = hout.split()[1]
        mp = mout.split()
        if mp[0] != "ok":
            return f"the encoder model fails ({mout[:60]}) where the implementation produced a stream for `{case.op[:300]}`"
        if mp[1] != hx:
            k = next((i for i in range(0, min(len(hx), len(mp[1])), 2) if hx[i:i + 2] != mp[1][i:i + 2]), min(len(hx), len(mp[1])))
            return (f"encoder model and implementation differ at byte {k // 2} (impl {len(hx) // 2} bytes, model {len(mp[1]) // 2}): "
                    f"impl …{hx[max(0, k - 8):k + 16]} model …{mp[1][max(0, k - 8):k + 16]} for `{case.op[:300]}`")
        if len(mp) >= 5:
            rt, dom, spec = mp[2], mp[3], mp[4]
            if dom == "dom-octa-fails":
                return f"float oracle hypothesis octaRowOK of seq_attr_roundtrip_normal is violated on `{case.op[:300]}`"
            if dom == "dom-ok" and rt != "rt-ok":
                return f"model decoder on the model's stream does not return `expected g opts` ({rt}) inside the theorems' domain for `{case.op[:300]}`"
            if dom == "dom-ok" and spec == "spec-violation":
                return f"`expected g opts` does not satisfy the executable specification RoundTripOK for `{case.op[:300]}`"
        return None

    def mtag(mout):
        if mout is None:
            return "seqenc:not-sequential-or-failed"
        mp = mout.split()
        return "seqenc:" + (mp[0] if mp else "?") + (":" + mp[3] if len(mp) > 3 else "")

    c = Case(op, model=model, expect=expect, tags=("seqenc",) + tuple(tags))
    c.mtag = mtag
    if geom.num_points == 0:
        # known finding of C01: geometries without points are not handled by the codec
        c.sig_override = "empty-geometry"
    return c


def cases(rng, n, size):
    out = []
    for _ in range(n):
        is_mesh = rng.random() < 0.5
        sz = rng.choice([1, 3, 8, 20, 60, size])
        g = G.rand_mesh(rng, sz) if is_mesh else G.rand_point_cloud(rng, sz)
        toks = seq_options(rng, g)
        fam = getattr(g, "family", "pc")
        out.append(make_case(g, toks, tags=("mesh" if is_mesh else "pc", "fam:" + fam)))
    # raw index widths: meshes with >= 256 and >= 65536 points, both connectivity modes
    for np_ in (300, 70000):
        pts = list(range(np_))
        faces = [(rng.randrange(np_), rng.randrange(np_), rng.randrange(np_)) for _ in range(40)] + [(0, np_ - 1, np_ // 2)]
        vals = bytes(rng.randrange(256) for _ in range(np_))
        g = G.Geom(True, np_, faces, [G.Attr(G.GENERIC, DT["u8"], 1, False, 0, np_, None, vals)])
        for cc in (0, 1):
            out.append(make_case(g, ["expert=1", "method=0", f"g:compress_connectivity={cc}"], tags=("mesh", f"points:{np_}")))
    return out
