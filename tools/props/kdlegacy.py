"""Legacy (bitstream < 2.3) kd-tree point cloud streams against the Lean decoder model (DracoModel/KdTreeLegacy.lean).

The current encoder only writes 2.3, so the streams are assembled: the harness op `legacykd int|float …` (slice robust)
wraps the payload of the library's own `DynamicIntegerPointsKdTreeEncoder` / `FloatPointsTreeEncoder` into a 2.0–2.2
header with one descriptor.  From every such base this module derives

* `variants`: the same payload under every version 1.0 … 2.2 (attribute count as u32 below 2.0, unique id as u16 below
  1.3, rANS section sizes re-coded from varint to the fixed u32 of bitstreams < 2.2), with the descriptor block
  rewritten: the dimensions split over several attributes of arbitrary data types of at most 4 bytes (the legacy branch
  takes every such type, signed ones without conversion), sometimes a 64-bit type / a wrong component count (rejected);
* `corruptions`: robustgen's field-aware corruption of the legacy layout (three point counts, method, levels, float tree
  header, kd payload sections, axis nibbles) plus byte edits / truncations.

Every case is the op `dec <skip> <hex>` on the harness and on the Lean driver: status, consumed bytes and the whole
geometry (value bytes = bit patterns) have to agree; `unsupported` from the model is a failure here."""
from vlib.engine import Case
from . import corpus as K, ebcases as E, robustgen as R

VALID_DT = [1, 2, 3, 4, 5, 6, 9, 11]        # data types of at most 4 bytes
WIDE_DT = [7, 8, 10]
VERSIONS = [(1, 0), (1, 1), (1, 2), (1, 3), (2, 0), (2, 1), (2, 2)]


def _nan_word(w):
    return len(w) == 4 and (w[3] & 0x7f) == 0x7f and (w[2] & 0x80) and (w[0] | w[1] | (w[2] & 0x7f) | 1)


def _same_up_to_nan_any_type(hout, mout):
    """float method: `operator=(VectorD<float,3>)` copies the first `stride` bytes of the three floats whatever the data
    type of the attribute is; where the model has the canonical NaN (Lean's Float32.toBits) the implementation may have
    any NaN (payload of a corrupted range propagated by the multiplication).  Words cut by the stride are compared on
    the visible prefix of the canonical NaN."""
    from . import geomgen as G
    ht, mt = hout.split(), mout.split()
    if len(ht) != len(mt) or ht[:2] != mt[:2] or ht[:1] != ["ok"]:
        return False
    try:
        gh, _ = G.parse_geom(ht, 2)
        gm, _ = G.parse_geom(mt, 2)
    except Exception:
        return False
    if gh.num_points != gm.num_points or len(gh.atts) != 1 or len(gm.atts) != 1:
        return False
    a, b = gh.atts[0], gm.atts[0]
    if (a.att_type, a.dtype, a.ncomp, a.normalized, a.uid, a.num_values, a.map, a.transform) != \
       (b.att_type, b.dtype, b.ncomp, b.normalized, b.uid, b.num_values, b.map, b.transform):
        return False
    if len(a.values) != len(b.values) or not a.num_values or len(a.values) % a.num_values:
        return False
    stride = len(a.values) // a.num_values
    canon = bytes([0, 0, 0xc0, 0x7f])
    for p in range(a.num_values):
        x, y = a.values[p * stride:(p + 1) * stride], b.values[p * stride:(p + 1) * stride]
        for o in range(0, stride, 4):
            wx, wy = bytes(x[o:o + 4]), bytes(y[o:o + 4])
            if wx == wy:
                continue
            if (wy[:3] + bytes([wy[3] & 0x7f]) if len(wy) == 4 else wy) != canon[:len(wy)]:
                return False
            if len(wx) == 4 and not _nan_word(wx):
                return False
    return True


def _expect(hout, mout, case):
    if hout is None or hout.startswith("CRASH"):
        return None
    if mout is None:
        return f"no model output for {case.note}"
    if mout.startswith("unsupported"):
        return f"model answers `{mout[:80]}` on a legacy kd-tree stream ({case.note})"
    if hout != mout and not E._same_up_to_nan(hout, mout) and not _same_up_to_nan_any_type(hout, mout):
        return f"legacy kd decode differs ({case.note}): {K.first_difference(mout, hout)}"
    if "variant:ok" in case.tags and not hout.startswith("ok "):
        return f"generator self check: a re-assembled valid legacy stream is rejected (`{hout[:40]}`, {case.note})"
    return None


def _mtag(mout):
    t = (mout or "none").split(" ")
    return "kdlegacy:" + t[0]


def _crash_oracle(hout, case):
    if hout.startswith("CRASH") and "out of memory" not in hout and "allocation-size-too-big" not in hout \
            and "requested allocation size" not in hout:
        return ("crash:kdlegacy", f"{hout[:300]} for `{case.op[:300]}`")
    return None


def case(data, skip, tags, note, flavour="plain"):
    c = Case(f"dec {skip} {bytes(data).hex()}", expect=_expect, oracle=_crash_oracle, flavour=flavour,
             tags=("kdlegacy",) + tuple(tags), note=note)
    c.mtag = _mtag
    c.crash_ok = True
    return c


# ------------------------------------------------------------------ re-assembly
def split_base(b):
    """(minor, np bytes, data type, components, rest from the method byte on) of a stream produced by `legacykd`"""
    assert b[:5] == b"DRACO" and b[5] == 2 and b[7] == 0 and b[8] == 1 and b[15] == 1 and b[16] == 1
    return b[6], b[11:15], b[18], b[19], b[22:]


def fixed_rans_sizes(b):
    """the 2.2 stream `b` with every rANS section size of the kd payload re-coded as the fixed uint32 of < 2.2"""
    fs = [f for f in R.stream_fields(b) if f.name.startswith("kd.numbers") and f.name.endswith(".size")]
    out = bytearray(b)
    for f in sorted(fs, key=lambda f: -f.off):
        out[f.off:f.off + f.length] = int(f.value).to_bytes(4, "little")
    return bytes(out), len(fs)


def assemble(major, minor, np_bytes, descs, rest):
    """descs: (att_type, data_type, components, normalized, unique_id)"""
    ver = (major, minor)
    s = bytearray(b"DRACO") + bytes([major, minor, 0, 1, 0, 0]) + np_bytes + bytes([1])
    s += len(descs).to_bytes(4, "little") if ver < (2, 0) else R.varint(len(descs))
    for (t, dt, nc, nz, uid) in descs:
        s += bytes([t, dt, nc, nz])
        s += uid.to_bytes(2, "little") if ver < (1, 3) else R.varint(uid)
    return bytes(s) + rest


def split_dim(rng, dim):
    parts = []
    while dim:
        k = rng.randint(1, dim)
        parts.append(k)
        dim -= k
    return parts


def variants(rng, b, per_base):
    """[(tags, note, bytes)]"""
    minor, npb, dt, nc, rest = split_base(b)
    is_float = rest[0] == 0
    fixed, nrans = fixed_rans_sizes(b)
    rest_fixed = split_base(fixed)[4] if minor == 2 else None
    out = []
    for _ in range(per_base):
        ma, mi = rng.choice(VERSIONS)
        if (ma, mi) < (2, 2):
            if minor == 2 and nrans:
                r = rest_fixed
            else:
                r = rest          # no rANS section (levels 0, 1) or already written with fixed sizes
        else:
            r = rest if minor == 2 or not nrans else None
        if r is None:
            continue
        kind = "ok"
        if is_float:
            d = (rng.randrange(5), rng.choice(VALID_DT), 3, rng.randrange(2), rng.randrange(300))
            descs = [d]
            x = rng.random()
            if x < 0.08:
                descs = [(d[0], rng.choice(WIDE_DT), 3, d[3], d[4])]
                kind = "wide"
            elif x < 0.16:
                descs = [(d[0], d[1], rng.choice([1, 2, 4]), d[3], d[4])]
                kind = "components"
            elif x < 0.22:
                descs = [d, (1, 2, 1, 0, d[4] + 1)]
                kind = "two-attributes"
        else:
            parts = split_dim(rng, nc) if rng.random() < 0.7 else [nc]
            descs = [(rng.randrange(5), rng.choice(VALID_DT), k, rng.randrange(2), 7 * i + rng.randrange(7))
                     for i, k in enumerate(parts)]
            x = rng.random()
            if x < 0.08:
                i = rng.randrange(len(descs))
                descs[i] = descs[i][:1] + (rng.choice(WIDE_DT),) + descs[i][2:]
                kind = "wide"
            elif x < 0.16:
                i = rng.randrange(len(descs))
                descs[i] = descs[i][:2] + (descs[i][2] + rng.choice([1, 2]),) + descs[i][3:]
                kind = "dimension"
        if (ma, mi) < (1, 3):
            descs = [d[:4] + (d[4] & 0xffff,) for d in descs]
        fam = "float" if is_float else "int"
        out.append(((f"kdlegacy:{fam}", f"v{ma}.{mi}", "variant:" + kind),
                    f"{fam} base relabelled {ma}.{mi}, {len(descs)} attribute(s), {kind}", assemble(ma, mi, npb, descs, r)))
    return out


def corruptions(rng, data, count):
    """[(tag, bytes)]: field-aware (robustgen) and blind corruptions of one legacy stream"""
    groups = {}
    for tag, m in R.field_mutations(data, R.stream_fields(data)):
        groups.setdefault(tag.split("[")[0], []).append((tag, m))
    muts = []
    for tag in sorted(groups):          # at most 3 per field name, then sampled: the 33 sections of the folded coder
        g = groups[tag]                 # and the axis nibbles would otherwise crowd out the header fields
        muts += rng.sample(g, min(len(g), 3))
    if len(muts) > count:
        muts = rng.sample(muts, count)
    n = len(data)
    for _ in range(max(2, count // 4)):
        x = bytearray(data)
        r = rng.random()
        if r < 0.5:
            x[rng.randrange(n)] = rng.randrange(256)
            muts.append(("byte", bytes(x)))
        elif r < 0.75:
            muts.append(("truncate", bytes(x[:rng.randrange(11, n)])))
        else:
            p = rng.randrange(11, n)
            muts.append(("insert", bytes(x[:p]) + bytes([rng.randrange(256)]) + bytes(x[p:])))
    return muts


def _declared_ok(b):
    """streams in which one of the point counts (header, attribute block, float tree, kd payload) is in the millions are
    left to C18, whose harness caps allocations: `dec` runs uncapped, and a decoder that sizes a buffer by such a count
    (seeded C03-5) would take the machine down instead of being reported; the list based model is slow on them too"""
    if len(b) >= 15 and int.from_bytes(b[11:15], "little") > 1 << 20:
        return False
    try:
        fs = R.stream_fields(b)
    except Exception:        # noqa: BLE001 - best effort parse of a corrupted stream
        return True
    return all(f.value <= 1 << 20 for f in fs if f.name.endswith("num_points"))


def cases(rng, tier, flavour="plain"):
    thorough = tier == "thorough"
    bases = R.legacy_kd_bases(rng, 40 if thorough else 14)
    if bases is None:
        return []
    out = []
    for s in bases:
        fam = s.family
        for skip in ("-", "01234"):
            out.append(case(s.data, skip, (fam, "base", f"v2.{s.data[6]}"), f"{fam} base", flavour))
        vs = variants(rng, s.data, 10 if thorough else 5)
        for tags, note, data in vs:
            out.append(case(data, rng.choice(["-", "-", "01234", "0"]), tags, note, flavour))
        pool = [("base", s.data)] + [(n, d) for _, n, d in vs if "ok" in n]
        for name, data in rng.sample(pool, min(len(pool), 3 if not thorough else 5)):
            for tag, m in corruptions(rng, data, 60 if thorough else 24):
                if _declared_ok(m):
                    out.append(case(m, rng.choice(["-", "01234"]), ("corrupt", tag.split("[")[0]),
                                    f"{name} corrupted ({tag})", flavour))
    return out


def corrupt_cases(rng, tier, flavour="asan"):
    """the share of `cases` used by C02's foreign corrupt families (asan flavour)"""
    return [c for c in cases(rng, tier, flavour)]
