"""Shared machinery of the decoder robustness checks C02 / C03 / C18.

* valid streams: real encoder (harness op `enc`) over small generated geometries of every method (sequential,
  kd-tree, Edgebreaker standard / valence), random option sets of props/e2e.py, metadata, plus the .drc files of
  <repo>/testdata (bitstream 1.1 .. 2.3);
* mutations: truncations, byte / 32-bit / varint patterns per offset, header rewrites, count-field substitutions
  (fixed 32-bit and re-encoded varint), splices, random multi-site;
* one `rdec` harness op per stream (executable robust_main: all decoding entry points on guarded read-only input,
  explicit structural validity, allocation monitor, watchdog) and one `rdec` model op (Lean driver);
* the three oracles.
All randomness comes from the rng passed in."""
import os
import re
import struct

from vlib import common as C
from vlib import implside
from vlib.engine import Case
from . import e2e, geomgen as G

EXE = "robust_main"
MODEL_MAX_DECLARED = 60000
CAP = 16 << 20              # requests above this are refused by the monitor (bad_alloc), see notes/robust.md

# ---- C18 bound:  single request <= A + K * (len + declared);  peak of live bytes <= PA + PK * (len + declared) * (1 + atts)
A_SINGLE = (4 << 20) + (64 << 10)
K_SINGLE = 2048
A_PEAK = 3 * A_SINGLE
K_PEAK = 4 * K_SINGLE


def bound_single(n, declared):
    return A_SINGLE + K_SINGLE * (n + declared)


def bound_peak(n, declared):
    return A_PEAK + K_PEAK * (n + declared)


# ------------------------------------------------------------------ version constants of the tree under test

def max_versions():
    """(mesh major, mesh minor, pc major, pc minor) from compression_shared.h of the tree under test"""
    p = os.path.join(C.REPO, "src/draco/compression/config/compression_shared.h")
    src = open(p).read()

    def k(name, default):
        m = re.search(name + r"\s*=\s*(\d+)", src)
        return int(m.group(1)) if m else default
    return (k("kDracoMeshBitstreamVersionMajor", 2), k("kDracoMeshBitstreamVersionMinor", 2),
            k("kDracoPointCloudBitstreamVersionMajor", 2), k("kDracoPointCloudBitstreamVersionMinor", 3))


# ------------------------------------------------------------------ geometries

def holey_grid(rng):
    """quad grid with triangles removed (holes, pinched vertices: several Edgebreaker split symbols);
    position only or with one per-vertex attribute"""
    nx, ny = rng.randint(2, 6), rng.randint(2, 6)
    tris = []
    for y in range(ny):
        for x in range(nx):
            a, b, c, d = y * (nx + 1) + x, y * (nx + 1) + x + 1, (y + 1) * (nx + 1) + x, (y + 1) * (nx + 1) + x + 1
            tris += [(a, b, d), (a, d, c)] if rng.random() < 0.7 else [(a, b, c), (b, d, c)]
    p = rng.choice([0.1, 0.25, 0.4])
    keep = [t for t in tris if rng.random() >= p] or tris[:1]
    if rng.random() < 0.5:
        rng.shuffle(keep)
    used = sorted({v for t in keep for v in t})
    idx = {v: i for i, v in enumerate(used)}
    faces = [tuple(idx[v] for v in t) for t in keep]
    pos = b"".join(struct.pack("<fff", float(v % (nx + 1)), float(v // (nx + 1)), G.f32(rng.random() * 0.1)) for v in used)
    atts = [G.Attr(G.POSITION, G.DT["f32"], 3, False, 0, len(used), None, pos)]
    if rng.random() < 0.3:
        atts.append(G.Attr(G.GENERIC, G.DT["u8"], 1, False, 1, len(used), None, bytes(rng.getrandbits(8) for _ in used)))
    g = G.Geom(True, len(used), faces, atts)
    g.family = "holey_grid"
    return g


def seam_grid(rng):
    """grid with shared positions and two small integer attributes whose seams run along different lines: the
    mesh has more points than either attribute has values"""
    n = rng.randint(2, 4)
    sx, sy = rng.randint(1, n - 1), rng.randint(1, n - 1)
    corners = []
    for y in range(n):
        for x in range(n):
            a, b, c, d = y * (n + 1) + x, y * (n + 1) + x + 1, (y + 1) * (n + 1) + x, (y + 1) * (n + 1) + x + 1
            for t in ((a, b, d), (a, d, c)):
                corners.append([(v, 0 if x < sx else 1, 0 if y < sy else 1) for v in t])
    point_of, tuples, faces = {}, [], []
    for f in corners:
        ids = []
        for key in f:
            if key not in point_of:
                point_of[key] = len(tuples)
                tuples.append(key)
            ids.append(point_of[key])
        faces.append(tuple(ids))
    nv = (n + 1) * (n + 1)
    pos = b"".join(struct.pack("<fff", float(v % (n + 1)), float(v // (n + 1)), G.f32(0.1 * ((v * 7) % 5))) for v in range(nv))
    kinds = [(G.COLOR, 4), (G.GENERIC, 1)]
    if rng.random() < 0.5:
        kinds.reverse()
    atts = [G.Attr(G.POSITION, G.DT["f32"], 3, False, 0, nv, [t[0] for t in tuples], pos)]
    for k, (t, nc) in enumerate(kinds):
        atts.append(G.Attr(t, G.DT["u8"], nc, False, k + 1, 2, [tp[k + 1] for tp in tuples],
                           bytes(rng.getrandbits(8) for _ in range(2 * nc))))
    g = G.Geom(True, len(tuples), faces, atts)
    g.family = "seam_grid"
    return g


def rand_geometry(rng, small=True):
    r = rng.random()
    if r < 0.15:
        return holey_grid(rng)
    if r < 0.27:
        return seam_grid(rng)
    if r < 0.65:
        return G.rand_mesh(rng, rng.choice([3, 8, 20] if small else [8, 20, 60]))
    return G.rand_point_cloud(rng, rng.choice([3, 10, 30] if small else [10, 40, 120]))


META = ["G[]{;}", "G[]{61=01;}", "G[0:{6e616d65=706f73;}]{61=0102,62=_;73={63=ff;}}", "G[7:{;}]{;6162={;}}"]


def enc_line(rng, g, method=None, quant_prob=0.7):
    toks, info = e2e.rand_options(rng, g, force_method=method, quant_prob=quant_prob, explicit=0.1)
    toks = [t for t in toks if not t.startswith("skip=")]
    if g.family_tag == "holey_grid" or g.family_tag == "seam_grid":
        toks = [t for t in toks if not t.startswith("g:compress_connectivity")]
    if rng.random() < 0.12:
        toks.append("meta=" + rng.choice(META))
    return "enc " + " ".join(toks) + " -- " + g.to_text()


class Stream:
    def __init__(self, name, data, is_mesh, family, present):
        self.name, self.data, self.is_mesh, self.family, self.present = name, data, is_mesh, family, present

    @property
    def cls(self):
        b = self.data
        if len(b) < 9:
            return "short"
        if b[8] == 0:
            return "seq"
        return "eb" if b[7] == 1 else "kd"


def run_encoder(lines, tag):
    """runs `enc` lines on the plain harness of the tree under test; returns outputs ('' when unavailable)"""
    try:
        hd = implside.ensure(["plain"])
    except SystemExit:
        return None
    wd = os.path.join(C.CACHE, "run", f"robustgen-{os.getpid()}")
    outs = implside.run_ops(hd["plain"], lines, wd, tag)
    import shutil
    shutil.rmtree(wd, ignore_errors=True)
    return outs


def base_streams(rng, n_generated, max_len=2600, legacy=True, legacy_max=3000, small=True):
    """valid streams: (generated through the real encoder) + testdata files"""
    geoms, lines = [], []
    for i in range(n_generated):
        g = rand_geometry(rng, small)
        g.family_tag = getattr(g, "family", "pc")
        if g.num_points == 0:
            continue
        # every method: sequential / (kd-tree | Edgebreaker)
        method = [0, 1, 1][i % 3] if g.family_tag not in ("holey_grid", "seam_grid") else 1
        geoms.append(g)
        lines.append(enc_line(rng, g, method))
    outs = run_encoder(lines, "enc") if lines else []
    streams = []
    if outs is None:
        return None
    for g, l, o in zip(geoms, lines, outs):
        if not o.startswith("ok "):
            continue
        data = bytes.fromhex(o.split()[1])
        if len(data) > max_len:
            continue
        present = sorted({a.att_type for a in g.atts})
        streams.append(Stream("gen:" + g.family_tag, data, g.is_mesh, g.family_tag, present))
    if legacy:
        td = os.path.join(C.REPO, "testdata")
        for f in sorted(os.listdir(td)) if os.path.isdir(td) else []:
            if not f.endswith(".drc"):
                continue
            data = open(os.path.join(td, f), "rb").read()
            if len(data) > legacy_max or len(data) < 11:
                continue
            streams.append(Stream("testdata:" + f, data, data[7] == 1, "testdata", [0, 1, 2, 3, 4]))
    return streams


# ------------------------------------------------------------------ mutations

def varint(v):
    out = bytearray()
    while True:
        if v >= 128:
            out.append((v & 127) | 128)
            v >>= 7
        else:
            out.append(v)
            return bytes(out)


def varint_len_at(b, o):
    k = o
    while k < len(b) and b[k] & 0x80 and k - o < 10:
        k += 1
    return min(len(b), k + 1) - o


BYTE_PATTERNS = ("00", "ff", "x01", "x80", "+1", "-1")
U32_PATTERNS = (0, 1, 0x7fffffff, 0x80000000, 0xffffffff)


def wrap_values():
    """values whose small multiples wrap around 2^32 (guards of the form k * n <= remaining)"""
    vs = set()
    for k in (2, 3, 4, 5, 6, 7, 8, 12):
        for j in range(1, k):
            base = -(-(j << 32) // k)
            vs.update((base, base + 1))
    return sorted(v for v in vs if 0 < v < (1 << 32))


def count_values(n):
    return [0, 1, 2, 255, 256, 1 << 16, 1 << 21, 1 << 24, (1 << 31) - 1, 1 << 31, (1 << 32) - 1, n, n + 1, 5 * n, 64 * n, 64 * n + 64,
            (0xffffffff // 3), (0xffffffff // 3) + 1]


def mut_byte(b, o, pat):
    x = bytearray(b)
    v = x[o]
    x[o] = {"00": 0, "ff": 255, "x01": v ^ 1, "x80": v ^ 0x80, "+1": (v + 1) & 255, "-1": (v - 1) & 255}[pat]
    return bytes(x)


def mut_u32(b, o, v):
    x = bytearray(b)
    x[o:o + 4] = struct.pack("<I", v & 0xffffffff)[:max(0, min(4, len(b) - o))]
    return bytes(x)


def mut_varint_cont(b, o, k, fill, last):
    """k continuation bytes followed by a terminal byte, written over the bytes at o"""
    x = bytearray(b)
    pat = bytes([fill | 0x80] * k + [last & 0x7f])
    x[o:o + len(pat)] = pat
    return bytes(x)


def mut_varint_field(b, o, v):
    """replace the varint starting at o by the encoding of v (length changes)"""
    return b[:o] + varint(v) + b[o + varint_len_at(b, o):]


def header_rewrites(rng, b, count):
    out = []
    majors, minors = [0, 1, 2, 3, 255], [0, 1, 2, 3, 4, 5, 255]
    types, methods, flags = [0, 1, 2, 255], [0, 1, 2, 255], [0, 0x8000, 0xffff, 0x7fff]
    combos = [(ma, mi, t, m, f) for ma in majors for mi in minors for t in types for m in methods for f in flags]
    pick = combos if count is None else rng.sample(combos, min(count, len(combos)))
    for (ma, mi, t, m, f) in pick:
        x = bytearray(b)
        if len(x) < 11:
            continue
        x[5], x[6], x[7], x[8] = ma, mi, t, m
        x[9], x[10] = f & 255, f >> 8
        out.append(("hdr", bytes(x)))
    for o in range(min(5, len(b))):
        out.append(("hdr_magic", mut_byte(b, o, "x01")))
    return out


def offsets(rng, n, dense, sample):
    """all offsets below `dense` plus `sample` random ones (None = all)"""
    if sample is None:
        return list(range(n))
    s = set(range(min(n, dense)))
    for _ in range(sample):
        if n:
            s.add(rng.randrange(n))
    return sorted(s)


# mutation profiles: (dense prefix, random offsets) per class, None = every offset
PROFILES = {
    # a few of everything (most streams of a quick run)
    "light": dict(trunc=(8, 8), byte=(0, 8), u32=(0, 5), varint=(0, 3), varint_k=(1, 5, 10), hdr=10, splice=2, multi=5,
                  count=(0, 6), count_vals="basic"),
    # dense treatment of the general mutation classes
    "dense": dict(trunc=(64, 60), byte=(64, 40), u32=(64, 30), varint=(32, 10), varint_k=range(1, 11), hdr=150, splice=10,
                  multi=40, count=(0, 10), count_vals="basic"),
    # dense treatment of count / size fields
    "counts": dict(trunc=(0, 4), byte=(0, 4), u32=(0, 2), varint=(0, 1), varint_k=(5,), hdr=4, splice=1, multi=2,
                   count=(160, 20), count_vals="all"),
    # everything (thorough tier, small streams)
    "full": dict(trunc=None, byte=None, u32=None, varint=None, varint_k=range(1, 11), hdr=None, splice=60, multi=200,
                 count=None, count_vals="all"),
}


def _offs(rng, n, spec):
    if spec is None:
        return list(range(n))
    return offsets(rng, n, spec[0], spec[1])


def mutations(rng, s, others, profile):
    """(tag, bytes) list for one valid stream under a mutation profile"""
    P = PROFILES[profile]
    b = s.data
    n = len(b)
    out = []
    for k in _offs(rng, n, P["trunc"]):
        out.append(("trunc", b[:k]))
    for o in _offs(rng, n, P["byte"]):
        for p in BYTE_PATTERNS:
            out.append(("byte_" + p, mut_byte(b, o, p)))
    for o in _offs(rng, n, P["u32"]):
        for v in U32_PATTERNS:
            out.append(("u32", mut_u32(b, o, v)))
    for o in _offs(rng, n, P["varint"]):
        for k in P["varint_k"]:
            out.append(("varint", mut_varint_cont(b, o, k, rng.choice([0x00, 0x7f]), rng.choice([0, 1, 0x7f]))))
    out += header_rewrites(rng, b, P["hdr"])
    for _ in range(P["splice"]):
        o2 = rng.choice(others).data if others else b
        cut1, cut2 = rng.randrange(n + 1), rng.randrange(len(o2) + 1)
        out.append(("splice", b[:cut1] + o2[cut2:]))
    for _ in range(P["multi"]):
        x = bytearray(b)
        for _ in range(rng.randint(2, 8)):
            o = rng.randrange(n)
            x[o] = rng.choice([0, 0xff, x[o] ^ (1 << rng.randrange(8)), rng.getrandbits(8)])
        out.append(("multi", bytes(x)))
    # count / size fields: fixed 32-bit and re-encoded varint
    vals = count_values(n) + (wrap_values() if P["count_vals"] == "all" else [])
    for o in _offs(rng, n, P["count"]):
        for v in vals:
            out.append(("count_u32", mut_u32(b, o, v)))
            out.append(("count_varint", mut_varint_field(b, o, v)))
    return out


# ------------------------------------------------------------------ cases

def parse_rdec(hout):
    """-> dict of the key=value tokens of the first section, plus 'dumps' (list) """
    parts = hout.split(" | ")
    d = {}
    for t in parts[0].split():
        if "=" in t:
            k, v = t.split("=", 1)
            d[k] = v
    d["dumps"] = parts[1:]
    return d


ENTRY = {"e1": "Decode{Mesh,PointCloud}FromBuffer", "e2": "DecodeBufferToGeometry(Mesh*)", "e3": "DecodeBufferToGeometry(PointCloud*)",
         "e4": "DecodeBufferToGeometry with SetSkipAttributeTransform", "e5": "DecodePointCloudFromBuffer on a mesh stream",
         "e6": "KeyframeAnimationDecoder::Decode"}
STATUSES = {"ok", "err", "err-version", "badalloc", "-"}


def replay_hint(case):
    return f"`{case.op[:120]}{'…' if len(case.op) > 120 else ''}` ({(len(case.op.split()[-1])) // 2} byte stream)"


def oracle_status(hout, case):
    """C02: every entry point returned ok or an error Status, the input bytes are unchanged, and the only
    abnormal exit (refused allocation) is for an array sized by a count the stream declares"""
    d = parse_rdec(hout)
    if "type" not in d:
        return ("rdec-malformed", f"malformed harness output `{hout[:200]}` for {replay_hint(case)}")
    for e in ("e1", "e2", "e3", "e4", "e5", "e6"):
        if d.get(e) not in STATUSES:
            return ("status-missing", f"{ENTRY[e]} did not return a Status ({d.get(e)}) for {replay_hint(case)}")
    if d.get("input") != "same":
        return ("input-modified", f"the decoder modified the caller's input bytes for {replay_hint(case)}")
    n = len(case.stream)
    declared = max(int(d.get("declared", 0)), int(d.get("declkf", 0)), int(d.get("geo", 0)))
    refused = int(d.get("refused", 0))
    if refused and refused > bound_single(n, declared):
        site = site_of(d.get("maxbt"), case.flavour)
        return (sig_of("alloc:", site), f"allocation of {refused} bytes requested in {site} (refused by the monitor) while decoding {n} bytes "
                f"declaring {declared} elements: not an array sized by a declared element count (bound {bound_single(n, declared)}) for {replay_hint(case)}")
    # a refusal by the live-memory cap is judged by C18 (peak of live memory), not here
    return None


def oracle_valid(hout, case):
    """C03: every geometry returned with an ok status is structurally valid"""
    d = parse_rdec(hout)
    if "valid" not in d:
        return ("rdec-malformed", f"malformed harness output `{hout[:200]}` for {replay_hint(case)}")
    if d["valid"] != "ok":
        e, _, what = d["valid"].partition(":")
        tk = next((t for t in case.tags if t.startswith("tamper:")), None)
        return ("decoded-geometry-invalid" + (":" + tk if tk else ""), f"{ENTRY.get(e, e)} reported success but the geometry is not structurally valid: "
                f"{what.replace('_', ' ')} for {replay_hint(case)}")
    return None


def _strip_templates(name):
    out, depth = [], 0
    for ch in name:
        if ch == "<":
            depth += 1
        elif ch == ">":
            depth -= 1
        elif depth == 0:
            out.append(ch)
    return "".join(out)


SITE_SKIP = ("draco::DataBuffer::", "draco::PointAttribute::Reset", "draco::GeometryAttribute::", "draco::IndexTypeVector")


def sig_of(kind, site):
    """one defect = one signature: the kd-tree decoder's stacks are reported as `peak:` whichever limit trips first"""
    if site == "draco::DynamicIntegerPointsKdTreeDecoder::DynamicIntegerPointsKdTreeDecoder":
        return "peak:" + site
    return kind + site


def site_of(bt, flavour):
    """first draco:: function on a recorded call stack (addr2line on the harness executable); '?' when unknown"""
    offs = [x for x in (bt or "-").split(",") if x not in ("-", "0", "")]
    if not offs:
        return "?"
    exe = os.path.join(C.CACHE, "build-" + flavour, "harness", EXE)
    rc, out, _ = C.run(["addr2line", "-f", "-C", "-i", "-e", exe] + ["0x" + o for o in offs], timeout=60)
    if rc != 0:
        return "?"
    # -i lists inlined callers too (builds with debug info), innermost first: the first draco:: function is the site
    for line in out.split("\n")[::2]:
        if line.startswith("draco::"):
            head = _strip_templates(line.split("(")[0])
            if " " in head.strip() or "std::" in head:
                continue        # a std:: member whose return type is a draco type
            name = head.replace(" ", "")
            if name.startswith(SITE_SKIP):
                continue        # generic containers: the caller is the site
            return name
    return "?"


def oracle_alloc(hout, case):
    """C18: largest single request and peak of live bytes within the bound"""
    d = parse_rdec(hout)
    if d.get("mon") != "1":
        return ("no-monitor", f"allocation monitor not active: `{hout[:200]}`")
    n = len(case.stream)
    declared = max(int(d.get("declared", 0)), int(d.get("declkf", 0)), int(d.get("geo", 0)))
    mx, peak, refused = int(d["max"]), int(d["peak"]), int(d["refused"])
    big = max(mx, refused)
    if big > bound_single(n, declared):
        site = site_of(d.get("maxbt"), case.flavour)
        return (sig_of("alloc:", site), f"single allocation request of {big} bytes in {site} while decoding a {n}-byte stream declaring {declared} "
                f"elements exceeds {A_SINGLE} + {K_SINGLE}*(len + declared) = {bound_single(n, declared)} (entry {ENTRY.get(d.get('at'), d.get('at'))}) for {replay_hint(case)}")
    peak = max(peak, int(d.get("refusedlive", 0)))
    if peak > bound_peak(n, declared):
        site = site_of(d.get("peakbt"), case.flavour)
        return ("peak:" + site, f"live memory reached {peak} bytes (growing in {site}) while decoding a {n}-byte stream declaring {declared} elements: "
                f"exceeds {A_PEAK} + {K_PEAK}*(len + declared) = {bound_peak(n, declared)} for {replay_hint(case)}")
    return None


def crash_signature(hout):
    """stable signature of an abnormal end of the harness process (sanitizer report, signal, watchdog)"""
    m = re.search(r"([A-Za-z0-9_]+\.(?:h|cc)):\d+:\d+: runtime error: ([a-zA-Z -]+?)\s*(?=[-0-9:']|$)", hout)
    if m:
        return "ub:" + m.group(1) + ":" + m.group(2).strip().replace(" ", "-")
    m = re.search(r"ERROR: AddressSanitizer: ([A-Za-z-]+)", hout)
    if m:
        return "asan:" + m.group(1)
    if "watchdog" in hout or hout.startswith("CRASH timeout"):
        return "hang"
    if "SIGSEGV" in hout or "SIGBUS" in hout or "rc=-11" in hout or "rc=139" in hout:
        return "segv-guard" if "guarded" in hout else "segv"
    m = re.search(r"terminate called|what\(\)", hout)
    if m:
        return "uncaught-exception"
    return "crash"


def stream_class_detail(data):
    """stream class for signatures: seq | eb | kd | kd-legacy-int | kd-legacy-float | short"""
    b = bytes(data)
    if len(b) < 11:
        return "short"
    if b[8] == 0:
        return "seq"
    if b[7] == 1:
        return "eb"
    if (b[5] << 8 | b[6]) >= 0x0203:
        return "kd"
    for f in stream_fields(b):
        if f.name == "kdlegacy.method":
            return "kd-legacy-int" if f.value == 1 else "kd-legacy-float"
    return "kd-legacy"


def oracle_crash(hout, case):
    """C02: no abnormal end (sanitizer report = out-of-bounds access / undefined behaviour / assertion, signal on the
    guarded input, watchdog = the call does not return)"""
    if not hout.startswith("CRASH"):
        return None
    sig = crash_signature(hout)
    if sig == "hang":
        sig = "hang:" + stream_class_detail(getattr(case, "stream", b""))
    what = "the decoder did not return within the watchdog time" if sig.startswith("hang") else "the decoder did not return a Status"
    return (sig, f"{what}: {hout[6:400]} for {replay_hint(case)}")


def model_class(mpart):
    if mpart.startswith("ok "):
        return "ok"
    if mpart.startswith("unsupported"):
        return "unsupported"
    return mpart.split()[0] if mpart else "?"


def _is_nan32(w):
    v = int.from_bytes(w, "little")
    return (v >> 23) & 0xff == 0xff and v & 0x7fffff != 0


def same_dump(a, b):
    """equality of two `dec` result texts up to the bit pattern of float32 NaN values (payload and sign of a NaN
    produced by arithmetic are not defined deterministically)"""
    if a == b:
        return True
    ta, tb = a.split(), b.split()
    if len(ta) != len(tb) or ta[:2] != tb[:2] or ta[0] != "ok":
        return False
    try:
        ga, pa = G.parse_geom(ta, 2)
        gb, pb = G.parse_geom(tb, 2)
    except (ValueError, IndexError):
        return False
    if pa != pb or ta[pa:] != tb[pb:]:
        return False
    if (ga.is_mesh, ga.num_points, ga.faces, len(ga.atts)) != (gb.is_mesh, gb.num_points, gb.faces, len(gb.atts)):
        return False
    for x, y in zip(ga.atts, gb.atts):
        if (x.att_type, x.dtype, x.ncomp, x.normalized, x.uid, x.num_values, x.map, x.transform, len(x.values)) != \
           (y.att_type, y.dtype, y.ncomp, y.normalized, y.uid, y.num_values, y.map, y.transform, len(y.values)):
            return False
        if x.values != y.values:
            if x.dtype != G.DT["f32"]:
                return False
            for k in range(0, len(x.values) - 3, 4):
                wa, wb = x.values[k:k + 4], y.values[k:k + 4]
                if wa != wb and not (_is_nan32(wa) and _is_nan32(wb)):
                    return False
    return True


def expect_model(hout, mout, case):
    """correspondence: status (every stream the model decides), geometry + consumed bytes (sequential streams),
    declared counts"""
    d = parse_rdec(hout)
    if "type" not in d or mout is None or hout.startswith("CRASH"):
        return None
    mp = mout.split(" | ")
    if len(mp) != 3:
        return f"model output malformed: {mout[:200]}"
    mkv = dict(t.split("=", 1) for t in mp[2].split() if "=" in t)
    for which, e, di in ((0, "e1", 0), (1, "e4", 1)):
        mc = model_class(mp[which])
        if mc == "unsupported":
            continue
        ist = d.get(e)
        if ist == "-":
            ist = "err" if d.get("type") not in ("mesh", "pc") else ist
            if d.get("type") == "err-version":
                ist = "err-version"
        if ist == "badalloc":
            continue            # the implementation was stopped by the allocation cap; the model has no cap
        if mc != ist:
            return f"{ENTRY[e]}: implementation `{ist}` model `{mp[which][:80]}` for {replay_hint(case)}"
        if mc == "ok" and len(d["dumps"]) > di:
            if not same_dump(d["dumps"][di], mp[which]):
                return (f"{ENTRY[e]}: decoded geometry / consumed bytes differ: implementation `{d['dumps'][di][:300]}` "
                        f"model `{mp[which][:300]}` for {replay_hint(case)}")
    seq = len(case.stream) > 8 and case.stream[8] == 0
    if seq and not mp[0].startswith("unsupported"):
        if int(mkv.get("declared", 0)) != int(d.get("declared", 0)) and d.get("e1") != "badalloc":
            return (f"declared element count: harness parse {d.get('declared')} model {mkv.get('declared')} for {replay_hint(case)}")
    if mkv.get("valid") == "0" and seq:
        return f"model accepted a geometry that is not valid (contradicts decode_ok_valid) for {replay_hint(case)}"
    return None


def is_legacy_kd(data):
    """a kd-tree point cloud stream of a bitstream older than 2.3 (decoded by DracoModel/KdTreeLegacy.lean)"""
    return len(data) >= 11 and data[:5] == b"DRACO" and data[7] == 0 and data[8] == 1 and (data[5], data[6]) < (2, 3)


def model_decides(data, base):
    """False when nothing would be compared: a kd-tree / Edgebreaker stream (method byte != 0) whose 11 header bytes
    are those of the valid stream it was derived from (those families are compared with the model by their own `dec`
    cases, foreign_corrupt_cases); legacy kd-tree streams are decided here (status, geometry, consumed bytes)"""
    if base is None or len(data) < 11 or len(base) < 11:
        return True
    return data[8] == 0 or data[:11] != base[:11] or is_legacy_kd(data)


def make_case(data, skip, flavour, oracles, tags, with_model=True, cap=CAP, base=None):
    with_model = with_model and model_decides(data, base)
    hx = data.hex() or "-"
    dump = len(data) > 8 and (data[8] == 0 or is_legacy_kd(data))
    op = f"rdec cap={cap} skip={skip} " + ("dump=1 " if dump else "") + hx

    def oracle(hout, case):
        v = oracle_crash(hout, case)
        if v is not None:
            return v
        d = parse_rdec(hout)
        acc = [e for e in ("e1", "e2", "e3", "e4", "e5", "e6") if d.get(e) == "ok"]
        oc = ("accepted" if acc else "rejected") if "type" in d else "?"
        tk = next((t for t in case.tags if t.startswith("tamper:")), None)
        case.tags = tuple(case.tags) + ("outcome:" + oc,) + ((tk + ":" + oc,) if tk else ())
        for f in oracles:
            v = f(hout, case)
            if v is not None:
                return v
        return None
    def model(hout):
        # a stream on which the allocation cap stopped the implementation is not given to the model (no cap there)
        if hout is None or hout.startswith("CRASH") or " refused=0 refusedlive=0 " not in hout:
            return None
        # the list-based model needs ~15 µs per declared element: correspondence is checked up to MODEL_MAX_DECLARED
        m = re.search(r" declared=(\d+) declkf=(\d+) ", hout)
        if m and max(int(m.group(1)), int(m.group(2))) > MODEL_MAX_DECLARED:
            return None
        return f"rdec {skip} {hx}"
    c = Case(op, model=(model if with_model else False), expect=expect_model, oracle=oracle,
             flavour=flavour, tags=tags, exe=EXE, note="rdec")
    c.crash_ok = True        # abnormal ends are judged by oracle_crash (signature from the report)
    c.stream = data
    return c


def selftest_cases(flavour):
    """the guard pages, the allocation cap and the watchdog must report (crash_ok cases)"""
    out = []
    for m in ("over", "under", "write"):
        c = Case(f"rselftest {m}", model=False, flavour=flavour, exe=EXE, tags=("selftest",), nontrivial=False,
                 oracle=lambda hout, case: None if hout.startswith("CRASH") else ("selftest-guard", f"`{case.op}` was not stopped by the guard pages: {hout}"))
        c.crash_ok = True
        out.append(c)
    c = Case("rselftest bigalloc", model=False, flavour=flavour, exe=EXE, tags=("selftest",), nontrivial=False,
             oracle=lambda hout, case: None if hout == f"badalloc {3 << 30}" else ("selftest-cap", f"allocation cap did not refuse 3 GiB: {hout}"))
    out.append(c)
    return out


KD_QUADRATIC = ("445241434f02030001000002000000011400" + "04ff000000" * 19 + "04ff0000" +
                "000d000000020000000101000c000000c36c0b34310a1bc00000bc8504000000000000000400000000000000")


LEGACY_KD_INNER_COUNT = ("445241434f020200010000640000000101000604000001026400000000000000fcffff7f"
                         "010100040000000000000004000000000000000400000000000000")


LEGACY_KD_FLOAT_INNER_COUNT = "445241434f020200010000010000000101000903000000060100000003000000010800000022e65c44010000000600000009000000ffffff7f01010001010001010001010001010001010001010001010001010001010001010001010001010001010001010001010001010001010001010001010001010001010001010001010001010001010001010001010001010001010001010001010001010004000000c0df53ff04000000000000000400000000000000"


def regression_cases(flavour, oracles, kd=True):
    """streams of earlier findings, run first: (1) testdata/cube_att.obj.edgebreaker.cl10.2.2.drc with num_orientations
    (int32 at offset 172) = 2^31-1: before fix 008c24a the portable tex-coord decoder requested 256 MiB for it;
    (2) the 161-byte kd-tree stream with 20 attributes of 255 components (known finding: quadratic stacks)"""
    out = []
    p = os.path.join(C.REPO, "testdata", "cube_att.obj.edgebreaker.cl10.2.2.drc")
    if os.path.exists(p):
        b = bytearray(open(p, "rb").read())
        if len(b) >= 176:
            b[172:176] = bytes.fromhex("ffffff7f")
            out.append(make_case(bytes(b), "01234", flavour, oracles, ("regression", "tex_coords_portable_orientations")))
    # (3) Edgebreaker stream with one impossible traversal symbol (tamper campaign): before fix dcc9947 it was accepted
    # with three points that no face uses and that map to kInvalidAttributeValueIndex
    p = os.path.join(os.path.dirname(os.path.abspath(__file__)), "data", "robust_regression_eb_tamper.hex")
    if os.path.exists(p):
        out.append(make_case(bytes.fromhex(open(p).read().strip()), "01234", flavour, oracles,
                             ("regression", "tamper:traversal_symbol")))
    # (4) legacy (2.2) integer kd-tree stream whose payload declares 2^31-4 points for a 100-point cloud: before fix
    # c9df685 it was accepted after 2^31 loop iterations per decode call (watchdog); it must be rejected promptly
    out.append(make_case(bytes.fromhex(LEGACY_KD_INNER_COUNT), "01234", flavour, oracles, ("regression", "legacy_kd_inner_count")))
    # (5) legacy float kd-tree stream (all validated counts 1) whose embedded integer tree declares 2^31-1 points: before
    # fix 63027a3 the quantized point vector grew without bound; it must be rejected with small allocations
    out.append(make_case(bytes.fromhex(LEGACY_KD_FLOAT_INNER_COUNT), "01234", flavour, oracles,
                         ("regression", "legacy_kd_float_inner_count")))
    if kd:
        out.append(make_case(bytes.fromhex(KD_QUADRATIC), "01234", flavour, oracles, ("regression", "kd_quadratic_stacks")))
    return out


def replay_cases(lines, oracles, flavour):
    out = []
    for l in lines:
        t = l.split()
        if not t or t[0] != "rdec":
            out.append(Case(l, model=False, flavour=flavour, exe=EXE))
            continue
        hx = t[-1]
        skip = next((x[5:] for x in t if x.startswith("skip=")), "01234")
        cap = next((int(x[4:]) for x in t if x.startswith("cap=")), CAP)
        out.append(make_case(bytes.fromhex(hx) if hx != "-" else b"", skip, flavour, oracles, ("replay",), cap=cap))
    return out


def foreign_corrupt_cases(rng, tier, flavour="asan"):
    """corrupt-stream families of the Edgebreaker / kd-tree / legacy-bitstream slices (harness op `dec` against the
    complete Lean decoder: accept / reject and geometry must agree); empty when a module is missing"""
    out = []
    try:
        from . import ebcases
        out += ebcases.corrupt_cases(rng, ebcases.seed_streams(rng, 10 if tier == "quick" else 30),
                                     per_stream=30 if tier == "quick" else 80, flavour=flavour)
    except Exception as ex:       # noqa: BLE001 - optional families
        C.log(f"[robustgen] ebcases not used: {ex}")
    try:
        from . import kdcases
        out += kdcases.kd_corrupt_cases(rng, tier)
    except Exception as ex:       # noqa: BLE001
        C.log(f"[robustgen] kdcases not used: {ex}")
    try:
        from . import legacycases
        out += legacycases.rewrite_cases(flavour=flavour)
        out += legacycases.corrupt_cases(rng, per_stream=20 if tier == "quick" else 60, flavour=flavour)
    except Exception as ex:       # noqa: BLE001
        C.log(f"[robustgen] legacycases not used: {ex}")
    try:
        from . import kdlegacy
        out += kdlegacy.corrupt_cases(rng, tier, flavour=flavour)
    except Exception as ex:       # noqa: BLE001
        C.log(f"[robustgen] kdlegacy not used: {ex}")
    try:
        from . import meshlegacy
        out += meshlegacy.corrupt_cases(rng, tier, flavour=flavour)
    except Exception as ex:       # noqa: BLE001
        C.log(f"[robustgen] meshlegacy not used: {ex}")
    return out


def build_error_case():
    return [Case("rselftest bigalloc", model=False, exe=EXE)]


# ================================================================== structure-aware field corruption
# Offsets of the small-integer fields of a stream: header-level fields parsed here (sequential and kd-tree layouts are
# fixed), Edgebreaker fields from the `at:` offset tags of the Lean decoder model (driver op `ebtrace`).

class _Rd:
    def __init__(self, b, pos=0):
        self.b, self.pos = b, pos

    def u8(self):
        if self.pos >= len(self.b):
            raise IndexError
        self.pos += 1
        return self.b[self.pos - 1]

    def u32(self):
        if self.pos + 4 > len(self.b):
            raise IndexError
        self.pos += 4
        return int.from_bytes(self.b[self.pos - 4:self.pos], "little")

    def varint(self):
        v, sh = 0, 0
        for _ in range(10):
            x = self.u8()
            v |= (x & 0x7f) << sh
            sh += 7
            if not x & 0x80:
                return v
        raise IndexError

    def skip(self, n):
        if self.pos + n > len(self.b):
            raise IndexError
        self.pos += n


class Field:
    """kind: 'byte' | 'u32' | 'varint' | 'nibbles' (a run of 32-bit words read 4 bits at a time, MSB first)"""
    def __init__(self, off, kind, name, value=0, length=1):
        self.off, self.kind, self.name, self.value, self.length = off, kind, name, value, length


def _count_field(r, fields, fixed, name):
    o = r.pos
    v = r.u32() if fixed else r.varint()
    fields.append(Field(o, "u32" if fixed else ("byte" if r.pos - o == 1 else "varint"), name, v, r.pos - o))
    return v


def _att_descs(r, fields, ver, tag):
    n = _count_field(r, fields, ver < 0x0200, tag + ".num_attributes")
    if n > 64:
        raise IndexError
    for i in range(n):
        for nm in ("att_type", "data_type", "num_components", "normalized"):
            fields.append(Field(r.pos, "byte", f"{tag}.{nm}", r.b[r.pos] if r.pos < len(r.b) else 0))
            r.u8()
        if ver < 0x0103:
            r.skip(2)
        else:
            _count_field(r, fields, False, tag + ".unique_id")
    return n


def _bit_section(r, fields, kind, ver, name):
    """RAnsBitDecoder / DirectBitDecoder section; returns (data offset, size)"""
    if kind == "rans":
        fields.append(Field(r.pos, "byte", name + ".prob_zero", r.b[r.pos] if r.pos < len(r.b) else 0))
        r.u8()
        size = _count_field(r, fields, ver < 0x0202, name + ".size")
    else:
        size = _count_field(r, fields, True, name + ".size_in_bytes")
    o = r.pos
    r.skip(size)
    return o, size


def _kd_payload(r, fields, ver, level):
    """DynamicIntegerPointsKdTreeDecoder<level>::DecodePoints: bit_length, num_points, the bit-coder sections"""
    _count_field(r, fields, True, "kd.bit_length")
    _count_field(r, fields, True, "kd.num_points")
    if level > 6:
        return
    if level >= 4:
        for i in range(33):
            _bit_section(r, fields, "rans", ver, f"kd.numbers[{i}]")
    elif level >= 2:
        _bit_section(r, fields, "rans", ver, "kd.numbers")
    else:
        _bit_section(r, fields, "direct", ver, "kd.numbers")
    _bit_section(r, fields, "direct", ver, "kd.remaining_bits")
    o, size = _bit_section(r, fields, "direct", ver, "kd.axis")
    fields.append(Field(o, "nibbles", "kd.axis.words", 0, size))
    _bit_section(r, fields, "direct", ver, "kd.half")


def stream_fields(data, trace=None):
    """list of Field for the parts of `data` whose layout is known; best effort, stops where the layout ends"""
    b = bytes(data)
    fields = []
    if len(b) < 11 or b[:5] != b"DRACO":
        return fields
    for o, nm in ((5, "major"), (6, "minor"), (7, "encoder_type"), (8, "encoder_method"), (9, "flags_lo"), (10, "flags_hi")):
        fields.append(Field(o, "byte", "header." + nm, b[o]))
    ver = b[5] << 8 | b[6]
    typ, method, flags = b[7], b[8], b[9] | b[10] << 8
    if flags & 0x8000 or typ > 1:
        return fields
    r = _Rd(b, 11)
    try:
        if typ == 0:
            _count_field(r, fields, True, "pc.num_points")
            nd = r.b[r.pos]
            fields.append(Field(r.pos, "byte", "num_attributes_decoders", nd))
            r.u8()
            if nd == 0 or nd > 8:
                return fields
            # DecodeAttributesDecoderData of every decoder comes first (descriptors; sequential: + decoder types)
            for d in range(nd):
                natt = _att_descs(r, fields, ver, "att")
                if method == 0:
                    for i in range(natt):
                        fields.append(Field(r.pos, "byte", "seq.decoder_type", r.b[r.pos]))
                        r.u8()
            if method == 0:
                return fields
            if nd > 1:
                if ver < 0x0203:
                    return fields
                # kd-tree 2.3: the payloads of the decoders follow one another
                for d in range(nd):
                    level = r.b[r.pos]
                    fields.append(Field(r.pos, "byte", "kd.compression_level", level))
                    r.u8()
                    _kd_payload(r, fields, ver, level)
                return fields
            if ver < 0x0203:
                # legacy kd-tree attribute data: method, compression level, a second point count, then the payload of
                # the integer kd-tree coder (method 1) or of the float points tree (method 0) with its own third count
                meth = r.b[r.pos]
                fields.append(Field(r.pos, "byte", "kdlegacy.method", meth))
                r.u8()
                level = r.b[r.pos]
                fields.append(Field(r.pos, "byte", "kdlegacy.compression_level", level))
                r.u8()
                _count_field(r, fields, True, "kdlegacy.att_num_points")
                if meth == 0:
                    _count_field(r, fields, True, "kdfloat.version")
                    fields.append(Field(r.pos, "byte", "kdfloat.method", r.b[r.pos]))
                    r.u8()
                    _count_field(r, fields, True, "kdfloat.quantization_bits")
                    _count_field(r, fields, True, "kdfloat.range")
                    _count_field(r, fields, True, "kdfloat.num_points")
                    level = _count_field(r, fields, True, "kdfloat.compression_level")
                _kd_payload(r, fields, ver, level)
                return fields
            level = r.b[r.pos]
            fields.append(Field(r.pos, "byte", "kd.compression_level", level))
            r.u8()
            _kd_payload(r, fields, ver, level)
            return fields
        if method == 0:
            nf = _count_field(r, fields, ver < 0x0202, "mesh.num_faces")
            np_ = _count_field(r, fields, ver < 0x0202, "mesh.num_points")
            cm = r.b[r.pos]
            fields.append(Field(r.pos, "byte", "mesh.connectivity_method", cm))
            r.u8()
            if cm == 0:
                return fields
            if np_ < 256:
                r.skip(3 * nf)
            elif np_ < 65536:
                r.skip(6 * nf)
            elif np_ < (1 << 21) and ver >= 0x0202:
                for _ in range(3 * nf):
                    r.varint()
            else:
                r.skip(12 * nf)
            nd = r.b[r.pos]
            fields.append(Field(r.pos, "byte", "num_attributes_decoders", nd))
            r.u8()
            if nd == 0 or nd > 8:
                return fields
            for d in range(nd):
                natt = _att_descs(r, fields, ver, "att")
                for i in range(natt):
                    fields.append(Field(r.pos, "byte", "seq.decoder_type", r.b[r.pos]))
                    r.u8()
            return fields
        # Edgebreaker
        fields.append(Field(r.pos, "byte", "eb.traversal_decoder_type", r.b[r.pos]))
        r.u8()
        if ver < 0x0202:
            _count_field(r, fields, ver < 0x0200, "eb.num_new_vertices")
        for nm in ("eb.num_encoded_vertices", "eb.num_faces"):
            _count_field(r, fields, ver < 0x0200, nm)
        fields.append(Field(r.pos, "byte", "eb.num_attribute_data", r.b[r.pos]))
        r.u8()
        for nm in ("eb.num_encoded_symbols", "eb.num_encoded_split_symbols"):
            _count_field(r, fields, ver < 0x0200, nm)
    except IndexError:
        return fields
    if trace:
        n = len(b)
        try:
            for t in trace.split(" ", 1)[1].split(","):
                f = t.split(":")
                if f[0] != "at" or len(f) < 3:
                    continue
                k = f[1]
                if k == "att_decoders":
                    o = n - int(f[2])
                    nd = b[o]
                    fields.append(Field(o, "byte", "num_attributes_decoders", nd))
                    per = 3 if ver >= 0x0102 else 2
                    for i in range(min(nd, 16)):
                        for j, nm in enumerate(("att_data_id", "decoder_type", "traversal_method")[:per]):
                            p = o + 1 + per * i + j
                            if p < n:
                                fields.append(Field(p, "byte", f"eb.decoder[{i}].{nm}", b[p]))
                    # DecodeAttributesDecoderData of every decoder follows: descriptors, then one decoder type per attribute
                    try:
                        rr = _Rd(b, o + 1 + per * nd)
                        for i in range(min(nd, 16)):
                            na = _att_descs(rr, fields, ver, "eb.att")
                            for j in range(na):
                                fields.append(Field(rr.pos, "byte", "eb.seq_decoder_type", rr.b[rr.pos]))
                                rr.u8()
                    except IndexError:
                        pass
                elif k in ("constrained_mode", "normal_mode", "valence_contexts", "rans", "traversal", "orientations"):
                    o = n - int(f[2])
                    if 0 <= o < n:
                        fields.append(Field(o, "byte", "eb." + k, b[o]))
                    if k in ("traversal", "orientations") and 0 <= o < n:
                        try:
                            _count_field(_Rd(b, o), fields, False, "eb." + k + ".size")
                        except IndexError:
                            pass
                elif k == "valence_context_count":
                    try:
                        _count_field(_Rd(b, n - int(f[2])), fields, False, "eb.valence_context_count")
                    except IndexError:
                        pass
                elif k == "events":
                    o = n - int(f[2])
                    try:
                        rr = _Rd(b, o)
                        ne = _count_field(rr, fields, False, "eb.num_topology_splits")
                        for _ in range(min(2 * ne, 16)):
                            _count_field(rr, fields, False, "eb.split_id_delta")
                    except IndexError:
                        pass
        except (ValueError, IndexError):
            pass
    return fields


SMALL_VALUES = (0, 1, 2, 3, 4, 5, 6, 7, 8, 0x0f, 0x10, 0x7e, 0x7f, 0x80, 0x81, 0xfe, 0xff)


def eb_decoder_head_mutations(data, fields):
    """multi-byte edits of the Edgebreaker attribute decoder heads ((att_data_id, decoder type, traversal method) per
    decoder): every permutation of two heads, every head copied over another one, decoder count +-1: decoders that
    claim each other's connectivity data / the position data, mixed vertex / corner decoder types"""
    out = []
    heads = {}
    for f in fields:
        m = re.match(r"eb\.decoder\[(\d+)\]\.(att_data_id|decoder_type|traversal_method)$", f.name)
        if m:
            heads.setdefault(int(m.group(1)), {})[m.group(2)] = f.off
    ids = sorted(i for i, h in heads.items() if "att_data_id" in h)
    if len(ids) < 2:
        return out
    per = len(heads[ids[0]])
    def head(i):
        o = heads[i]["att_data_id"]
        return o, bytes(data[o:o + per])
    for i in ids:
        for j in ids:
            if i == j:
                continue
            oi, hi = head(i)
            oj, hj = head(j)
            x = bytearray(data)
            x[oi:oi + per] = hj          # head j copied over head i
            out.append(("field:eb.decoder_head_copy", bytes(x)))
            if i < j:
                x = bytearray(data)
                x[oi:oi + per], x[oj:oj + per] = hj, hi
                out.append(("field:eb.decoder_head_swap", bytes(x)))
    return out


def field_mutations(data, fields, exhaustive=False, max_nibbles=24):
    """(tag, bytes): every located small-integer field set to 0, 1, 2, …, value±1, 0x7f, 0x80, 0xff (every value of
    the byte when `exhaustive`), every axis nibble to every value, counts also to 2^16, 2^31-1, 2^32-1"""
    out = []
    seen = set()
    for f in fields:
        if (f.off, f.kind) in seen:
            continue
        seen.add((f.off, f.kind))
        if f.kind == "byte":
            vals = range(256) if exhaustive else sorted(set(SMALL_VALUES) | {(f.value + 1) & 255, (f.value - 1) & 255,
                                                                           (f.value + 2) & 255, f.value ^ 0x80})
            for v in vals:
                if v != data[f.off]:
                    x = bytearray(data)
                    x[f.off] = v
                    out.append(("field:" + f.name.split("[")[0], bytes(x)))
        elif f.kind in ("u32", "varint"):
            vals = sorted({0, 1, 2, max(0, f.value - 1), f.value + 1, 2 * f.value, 0x7f, 0x80, 0xff, 0x100, 1 << 16, 1000000, 1 << 24, (1 << 31) - 1,
                           1 << 31, (1 << 32) - 1, (1 << 32) - 4, 0x7ffffffc, len(data), len(data) + 1})
            for v in vals:
                if v == f.value:
                    continue
                if f.kind == "u32":
                    out.append(("field:" + f.name.split("[")[0], mut_u32(data, f.off, v)))
                else:
                    out.append(("field:" + f.name.split("[")[0], data[:f.off] + varint(v) + data[f.off + f.length:]))
                    if v >= 1 << 31:
                        # 10-byte varint with the high bits set (64-bit size fields)
                        out.append(("field:" + f.name.split("[")[0], data[:f.off] + varint((1 << 64) - 1 - (v & 0xff)) + data[f.off + f.length:]))
        elif f.kind == "nibbles":
            words = f.length // 4
            k = 0
            for w in range(words):
                for nb in range(8):
                    if k >= max_nibbles and not exhaustive:
                        break
                    k += 1
                    bo = f.off + 4 * w + 3 - nb // 2
                    for v in range(16):
                        x = bytearray(data)
                        x[bo] = (x[bo] & 0x0f) | (v << 4) if nb % 2 == 0 else (x[bo] & 0xf0) | v
                        if x[bo] != data[bo]:
                            out.append(("field:" + f.name, bytes(x)))
    return out


def corner_grid(rng):
    """small quad grid with shared positions, a per-corner attribute (every corner its own value: points >= 2 x
    vertices) and a per-vertex generic attribute: three Edgebreaker attribute decoders"""
    n = rng.randint(2, 3)
    faces_v = []
    for y in range(n):
        for x in range(n):
            a, b, c, d = y * (n + 1) + x, y * (n + 1) + x + 1, (y + 1) * (n + 1) + x, (y + 1) * (n + 1) + x + 1
            faces_v += [(a, b, d), (a, d, c)]
    nv = (n + 1) * (n + 1)
    ncorn = 3 * len(faces_v)
    faces = [(3 * i, 3 * i + 1, 3 * i + 2) for i in range(len(faces_v))]
    cv = [v for f in faces_v for v in f]
    pos = b"".join(struct.pack("<fff", float(v % (n + 1)), float(v // (n + 1)), G.f32(0.1 * ((v * 7) % 5))) for v in range(nv))
    atts = [G.Attr(G.POSITION, G.DT["f32"], 3, False, 0, nv, list(cv), pos),
            G.Attr(rng.choice([G.COLOR, G.TEX_COORD, G.GENERIC]), G.DT["u8"], 2, False, 1, ncorn, list(range(ncorn)),
                   bytes(rng.getrandbits(8) for _ in range(2 * ncorn))),
            G.Attr(G.GENERIC, G.DT[rng.choice(["u8", "u16", "i16"])], 1, False, 2, nv, list(cv), b"")]
    a = atts[2]
    a.values = bytes(rng.getrandbits(8) for _ in range(nv * a.stride))
    g = G.Geom(True, ncorn, faces, atts)
    g.family = "corner_grid"
    return g


def kd_int_cloud(rng):
    """integer point cloud for the kd-tree coder with >= 64 points per node at the root and total dimension 2..8"""
    n = rng.choice([70, 100, 130, 200])
    dims = rng.choice([(2,), (3,), (3, 1), (3, 2), (2, 2, 1), (3, 3, 2), (3, 4), (1, 1)])
    atts = []
    for k, c in enumerate(dims):
        dt = rng.choice(["u32", "u16", "u32", "i32", "u8"])
        t = G.POSITION if k == 0 else G.GENERIC
        lim = {"u32": 1 << rng.choice([8, 16, 24]), "u16": 1 << 12, "i32": 1 << 14, "u8": 256}[dt]
        fmt = "<" + G.DT_FMT[G.DT[dt]] * c
        vals = b"".join(struct.pack(fmt, *[rng.randrange(lim) for _ in range(c)]) for _ in range(n))
        atts.append(G.Attr(t, G.DT[dt], c, False, k, n, None, vals))
    g = G.Geom(False, n, [], atts)
    g.family = "kd_int_cloud"
    return g


def small_seq_mesh(rng):
    """sequential meshes with very few points (raw and compressed indices)"""
    g = G.rand_mesh(rng, rng.choice([2, 3, 4, 6]), specs=[(G.POSITION, G.DT[rng.choice(["f32", "i16", "u8"])], 3, False, 0)] +
                    ([(G.GENERIC, G.DT[rng.choice(["u8", "i8", "u16"])], rng.randint(1, 3), False, 1)] if rng.random() < 0.6 else []))
    g.family = "small_seq_mesh"
    return g


def structured_bases(rng, n_each):
    """valid streams on which field damage is visible: (Stream, model trace or None)"""
    geoms, lines = [], []
    for _ in range(n_each):
        g = corner_grid(rng)
        sp = rng.choice([0, 1, 3, 5, 7, 10])
        lines.append(f"enc method=1 speed={sp},{sp} " + (f"expert=1 submethod={rng.choice([0, 2])} " if rng.random() < 0.4 else "")
                     + "q0=" + str(rng.choice([8, 11, 14])) + " -- " + g.to_text())
        geoms.append(g)
        g = seam_grid(rng)
        lines.append(f"enc method=1 speed={sp},{sp} q0=10 -- " + g.to_text())
        geoms.append(g)
        g = kd_int_cloud(rng)
        sp = rng.choice([0, 1, 2, 3, 4, 4, 6, 8])
        lines.append(f"enc method=1 speed={sp},{sp} -- " + g.to_text())
        geoms.append(g)
        g = small_seq_mesh(rng)
        toks = ["method=0"] + (["expert=1", f"g:compress_connectivity={rng.choice([0, 1])}"] if rng.random() < 0.7 else [])
        lines.append("enc " + " ".join(toks) + " -- " + g.to_text())
        geoms.append(g)
        # triangle fan whose highest point id is referenced by the very last corner only (entropy-coded and raw
        # indices): a point count lowered by one leaves exactly that corner out of range
        n = rng.randint(4, 14)
        pos = b"".join(struct.pack("<fff", float(i), float(i * i % 5), 0.0) for i in range(n))
        g = G.Geom(True, n, [(0, i, i + 1) for i in range(1, n - 1)], [G.Attr(G.POSITION, G.DT["f32"], 3, False, 0, n, None, pos)])
        g.family = "last_corner_fan"
        lines.append(f"enc method=0 expert=1 g:compress_connectivity={len(geoms) % 2} -- " + g.to_text())
        geoms.append(g)
    outs = run_encoder(lines, "encs")
    if outs is None:
        return None
    streams = []
    for g, o in zip(geoms, outs):
        if o.startswith("ok "):
            data = bytes.fromhex(o.split()[1])
            if len(data) <= 4000:
                streams.append(Stream("struct:" + g.family, data, g.is_mesh, g.family, sorted({a.att_type for a in g.atts})))
    return streams


def legacy_kd_bases(rng, n):
    """valid legacy (bitstream 2.0 .. 2.2) kd-tree point clouds assembled by the harness op `legacykd` from the
    library's own tree encoders; only streams that decode to the input points on the tree under test are kept"""
    lines = []
    for i in range(n):
        if i % 2 == 0:
            level = rng.randint(0, 6)
            minor = 2 if level >= 2 else rng.choice([0, 1, 2])     # rANS section sizes are varints only since 2.2
            dim = rng.choice([1, 2, 3, 3, 4])
            bl = rng.choice([0, 1, 4, 8, 16])
            npts = rng.choice([1, 4, 8, 30, 70, 100])
            coords = ",".join(str(rng.randrange(1 << bl) if bl else 0) for _ in range(npts * dim))
            lines.append(f"legacykd int {minor} {level} {dim} {bl} {coords}")
        else:
            npts = rng.choice([1, 3, 8, 30, 80])
            q = rng.choice([4, 8, 11, 14])
            bits = ",".join(str(G.f32_bits(G.f32(rng.random() * rng.choice([1.0, 10.0, 1000.0]) - 3.0))) for _ in range(3 * npts))
            lines.append(f"legacykd float 2 {q} {bits}")
    outs = run_encoder(lines, "legacykd")
    if outs is None:
        return None
    res = []
    for l, o in zip(lines, outs):
        if o.startswith("ok "):
            fam = "legacy_kd_" + l.split()[1]
            res.append(Stream("struct:" + fam, bytes.fromhex(o.split()[1]), False, fam, [0]))
    return res


def splice_decoders(streams):
    """One stream with several attributes decoders out of single-decoder streams of the same class (sequential point
    cloud / mesh with raw indices, kd-tree 2.3) whose bytes up to the decoder count are identical (same version, point
    count, connectivity): num_attributes_decoders = k, then the descriptor blocks of all decoders, then their payloads
    (PointCloudDecoder::DecodePointAttributes reads all DecodeAttributesDecoderData blocks first). Unique ids are
    renumbered. None when the layouts do not allow it."""
    parts = []
    off0 = None
    for s in streams:
        b = s.data
        if len(b) < 17 or b[9] | b[10] << 8:
            return None
        fs = stream_fields(b)
        nd = [f for f in fs if f.name == "num_attributes_decoders"]
        if len(nd) != 1 or nd[0].value != 1:
            return None
        off = nd[0].off
        if off0 is None:
            off0 = off
        if off != off0 or b[:off] != streams[0].data[:off]:
            return None
        dfs = [f for f in fs if f.off > off and f.name.startswith(("att.", "seq.decoder_type"))]
        if not dfs:
            return None
        desc_end = max(f.off + f.length for f in dfs)
        parts.append((bytearray(b[off + 1:desc_end]), b[desc_end:], [f for f in dfs if f.name == "att.unique_id"], off + 1))
    uid = 0
    for desc, _, uids, base in parts:
        for f in uids:
            if f.length != 1 or uid > 127:
                return None
            desc[f.off - base] = uid
            uid += 1
    b0 = streams[0].data
    return b0[:off0] + bytes([len(parts)]) + b"".join(bytes(d) for d, _, _, _ in parts) + b"".join(p for _, p, _, _ in parts)


def spliced_bases(rng, n):
    """valid point clouds (kd-tree 2.3, sequential) and sequential meshes with raw indices carrying 2 or 3 attributes
    decoders (the encoder never writes them)"""
    lines, metas = [], []
    for i in range(n):
        k = rng.choice([2, 2, 3])
        npts = rng.choice([3, 8, 20, 70])
        kind = i % 3      # 0 sequential pc, 1 kd-tree pc, 2 sequential mesh
        faces = []
        if kind == 2:
            npts = rng.choice([3, 4, 6, 9])
            faces = [tuple(rng.randrange(npts) for _ in range(3)) for _ in range(rng.randint(1, 6))]
        group = []
        for j in range(k):
            dt = rng.choice(["u32", "u16", "u8"] if kind == 1 else ["u32", "u8", "i16", "f32"])
            c = rng.randint(1, 3)
            t = G.POSITION if j == 0 else rng.choice([G.GENERIC, G.COLOR])
            a = G.Attr(t, G.DT[dt], c, False, j, npts, None, G.make_values(rng, G.DT[dt], c, npts, style="small" if dt != "f32" else None))
            g = G.Geom(kind == 2, npts, list(faces), [a])
            group.append(len(lines))
            if kind == 2:
                lines.append("enc expert=1 method=0 g:compress_connectivity=0 -- " + g.to_text())
            else:
                lines.append(f"enc method={kind} speed=5,5 -- " + g.to_text())
        metas.append((kind, group))
    outs = run_encoder(lines, "encsplice")
    if outs is None:
        return None
    res = []
    for kind, group in metas:
        ss = []
        for gi in group:
            if not outs[gi].startswith("ok "):
                break
            ss.append(Stream("part", bytes.fromhex(outs[gi].split()[1]), kind == 2, "part", [0]))
        if len(ss) != len(group):
            continue
        data = splice_decoders(ss)
        if data is not None:
            fam = ("spliced_seq", "spliced_kd", "spliced_seq_mesh")[kind] + str(len(ss))
            res.append(Stream("struct:" + fam, data, kind == 2, fam, [0, 2, 4]))
    return res


def valence_bases(rng, n):
    """Edgebreaker streams coded with the valence traversal (expert option edgebreaker_method = 2)"""
    from . import ebcases
    lines, geoms = [], []
    topos = [t for t in ebcases.topologies(rng, "quick") if 4 <= len(t[1][1]) <= 60]
    for _ in range(n):
        name, topo = rng.choice(topos)
        g = ebcases.build(rng, topo, rng.choice([e for _, e in ebcases.ATT_SETS]), pos_dtype=rng.choice(["f32", "i16"]))
        toks, _ = ebcases.options(rng, g, speed=rng.choice([0, 3, 5, 7]), submethod=2)
        lines.append("enc " + " ".join(t for t in toks if not t.startswith(("track", "skip"))) + " -- " + g.to_text())
        geoms.append(g)
    outs = run_encoder(lines, "encval")
    if outs is None:
        return None
    res = []
    for g, o in zip(geoms, outs):
        if o.startswith("ok ") and len(o.split()[1]) <= 6000:
            res.append(Stream("struct:valence_eb", bytes.fromhex(o.split()[1]), True, "valence_eb", sorted({a.att_type for a in g.atts})))
    return res


def model_traces(streams):
    """`ebtrace` output of the Lean driver for the Edgebreaker streams (None when the driver is unavailable)"""
    from vlib import leanside
    eb = [s for s in streams if s.cls == "eb"]
    res = {}
    if not eb or not os.path.exists(leanside.driver_path()):
        return res
    wd = os.path.join(C.CACHE, "run", f"robusttrace-{os.getpid()}")
    os.makedirs(wd, exist_ok=True)
    f = os.path.join(wd, "trace.ops.txt")
    with open(f, "w") as fh:
        fh.write("\n".join("ebtrace - " + s.data.hex() for s in eb) + "\n")
    rc, outs, _ = leanside.run_driver(f, timeout=600)
    import shutil
    shutil.rmtree(wd, ignore_errors=True)
    if rc == 0 and len(outs) == len(eb):
        for s, o in zip(eb, outs):
            res[id(s)] = o
    return res


def structured_cases(rng, tier, flavour, oracles, streams=None, n_each=None, per_stream=None):
    """field-level corruption of every located small-integer field of the structured base streams (and of `streams`)"""
    thorough = tier == "thorough"
    ne = n_each or (10 if thorough else 3)
    bases = structured_bases(rng, ne)
    if bases is None:
        return []
    for extra in (legacy_kd_bases(rng, 2 * ne), spliced_bases(rng, 2 * ne), valence_bases(rng, ne)):
        bases += extra or []
    bases = bases + list(streams or [])
    traces = model_traces(bases)
    out = []
    for s in bases:
        fields = stream_fields(s.data, traces.get(id(s)))
        muts = field_mutations(s.data, fields, exhaustive=thorough and len(s.data) < 400)
        muts += eb_decoder_head_mutations(s.data, fields)
        if per_stream and len(muts) > per_stream:
            muts = rng.sample(muts, per_stream)
        skip = "01234" if rng.random() < 0.6 else "".join(str(t) for t in s.present)[:1] or "0"
        out.append(make_case(s.data, skip, flavour, oracles, ("valid", s.cls, "fam:" + s.family)))
        for tag, data in muts:
            out.append(make_case(data, skip, flavour, oracles, (tag, "mut:" + s.cls), base=s.data))
    return out


# ================================================================== tamper-hook campaign (C02 "semantic corruption")
# The Edgebreaker encoders of the tree under test call draco_verif_tamper(kind, &value) just before a value is entropy
# coded (src/draco/core/verif_hooks.h, -DDRACO_VERIF). Harness ops: `tcount <enc args>` lists the values per kind,
# `tenc <kind> <occurrence> <value> <enc args>` re-encodes with exactly one value replaced. Every stream produced this
# way is well formed at the byte level (entropy coded consistently) but describes an impossible mesh; it becomes an
# ordinary `rdec` case (all entry points, guard pages, validity, allocation monitor, watchdog, Lean model).
TAMPER_KINDS = {0: "traversal_symbol", 1: "start_face_interior", 2: "attribute_seam", 3: "valence_context_symbol",
                4: "split_source_symbol_id", 5: "split_split_symbol_id", 6: "split_source_edge", 7: "crease_edge_flag"}


def tamper_alternatives(kind, v):
    if kind == 0:
        return [x for x in (0, 1, 3, 5, 7) if x != v] + [2, 4, 6]
    if kind == 3:
        return [x for x in (0, 1, 2, 3, 4) if x != v] + [5]
    if kind in (1, 2, 6, 7):
        return [1 - (v & 1)]
    # symbol ids of split events
    return sorted({0, max(0, v - 1), v + 1, v + 2, 2 * v + 1, 0x7fffffff, 0xffffffff} - {v})


def tamper_meshes(rng, tier):
    """(enc argument string) for small Edgebreaker meshes: the ebcases topology families at 4..40 faces with seams,
    holes, handles, split events; speeds 0..10; standard and valence traversal"""
    from . import ebcases
    thorough = tier == "thorough"
    topos = [t for t in ebcases.topologies(rng, "quick") if 4 <= len(t[1][1]) <= 40]
    for _ in range(6 if not thorough else 20):
        topos.append(("grid_holes", ebcases.with_holes(rng, ebcases.grid(rng, rng.randint(2, 4), rng.randint(2, 4)), rng.choice([0.15, 0.3]))))
        topos.append(("torus", ebcases.torus(rng, rng.randint(3, 4), rng.randint(3, 4))))
    topos = [t for t in topos if 4 <= len(t[1][1]) <= 40]
    out = []
    n = 60 if thorough else 24
    for i in range(n):
        name, topo = rng.choice(topos)
        extra = rng.choice([e for _, e in ebcases.ATT_SETS])
        g = ebcases.build(rng, topo, extra, pos_dtype=rng.choice(["f32", "f32", "i16"]))
        sp = rng.choice([0, 1, 2, 3, 4, 5, 6, 7, 8, 9, 10])
        toks, _ = ebcases.options(rng, g, speed=sp, submethod=[0, 2][i % 2], split=rng.choice([None, 0, 1]))
        toks = [t for t in toks if not t.startswith(("track", "skip"))]
        out.append((name, " ".join(toks) + " -- " + g.to_text()))
    return out


def tamper_streams(rng, tier, budget):
    """[(kind, mesh family, stream bytes)]: one occurrence of one kind replaced by one alternative value"""
    meshes = tamper_meshes(rng, tier)
    outs = run_encoder(["tcount " + m for _, m in meshes], "tcount")
    if outs is None:
        return None
    variants = []
    for (name, m), o in zip(meshes, outs):
        if not o.startswith("ok ") or " | " not in o:
            continue
        for tok in o.split(" | ")[1].split():
            k, _, vs = tok.partition(":")
            if vs in ("-", ""):
                continue
            vals = [int(x) for x in vs.split(",")]
            for occ, v in enumerate(vals):
                for alt in tamper_alternatives(int(k), v):
                    variants.append((int(k), occ, alt, name, m))
    if budget is not None and len(variants) > budget:
        # stratified by kind: rare kinds (split events, valence symbols, crease flags) are kept first
        by_kind = {}
        for v in variants:
            by_kind.setdefault(v[0], []).append(v)
        share = max(1, budget // max(1, len(by_kind)))
        picked, rest = [], []
        for k, vs in by_kind.items():
            rng.shuffle(vs)
            picked += vs[:share]
            rest += vs[share:]
        rng.shuffle(rest)
        variants = picked + rest[:max(0, budget - len(picked))]
    outs = run_encoder([f"tenc {k} {occ} {alt} {m}" for (k, occ, alt, name, m) in variants], "tenc")
    if outs is None:
        return None
    res = []
    for (k, occ, alt, name, m), o in zip(variants, outs):
        t = o.split()
        if len(t) == 3 and t[0] == "ok" and t[2] == "1":
            res.append((k, name, bytes.fromhex(t[1])))
    return res


def tamper_cases(rng, tier, flavour, oracles, budget):
    ts = tamper_streams(rng, tier, budget)
    if ts is None:
        return []
    out = []
    seen = set()
    for k, name, data in ts:
        if data in seen:
            continue
        seen.add(data)
        out.append(make_case(data, "01234", flavour, oracles, ("tamper:" + TAMPER_KINDS[k], "tamper-topo:" + name)))
    return out


def metadata_chain_stream(base, depth):
    """`base` (a stream without metadata, bitstream >= 1.3) with the METADATA flag set and a geometry metadata block
    inserted after the 11 header bytes: no attribute metadata, then a single chain of `depth` nested sub-metadata
    (empty name, no entries) — 3 bytes per level"""
    hdr = bytearray(base[:11])
    hdr[10] |= 0x80
    md = bytes([0]) + bytes([0, 1]) + bytes([0, 0, 1]) * (depth - 1) + bytes([0, 0, 0]) if depth > 0 else bytes([0, 0, 0])
    return bytes(hdr) + md + base[11:]


def metadata_chain_cases(streams, tier, flavour, oracles):
    """metadata nesting across the decoder's limit (kMaxSubmetadataLevel = 1000) and far beyond it on hand-assembled
    streams (the encoder refuses to write them, so the round-trip generators of C11 never reach the decoder there):
    status / geometry vs the Lean model around the limit, and a chain long enough for a recursive destructor or decoder
    to exhaust the stack if the limit is not enforced (judged by oracle_crash / oracle_status)"""
    cand = [s for s in streams if len(s.data) > 11 and s.data[8] == 0 and not (s.data[10] & 0x80) and (s.data[5], s.data[6]) >= (2, 0)]
    if not cand:
        return []
    b = min(cand, key=lambda s: len(s.data)).data
    out = []
    for d in ([1, 2, 500, 998, 999, 1000, 1001, 1002, 1003, 2000] if tier == "thorough" else [1, 999, 1000, 1001, 1002]):
        out.append(make_case(metadata_chain_stream(b, d), "01234", flavour, oracles, ("gen:metadata-chain", f"mdchain:{d}")))
    for d in ((20000, 700000) if tier == "thorough" else (700000,)):
        out.append(make_case(metadata_chain_stream(b, d), "01234", flavour, oracles, ("gen:metadata-chain", "mdchain:deep"), with_model=False))
    return out
