"""Shared random generators (all randomness comes from the rng passed in)."""


def boundary_int(rng, bits, signed=False):
    """boundary-biased integer of the given width"""
    lo, hi = (-(1 << (bits - 1)), (1 << (bits - 1)) - 1) if signed else (0, (1 << bits) - 1)
    r = rng.random()
    if r < 0.25:
        cands = [lo, hi, 0, 1, -1, lo + 1, hi - 1, 127, 128, 255, 256, 16383, 16384, (1 << 21) - 1, 1 << 21,
                 (1 << 28) - 1, 1 << 28, (1 << 31) - 1, 1 << 31, (1 << 32) - 1, 1 << 35, (1 << 56) - 1, 1 << 63]
        v = rng.choice(cands)
        if signed and rng.random() < 0.5:
            v = -v
    elif r < 0.6:
        k = rng.randint(0, bits)
        v = rng.getrandbits(k) if k else 0
        if signed and rng.random() < 0.5:
            v = -v
    else:
        v = rng.randint(lo, hi)
    return max(lo, min(hi, v))


def rand_bytes(rng, n):
    return bytes(rng.getrandbits(8) for _ in range(n))


def hexs(b):
    return b.hex() if len(b) else "-"
