"""The frozen stream corpus of C05 (created once by tools/freeze_corpus.py, committed, read-only afterwards)."""
import hashlib
import json
import lzma
import os

VERIF = os.path.dirname(os.path.dirname(os.path.dirname(os.path.abspath(__file__))))
ROOT = os.path.join(VERIF, "corpus")
INDEX = os.path.join(ROOT, "index.json")

# header rewrites: every (major, minor) of [0..4] x [0..9] plus far-away values
REWRITE_VERSIONS = [(ma, mi) for ma in range(5) for mi in range(10)] + [(1, 255), (2, 255), (2, 128), (255, 0), (255, 255), (3, 255)]


def sha(b):
    return hashlib.sha256(b if isinstance(b, bytes) else b.encode()).hexdigest()


def write_xz(path, text):
    with open(path, "wb") as f:
        f.write(lzma.compress(text.encode(), format=lzma.FORMAT_XZ, preset=9))


def read_xz(path):
    with open(path, "rb") as f:
        return lzma.decompress(f.read()).decode()


def header_of(b):
    """(major, minor, encoder_type, encoder_method, flags) of a stream"""
    if len(b) < 11 or b[:5] != b"DRACO":
        return (0, 0, 255, 255, 0)
    return (b[5], b[6], b[7], b[8], b[9] | (b[10] << 8))


def stream_class(b):
    h = header_of(b)
    return {(0, 0): "pc-seq", (0, 1): "pc-kd", (1, 0): "mesh-seq", (1, 1): "mesh-eb"}.get((h[2], h[3]), "other")


def rewrite_version(b, major, minor):
    return b[:5] + bytes([major, minor]) + b[7:]


def load():
    """-> (index dict, {name: bytes}, {name: decode text}, {name: encoder input line})"""
    idx = json.load(open(INDEX))
    streams = {}
    for e in idx["entries"]:
        if e["kind"] == "legacy":
            streams[e["name"]] = open(os.path.join(ROOT, e["file"]), "rb").read()
    for line in open(os.path.join(ROOT, "frozen", "streams.hex")):
        line = line.strip()
        if line:
            n, hx = line.split(" ", 1)
            streams[n] = bytes.fromhex(hx)
    decodes = {}
    for line in read_xz(os.path.join(ROOT, "decodes.txt.xz")).split("\n"):
        if line:
            n, d = line.split(" ", 1)
            decodes[n] = d
    inputs = {}
    for line in read_xz(os.path.join(ROOT, "frozen", "inputs.txt.xz")).split("\n"):
        if line:
            n, d = line.split(" ", 1)
            inputs[n] = d
    return idx, streams, decodes, inputs


def verify(loaded=None):
    """integrity of the committed corpus: every hash of the index against the stored bytes / texts"""
    problems = []
    try:
        idx, streams, decodes, inputs = loaded or load()
    except Exception as ex:    # noqa: BLE001
        return [f"corpus unreadable: {ex!r}"]
    for e in idx["entries"]:
        n = e["name"]
        b = streams.get(n)
        if b is None:
            problems.append(f"{n}: stream missing")
            continue
        if sha(b) != e["sha256"] or len(b) != e["size"]:
            problems.append(f"{n}: stream bytes do not match the index (sha256/size)")
        d = decodes.get(n)
        if d is None or sha(d) != e["decode_sha256"]:
            problems.append(f"{n}: frozen decode text does not match the index")
        if e["kind"] == "frozen":
            i = inputs.get(n)
            if i is None or sha(i) != e["input_sha256"]:
                problems.append(f"{n}: frozen encoder input does not match the index")
    return problems


def first_difference(frozen, now):
    """human-readable first differing element of two `dec` outputs"""
    a, b = frozen.split(), now.split()
    if a[:1] != b[:1]:
        return f"status: frozen `{' '.join(a[:1])}` now `{' '.join(b[:2])[:40]}`"
    names = ["status", "consumed bytes", "kind", "number of points", "number of faces", "faces", "number of attributes"]
    att_fields = ["attribute type", "data type", "components", "normalized", "unique id", "number of values", "point->value map",
                  "values", "transform"]
    for i in range(max(len(a), len(b))):
        x = a[i] if i < len(a) else "<missing>"
        y = b[i] if i < len(b) else "<missing>"
        if x == y:
            continue
        if i < len(names):
            what = names[i]
        elif "meta" in a[:i + 1] and a.index("meta") <= i:
            what = "metadata"
        else:
            k = i - len(names)
            what = f"attribute {k // 9} {att_fields[k % 9]}"
        # locate the element inside a list token
        if "," in x or "," in y:
            xs, ys = x.split(","), y.split(",")
            j = next((j for j in range(min(len(xs), len(ys))) if xs[j] != ys[j]), min(len(xs), len(ys)))
            unit = "corner" if what == "faces" else "entry"
            return (f"{what}: {unit} {j} (face {j // 3} corner {j % 3}) " if what == "faces" else f"{what}: entry {j} ") + \
                   f"frozen {xs[j] if j < len(xs) else '<end>'} now {ys[j] if j < len(ys) else '<end>'}"
        if what.endswith("values") and len(x) > 16:
            j = next((j for j in range(0, min(len(x), len(y)), 2) if x[j:j + 2] != y[j:j + 2]), min(len(x), len(y)))
            return f"{what}: byte {j // 2} frozen {x[j:j + 8]}… now {y[j:j + 8]}…"
        return f"{what}: frozen {x[:40]} now {y[:40]}"
    return "no difference"
