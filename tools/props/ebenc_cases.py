"""Cases tying the Lean model of the EDGEBREAKER MESH ENCODER (lean/DracoModel/EbEnc*.lean) to the C++ encoder:
the harness op `enc` encodes a generated mesh with the Edgebreaker method, the Lean driver op `ebenc` re-encodes
the same mesh with the model (encoder heuristics read back from the C++ stream: tagged/raw symbol schemes, crease
flags of the constrained multi-parallelogram scheme) and must reproduce the C++ bytes exactly.  On every case the
driver also evaluates, on the MODEL side,
  rt-ok      the model decoder applied to the model encoder's stream satisfies the executable specification
             `Spec.checkCore .edgebreaker` against the input geometry (statement of `eb_roundtrip_*` evaluated),
  iso-ok     the decidable predicate `CTIso` (decoder corner table ≅ encoder corner table under the corner map
             recorded in `processed_connectivity_corners_`) — the hypothesis of the conditional theorems,
  counts-ok  the point / face counts the encoder model reports equal those of the model decoder's result (C09),
  hyp-ok     every named hypothesis of the conditional theorems (`eb_value_block_conditional`, `eb_ctiso_sound`) holds
             and the conclusion of `eb_value_block_conditional` evaluates to true on every value block;
with `track=1` the counts reported by the real encoder have to equal the model's.

`cases(rng, tier)` returns engine Cases; hook into C01.generate (and C09 as wanted)."""
import random as _random

from vlib.engine import Case
from . import e2e, ebcases as E, geomgen as G, seqenc_cases

DT = G.DT


def _strip(toks):
    """tokens of ebcases/e2e option sets that only concern the `encdec` op"""
    return [t for t in toks if not t.startswith("skip=") and not t.startswith("trail=")]


def _selects_edgebreaker(toks, geom):
    if not geom.is_mesh:
        return False
    m, speed = None, 5
    for t in toks:
        if t.startswith("method="):
            m = int(t[7:])
        if t.startswith("speed="):
            e, d = t[6:].split(",")
            speed = max(int(e), int(d))
            if speed == -1:
                speed = 5
    if m is None or m == -1:
        m = 0 if speed == 10 else 1
    return m == 1


def make_case(geom, toks, tags=()):
    toks = _strip(toks)
    gtext = geom.to_text()
    # `encdec` = `enc` followed by the real decodes of the produced stream: the implementation-side oracle below
    # (encode ok => decode ok, valid, whole stream consumed, reported counts) needs them; the tie uses the `enc` part
    op = "encdec " + " ".join(toks) + " -- " + gtext
    track = "track=1" in toks
    eb = _selects_edgebreaker(toks, geom)

    def oracle(hout, case):
        r = e2e.parse_encdec(hout)
        if r["status"] != "ok" or not eb:
            return None
        n = len(r["hex"]) // 2
        d = r["dec"]
        if not d or d[0] != "ok":
            return ("encode-ok-decode-fails", f"encoding reported success but decoding the {n}-byte stream failed ({' '.join(d)[:60]}) for `{case.op[:300]}`")
        if int(d[1]) != n:
            return ("decode-consumed", f"decode consumed {d[1]} bytes of a {n}-byte stream for `{case.op[:300]}`")
        g2, _ = G.parse_geom(d, 2)
        v = g2.valid()
        if v or any(getattr(a, "short", False) for a in g2.atts):
            return ("decoded-geometry-invalid", f"decoded geometry is not structurally valid: {v or 'attribute buffer too small'} for `{case.op[:300]}`")
        if track and (r["nep"] != g2.num_points or r["nef"] != len(g2.faces)):
            return ("encoded-counts", f"encoder reported {r['nep']} points / {r['nef']} faces, decoder produced {g2.num_points} / {len(g2.faces)} for `{case.op[:300]}`")
        return None

    def model(hout):
        if not eb or geom.num_points == 0:
            return None
        if hout.startswith("err-encode"):
            # the Edgebreaker encoder reported failure: the model (default choices) must not produce a stream
            return "ebenc " + " ".join(toks) + " hex=- -- " + gtext
        if not hout.startswith("ok "):
            return None          # err-predscheme: the API refused the options, nothing was encoded
        hx = hout.split()[1]
        b = bytes.fromhex(hx[:24])
        if len(b) < 9 or b[7] != 1 or b[8] != 1:
            return None
        return "ebenc " + " ".join(toks) + f" hex={hx} -- " + gtext

    def expect(hout, mout, case):
        if mout is None:
            return None
        hout = hout.split(" | ")[0]
        mp = mout.split()
        if not mp or mp[0] in ("unsupported", "not-edgebreaker"):
            return None          # outside the encoder model: no claim (shown in the input distribution)
        if hout.startswith("err-encode"):
            if mp[0] != "fail":
                return f"the implementation's Edgebreaker encoder reports failure, the encoder model produces a stream for `{case.op[:300]}`"
            return None
        if not hout.startswith("ok "):
            return None
        hp = hout.split()
        hx = hp[1]
        if mp[0] != "ok":
            return f"the encoder model fails ({mout[:80]}) where the implementation produced a stream for `{case.op[:300]}`"
        if mp[1] != hx:
            k = next((i for i in range(0, min(len(hx), len(mp[1])), 2) if hx[i:i + 2] != mp[1][i:i + 2]), min(len(hx), len(mp[1])))
            return (f"Edgebreaker encoder model and implementation differ at byte {k // 2} (impl {len(hx) // 2} bytes, model {len(mp[1]) // 2}): "
                    f"impl …{hx[max(0, k - 8):k + 16]} model …{mp[1][max(0, k - 8):k + 16]} for `{case.op[:300]}`")
        if track and (hp[2] != mp[2] or hp[3] != mp[3]):
            return (f"encoder reports {hp[2]} points / {hp[3]} faces, the encoder model {mp[2]} / {mp[3]} for `{case.op[:300]}`")
        return None

    def spec(hout, mout, case):
        """same bytes on both sides: the model-side evaluations are statements about the implementation's stream"""
        if mout is None or not hout.startswith("ok "):
            return None
        hp, mp = hout.split(" | ")[0].split(), mout.split()
        if len(mp) < 7 or mp[0] != "ok" or mp[1] != hp[1]:
            return None
        rt, iso, counts = mp[4], mp[5], mp[6]
        if rt not in ("rt-ok", "rt-skip"):
            return ("roundtrip:encoder-stream-" + rt, f"decoding the encoder's stream (model decoder, tied to the real decoder) does not satisfy RoundTripOK ({rt}) for `{case.op[:300]}`")
        if track and counts != "counts-ok":
            return ("encoded-counts", f"the encoder reports {hp[2]} points / {hp[3]} faces, decoding its stream gives {counts} for `{case.op[:300]}`")
        if iso != "iso-ok":
            return ("ctiso:" + iso, f"the decoder's corner table is not isomorphic to the encoder's ({iso}) although the round trip holds for `{case.op[:300]}`")
        hyp = mp[-1] if mp[-1].startswith("hyp-") else "hyp-missing"
        if hyp != "hyp-ok":
            return ("hypothesis:" + hyp[:60], f"a named hypothesis (or the evaluated conclusion) of the conditional round-trip theorems does not hold ({hyp}) for `{case.op[:300]}`")
        return None

    def mtag(mout):
        if mout is None:
            return "ebenc:not-edgebreaker-or-refused"
        mp = mout.split()
        if not mp:
            return "ebenc:?"
        if mp[0] == "unsupported":
            return "ebenc:unsupported:" + (mp[1] if len(mp) > 1 else "")[:50]
        if mp[0] != "ok":
            return "ebenc:" + mp[0]
        return "ebenc:ok:" + ":".join(mp[4:7]) + (":" + mp[-1][:40] if mp[-1].startswith("hyp-") else "")

    c = Case(op, model=model, expect=expect, oracle=oracle, tags=("ebenc",) + tuple(tags))
    c.spec = spec
    c.mtag = mtag
    if geom.num_points == 0:
        c.sig_override = "empty-geometry"
    return c


def _build(rng, topo, extra=(), **kw):
    """ebcases.build; integer position types that cannot hold the coordinates fall back to float32"""
    import struct
    st = rng.getstate()
    try:
        return E.build(rng, topo, extra, **kw)
    except struct.error:
        rng.setstate(st)
        kw["pos_dtype"] = "f32"
        return E.build(rng, topo, extra, **kw)


def _with_track(rng, toks, p=0.6):
    toks = [t for t in toks if not t.startswith("track=")]
    if rng.random() < p:
        toks.append("track=1")
    return toks


def reorder_position(rng, g):
    """the same mesh with the POSITION attribute moved behind another attribute"""
    if len(g.atts) < 2:
        return g
    k = rng.randrange(1, len(g.atts))
    atts = list(g.atts[1:k + 1]) + [g.atts[0]] + list(g.atts[k + 1:])
    h = G.Geom(True, g.num_points, g.faces, atts)
    h.family = getattr(g, "family", "mesh")
    return h


def cases(rng, tier="quick"):
    out = []
    big = tier == "thorough"
    topos = E.topologies(rng, tier)
    # 1. connectivity alone: every topology family (holes, handles, components, non-manifold, degenerate input) x
    #    position only x traversal coder (standard / valence / automatic) x speeds
    for name, topo in topos:
        for sub in (0, 2, None):
            g = _build(rng, topo, isolated=rng.choice([0, 0, 1, 2]), permute=rng.random() < 0.3,
                        pos_dtype=rng.choice(["f32", "f32", "i32", "i16"]))
            sp = rng.choice([0, 1, 2, 4, 5, 7, 9])
            toks, _ = E.options(rng, g, speed=sp, submethod=sub, quant=rng.random() < 0.8, expert=sub is not None or rng.random() < 0.5)
            out.append(make_case(g, _with_track(rng, toks), ("topo:" + name, "atts:pos", f"sub:{sub}", f"speed:{sp}")))
    # 1b. tori with holes (many split events and holes reached through TOPOLOGY_S)
    for k in range(8 if not big else 40):
        topo = E.with_holes(rng, E.torus(rng, rng.randint(3, 7), rng.randint(3, 7)), rng.choice([0.1, 0.2, 0.3]))
        single = rng.random() < 0.4
        g = _build(rng, topo, [("tex", "seam_random")] if single else [])
        toks, _ = E.options(rng, g, speed=rng.choice([7, 8, 9]) if single else rng.choice([0, 3, 5]), submethod=rng.choice([0, 2]))
        out.append(make_case(g, _with_track(rng, toks), ("topo:torus_holes", "atts:" + ("pos+tex_single" if single else "pos"))))
    # 2. attribute sets x seam layouts x split_mesh_on_seams x speeds
    rich = [t for t in topos if t[0] in ("grid", "grid_holes", "torus", "cylinder", "sphere", "components", "patch", "bowtie", "soup",
                                         "grid_large", "disc", "torus_holes", "fan_on_edge", "grid_dup_flip")]
    for aname, extra in E.ATT_SETS[1:]:
        for k in range(4 if not big else 12):
            name, topo = rng.choice(rich)
            pd = rng.choice(["f32", "f32", "f32", "i32", "i16"])
            g = _build(rng, topo, extra, pos_dtype=pd, permute=rng.random() < 0.2, no_dedup=rng.random() < 0.15,
                        isolated=rng.choice([0, 0, 1]))
            sp = [0, 1, 3, 5, 6, 9][k % 6] if not big else rng.randint(0, 9)
            split = rng.choice([None, None, 0, 1])
            toks, _ = E.options(rng, g, speed=sp, submethod=rng.choice([None, 0, 2]), split=split, expert=rng.random() < 0.8)
            if rng.random() < 0.15:
                toks.append("builtin=0") if "expert=1" in toks else None
            if rng.random() < 0.1:
                toks.append("meta=" + seqenc_cases.rand_meta(rng, g))
            out.append(make_case(g, _with_track(rng, toks), ("topo:" + name, "atts:" + aname, f"speed:{sp}", f"split:{split}", "pos:" + pd)))
    # 3. forced prediction schemes
    forced = [("pos", [], [(0, s)]) for s in (-2, 0, 1, 4)]
    forced += [("pos+tex", [("tex", lay)], [(1, s)]) for s in (0, 1, 4, 5) for lay in ("vertex", "seam_line")]
    forced += [("pos+normal", [(nk, lay)], [(1, s)]) for s in (0, 6) for nk in ("normal", "normal_flipped") for lay in ("vertex", "seam_random")]
    forced += [("pos+generic", [("generic", "seam_random")], [(1, s)]) for s in (-2, 0, 1, 4)]
    forced += [("pos_int+tex", [("tex", "vertex")], [(1, 5)])]
    for aname, extra, pred in forced:
        for k in range(2 if not big else 6):
            name, topo = rng.choice(rich)
            pd = "i16" if aname.startswith("pos_int") else rng.choice(["f32", "f32", "i32"])
            g = _build(rng, topo, extra, pos_dtype=pd)
            sp = rng.choice([0, 2, 5, 7])
            toks, _ = E.options(rng, g, speed=sp, pred=pred, submethod=rng.choice([None, 0, 2]), split=rng.choice([None, 0, 1]))
            out.append(make_case(g, _with_track(rng, toks), ("topo:" + name, "atts:" + aname, "forced:p%d=%d" % pred[0], f"speed:{sp}")))
    # 4. constrained multi-parallelogram on meshes of >= 40 points (speed 0 / 1): the crease flag choice is read back
    for k in range(6 if not big else 20):
        topo = rng.choice([E.grid(rng, rng.randint(6, 12), rng.randint(6, 12)), E.torus(rng, rng.randint(6, 9), rng.randint(7, 9)),
                           E.sphere(rng, 2), E.with_holes(rng, E.grid(rng, 9, 9), 0.1)])
        extra = rng.choice([[], [("tex", "seam_line")], [("generic", "vertex")], [("generic", "seam_random"), ("color", "vertex")]])
        g = _build(rng, topo, extra, pos_dtype=rng.choice(["f32", "i16"]))
        toks, _ = E.options(rng, g, speed=rng.choice([0, 1]), submethod=rng.choice([None, 0, 2]), split=rng.choice([None, 0, 1]))
        out.append(make_case(g, _with_track(rng, toks), ("constrained_multi", "atts:%d" % len(g.atts))))
    # 5. walls (geometric normal, flips), extreme quantization
    for _ in range(4 if not big else 20):
        g = G.rand_wall_mesh(rng)
        sp = rng.choice([0, 1, 2, 3])
        toks, _ = E.options(rng, g, speed=sp, submethod=rng.choice([None, 0, 2]))
        out.append(make_case(g, _with_track(rng, toks), ("topo:wall", "atts:pos+normal", f"speed:{sp}")))
    for bits in (1, 2, 30):
        name, topo = rng.choice(rich)
        g = _build(rng, topo, [("tex", "seam_line"), ("normal", "vertex")])
        toks, _ = E.options(rng, g, speed=rng.choice([0, 3]) if bits < 30 else rng.choice([2, 3]), pos_bits=bits)
        out.append(make_case(g, _with_track(rng, toks), ("topo:" + name, f"posbits:{bits}")))
    # 6. the generic random meshes of geomgen with the generic random option sets (Encoder and ExpertEncoder API);
    #    the method is forced to Edgebreaker or left to the speed
    for _ in range(60 if not big else 400):
        g = G.rand_mesh(rng, rng.choice([3, 8, 20, 60, 200]))
        if g.num_points == 0:
            continue
        toks, _ = e2e.rand_options(rng, g, force_method=rng.choice([1, 1, None]))
        toks = E._tame(toks)
        out.append(make_case(g, toks, ("topo:geomgen_" + g.family, "atts:random")))
    # 7. POSITION attribute not first: the attribute encoders are rearranged (parents first)
    for _ in range(10 if not big else 40):
        name, topo = rng.choice(rich)
        extra = rng.choice([[("tex", "vertex")], [("normal", "vertex")], [("tex", "seam_line"), ("normal", "seam_random")],
                            [("generic", "seam_random")], [("color", "vertex"), ("tex", "seam_random")]])
        g = reorder_position(rng, _build(rng, topo, extra, pos_dtype=rng.choice(["f32", "i16"])))
        sp = rng.choice([0, 1, 2, 3, 5])
        toks, _ = E.options(rng, g, speed=sp, submethod=rng.choice([None, 0, 2]), split=rng.choice([None, 0, 0, 1]))
        out.append(make_case(g, _with_track(rng, toks), ("position_not_first", f"speed:{sp}")))
    return out
