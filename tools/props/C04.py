"""C04 — quantization error is at most half a step."""
from fractions import Fraction

from vlib.engine import Case
from . import gen, e2e, geomgen as G
from .geomgen import f32_bits, bits_f32, f32

ID = "C04"
LEVEL = "proof"
LEAN_MODULES = ["DracoProps.C04"]
RULE = ("float attributes (1..4 components, 1..12 values, q=1..30) with magnitudes 1e-6..1e9, offsets, constant "
        "attributes, values at k+1/2 steps; automatic range (ComputeParameters) and explicit range (SetParameters) "
        "with values inside the box; the real AttributeQuantizationTransform output (parameters, quantized integers, "
        "decoded bit patterns) is compared bit for bit with the Float32 instance of the model, and the half-step "
        "bound of the theorem (allowance 14*2^-24*max(|x|,|min|,R), box 16*2^-24) is evaluated in exact rationals "
        "on the implementation's output; non-trivial = distinct op line with a non-constant attribute"
        '; fixed upper-box-corner instances (from 23 bits on the real code quantizes them to k = 2^q; the C04 '
        'bound still holds); invalid bit counts and NaN / Inf inputs must be rejected on both sides; end to end: '
        'quantized float attributes through every method (sequential / kd-tree / Edgebreaker), speeds, prediction'
        ' schemes, built-in compression on/off and skip-transform decodes with RoundTripOK on the '
        "implementation's outputs, incl. the raw (not entropy coded) storage of quantized values with bit counts "
        'next to byte boundaries')
THEOREM_BACKED = ('quant_exact_half_step (exact arithmetic), quant_float_half_step (any rounding oracle with unit roundoff '
                  'u), quant_float_constant_lower_bound (the constant 14 cannot go below 7.99), computeParameters_range, '
                  'computeParameters_rejects_nan_inf')
EXPLANATION = ("the float theorem is about an abstract rounding model; that g++/SSE float32 arithmetic satisfies it is "
               "assumed and sampled by the exact-rational evaluation of the bound on the implementation's outputs")
ASSUMPTIONS = ["IEEE-754 binary32 round-to-nearest for + - * / and int->float; no FMA contraction (g++ x86-64 SSE)"]
U = Fraction(1, 2 ** 24)


def fr(bits):
    return Fraction(bits_f32(bits))


def oracle(q, nc, xs, explicit):
    def f(hout, case):
        if not hout.startswith("ok "):
            return ("quant-fail", f"quantization of finite in-range values failed: `{case.op}` -> {hout}")
        _, rb, mb, ks, dec = hout.split()
        R = fr(int(rb))
        mins = [fr(int(x)) for x in mb.split(",")]
        ks = [int(x) for x in ks.split(",")]
        dec = [fr(int(x)) for x in dec.split(",")]
        M = 2 ** q - 1
        if R <= 0:
            return ("quant-range", f"non-positive range {float(R)} for `{case.op}`")
        vals = [fr(x) for x in xs]
        if not explicit:
            ext = [max(vals[c::nc]) - min(vals[c::nc]) for c in range(nc)]
            big = max(ext)
            want = Fraction(f32(float(big))) if big > 0 else Fraction(1)
            # R must be the largest per-component extent (float32 rounding of max-min), or 1 when all are constant
            if not (abs(R - want) <= want * U * 2):
                return ("quant-range-extent", f"range {float(R)} is not the largest component extent {float(want)} for `{case.op}`")
            for c in range(nc):
                if mins[c] != min(vals[c::nc]):
                    return ("quant-min", f"min of component {c} is {float(mins[c])}, expected {float(min(vals[c::nc]))} for `{case.op}`")
        for i, (x, d, k) in enumerate(zip(vals, dec, ks)):
            mn = mins[i % nc]
            mag = max(abs(x), abs(mn), R)
            if abs(d - x) > R / (2 * M) + 14 * U * mag:
                return ("quant-half-step", f"|decoded-x| = {float(abs(d - x))} exceeds half a step {float(R / (2 * M))} (+allowance) at value {i} (k={k}) for `{case.op}`")
            if d < mn - 16 * U * mag or d > mn + R + 16 * U * mag:
                return ("quant-box", f"decoded {float(d)} leaves the box [{float(mn)},{float(mn + R)}] at value {i} for `{case.op}`")
            if k < 0:
                return ("quant-negative", f"negative quantized value {k} for `{case.op}`")
        return None
    return f


def rand_mag(rng):
    return 10.0 ** rng.uniform(-6, 9)


def generate(rng, tier):
    cases = []
    n = 12000 if tier == "thorough" else 2500
    for _ in range(n):
        q = rng.randint(1, 30) if rng.random() < 0.8 else rng.choice([1, 2, 8, 10, 11, 14, 16, 24, 30])
        nc = rng.randint(1, 4)
        npnt = rng.randint(1, 12)
        mag = rand_mag(rng)
        off = [0.0 if rng.random() < 0.4 else (rng.random() * 2 - 1) * rand_mag(rng) for _ in range(nc)]
        kind = rng.randrange(9)
        explicit = rng.random() < 0.4
        if kind == 8:   # near-constant attribute: tiny extent around a value of the allowed magnitudes
            mag = abs(off[0] or 1e-6) * 10.0 ** rng.uniform(-6.5, -1) if rng.random() < 0.7 else 10.0 ** rng.uniform(-9, -6)
            off = [o if o != 0.0 else 10.0 ** rng.uniform(-6, -3) for o in off]
        vals = []
        if explicit:
            R = f32(mag)
            mins = [f32(o) for o in off]
            M = 2 ** q - 1
            for i in range(npnt):
                for c in range(nc):
                    if kind == 0:
                        t = rng.choice([0.0, 1.0])
                    elif kind == 1:
                        t = (rng.randint(0, M) + 0.5) / M if M > 0 else 0.5   # k + 1/2 steps
                        t = min(t, 1.0)
                    else:
                        t = rng.random()
                    v = f32(mins[c] + R * t)
                    # keep strictly inside the configured box
                    v = max(mins[c], min(v, f32(mins[c] + R) if f32(mins[c] + R) <= mins[c] + R else mins[c]))
                    vals.append(v)
            tags = ("explicit", f"q{q // 8 * 8}+")
            line = f"qattr {q} {nc} {','.join(str(f32_bits(v)) for v in vals)} {f32_bits(R)} {','.join(str(f32_bits(m)) for m in mins)}"
            # inside-the-box precondition evaluated exactly
            ok_box = all(Fraction(mins[i % nc]) <= Fraction(v) <= Fraction(mins[i % nc]) + Fraction(R) for i, v in enumerate(vals))
            if not ok_box or R <= 0:
                continue
        else:
            for i in range(npnt):
                for c in range(nc):
                    if kind == 0:
                        v = off[c]
                    elif kind == 1:
                        v = off[c] + (mag if rng.random() < 0.5 else 0.0)
                    elif kind == 2:
                        v = off[c] + mag * rng.randint(0, 16) / 16.0
                    else:
                        v = off[c] + mag * rng.random()
                    vals.append(f32(v))
            tags = ("automatic", "constant" if kind == 0 else "varying", f"q{q // 8 * 8}+")
            line = f"qattr {q} {nc} {','.join(str(f32_bits(v)) for v in vals)}"
        xs = [f32_bits(v) for v in vals]
        cases.append(Case(line, oracle=oracle(q, nc, xs, explicit), tags=tags, nontrivial=kind != 0))
    # fixed instances at the upper box corner (x = origin + range): from 23 bits on the real code quantizes them to
    # k = 2^q (one above max_quantized_value; DracoProps.C12 header); at 22 bits k = 2^q - 1.  Compared bit for bit
    # with the Float32 model and subject to the C04 bound like every other case (the excess R/M is within the box
    # allowance); k itself is not constrained by C04.
    for q, xb, rb, mb in ((23, 1036831949, 1036831949, 0), (24, 1036831949, 1036831949, 0), (22, 1036831949, 1036831949, 0),
                          (23, 983777070, 969011566, 979731877), (23, 0x4458398e, 0x44582e6d, 0x3e321517),
                          (25, 0x40c922ba, 0x40985f9e, 0x3fc30c71)):
        cases.append(Case(f"qattr {q} 1 {xb} {rb} {mb}", oracle=oracle(q, 1, [xb], True), tags=("explicit", "upper_corner_k_exceeds")))
    # rejected inputs: NaN / Inf / invalid bit counts must fail on both sides
    for special in (0x7fc00000, 0x7f800000, 0xff800000):
        cases.append(Case(f"qattr 10 1 {f32_bits(1.0)},{special},{f32_bits(2.0)}", tags=("nan_inf_rejected",)))
        cases.append(Case(f"qattr 10 1 {special},{f32_bits(2.0)}", tags=("nan_inf_rejected",)))
    for q in (0, -1, 31, 32):
        cases.append(Case(f"qattr {q} 1 {f32_bits(1.0)},{f32_bits(2.0)}", tags=("invalid_bits_rejected",)))
    # end to end: quantized float attributes through every method (sequential / kd-tree / Edgebreaker), speeds,
    # prediction schemes, built-in compression on/off, skip-transform decodes; the executable specification
    # RoundTripOK demands decoded == dequant(quant(original)) with the parameters declared in the stream
    for _ in range(500 if tier == "thorough" else 100):
        is_mesh = rng.random() < 0.5
        nf = rng.randint(1, 3)
        specs = [(G.POSITION, G.DT["f32"], 3, False, 0)]
        for k in range(1, nf):
            t = rng.choice([G.TEX_COORD, G.GENERIC, G.COLOR])
            specs.append((t, G.DT["f32"], 2 if t == G.TEX_COORD else rng.randint(1, 4), False, k))
        if rng.random() < 0.3:
            specs.append((G.COLOR, G.DT["u8"], 3, True, len(specs)))
        g = G.rand_mesh(rng, rng.choice([6, 20, 60]), specs=specs) if is_mesh else G.rand_point_cloud(rng, rng.choice([5, 40, 300]), specs=specs)
        if g.num_points == 0:
            continue
        toks, info = e2e.rand_options(rng, g, quant_prob=1.0, want_skip=rng.random() < 0.5)
        c = e2e.make_case(g, toks, info, {"rt", "valid", "skip"}, tags=("e2e_quant_mesh" if is_mesh else "e2e_quant_pc",))
        c.mtag = e2e.model_support_tag
        cases.append(c)
    # the raw (not entropy coded) storage of integer values: built-in compression off, no prediction, quantization
    # bits chosen so that the largest stored value has its top bit exactly at / next to a byte boundary
    for _ in range(240 if tier == "thorough" else 48):
        is_mesh = rng.random() < 0.5
        specs = [(G.POSITION, G.DT["f32"], 3, False, 0)]
        if rng.random() < 0.5:
            specs.append((G.GENERIC, G.DT["f32"], rng.randint(1, 4), False, 1))
        g = G.rand_mesh(rng, rng.choice([6, 20]), specs=specs) if is_mesh else G.rand_point_cloud(rng, rng.choice([5, 40]), specs=specs)
        if g.num_points == 0:
            continue
        toks = ["expert=1", "builtin=0", f"method={rng.choice([0, 0, 1])}", f"speed={rng.randint(0, 10)},{rng.randint(0, 10)}"]
        info = {"expert": True, "req": {}, "track": False, "skip": None}
        for i, a in enumerate(g.atts):
            bits = rng.choice([7, 8, 9, 15, 16, 17, 23, 24, 25])
            toks.append(f"q{i}={bits}")
            info["req"][a.uid] = bits
            if rng.random() < 0.7:
                toks.append(f"p{i}=-2")
        c = e2e.make_case(g, toks, info, {"rt", "valid"}, tags=("e2e_raw_storage",))
        c.mtag = e2e.model_support_tag
        cases.append(c)
    return cases


def replay_cases(lines):
    return [Case(l) for l in lines]
