"""C13 — the corner table built from any triangle list is a consistent manifold structure."""
from vlib.engine import Case

ID = "C13"
LEVEL = "proof"
LEAN_MODULES = ["DracoProps.C13"]
RULE = ("exhaustive: every list of <=2 triangles over 5 vertex ids and of 3 triangles over 4 ids (quick: a seeded 1/16 "
        "residue class of the 3-triangle lists; thorough: all, plus a 1/64 class of 3 triangles over 5 ids and a sampled "
        "class of 4 triangles over 5 ids); the digest of all canonical dumps is compared between CornerTable::Create and "
        "the model, the clauses I1..I5 are evaluated on the real class through its public accessors; random larger "
        "lists (<=400 faces) biased to edges with >2 faces, bow-ties, folded fans, repeated, mirrored and degenerate "
        "faces are compared dump by dump; distinct op lines")
THEOREM_BACKED = "c13_corner_table: I0 (termination/fuel), I1, I2, I3, I4, I5 for every triangle list in the domain of Create"
EXPLANATION = "full Lean proof of the four clauses for every input; the model equals CornerTable::Create on all enumerated and random inputs"


def sweep_oracle(hout, case):
    t = hout.split()
    if len(t) < 4:
        return ("ct-sweep-fail", f"`{case.op}` -> {hout}")
    if int(t[1]) != 0:
        return ("corner-table-inconsistent", f"`{case.op}`: {t[1]} of {t[2]} triangle lists violate C13 on the real CornerTable; first: {t[3]}")
    return None


def ct_oracle(hout, case):
    if hout == "NULL":
        return None
    if not hout.startswith("ok"):
        return ("corner-table-inconsistent", f"real CornerTable violates {hout.split(' | ')[0]} for `{case.op}`")
    return None


def rand_list(rng, nf):
    nv = rng.randint(3, max(3, nf // 2 + 3))
    faces = []
    mode = rng.randrange(5)
    for _ in range(nf):
        r = rng.random()
        if faces and r < 0.55:
            a, b, c = rng.choice(faces)
            e = rng.choice([(a, b), (b, c), (c, a)])
            if mode == 0:       # many faces on one edge
                e = (faces[0][0], faces[0][1])
            v = rng.randrange(nv)
            faces.append((e[1], e[0], v) if rng.random() < 0.75 else (e[0], e[1], v))
        elif faces and r < 0.65:
            a, b, c = rng.choice(faces)
            faces.append(rng.choice([(a, b, c), (c, b, a), (b, c, a), (a, a, b), (a, b, b), (a, b, a), (a, a, a)]))
        elif mode == 1 and faces:   # bow-tie / folded fan around vertex 0
            faces.append((0, rng.randrange(nv), rng.randrange(nv)))
        else:
            faces.append((rng.randrange(nv), rng.randrange(nv), rng.randrange(nv)))
    return faces


def generate(rng, tier):
    cases = []
    thorough = tier == "thorough"
    cases.append(Case("ct_sweep 1 5 1 0", oracle=sweep_oracle, tags=("exhaustive_1x5",)))
    cases.append(Case("ct_sweep 2 5 1 0", oracle=sweep_oracle, tags=("exhaustive_2x5",)))
    if thorough:
        for off in range(8):
            cases.append(Case(f"ct_sweep 3 4 8 {off}", oracle=sweep_oracle, tags=("exhaustive_3x4",)))
        cases.append(Case(f"ct_sweep 3 5 64 {rng.randrange(64)}", oracle=sweep_oracle, tags=("class_3x5",)))
        cases.append(Case(f"ct_sweep 4 5 4096 {rng.randrange(4096)}", oracle=sweep_oracle, tags=("class_4x5",)))
    else:
        cases.append(Case(f"ct_sweep 3 4 16 {rng.randrange(16)}", oracle=sweep_oracle, tags=("class_3x4",)))
        cases.append(Case(f"ct_sweep 3 5 1024 {rng.randrange(1024)}", oracle=sweep_oracle, tags=("class_3x5",)))
        cases.append(Case(f"ct_sweep 4 5 200000 {rng.randrange(200000)}", oracle=sweep_oracle, tags=("class_4x5",)))
    # witnesses of classic hard shapes
    for fl in ("0,1,4,0,1,2,0,2,3,0,3,1", "2,1,0,1,0,0", "2,0,0,1,0,0", "0,1,2,0,1,3,0,1,4,1,0,5", "0,1,2,2,1,0", "0,1,2,0,1,2"):
        cases.append(Case(f"ct {fl}", oracle=ct_oracle, tags=("witness",)))
    n = 6000 if thorough else 1200
    for _ in range(n):
        nf = rng.choice([rng.randint(3, 9), rng.randint(3, 9), rng.randint(10, 60), rng.randint(60, 400)])
        faces = rand_list(rng, nf)
        cases.append(Case("ct " + ",".join(str(i) for f in faces for i in f), oracle=ct_oracle,
                          tags=("random_small" if nf < 10 else "random_medium" if nf <= 60 else "random_large",)))
    return cases


def replay_cases(lines):
    return [Case(l, oracle=sweep_oracle if l.startswith("ct_sweep") else ct_oracle) for l in lines]
