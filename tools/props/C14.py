"""C14 — mesh-building and clean-up utilities never change what the mesh describes.

Every case is one op line (`dedupv|dedupp|dedupvp|cleanup|strips|buildmesh|buildpc …`, formats in
harness/ops_meshtools.cc and lean/Ops/MeshTools.lean).  The harness runs the real class; the Lean driver is
then handed the op line TOGETHER with what the implementation returned (`c14v <op…> @@ <result…>`) and answers
with (a) the clauses of C14 (lean/DracoModel/C14Verify.lean) evaluated on (input, implementation's result) and
(b) what the model computes for the op line.  (a) is the property oracle, (b) the correspondence; idempotence is
observed by the harness running the real operation twice.  Everything is a function of the op line, so a replay
needs nothing else."""
import os
import struct

from vlib.engine import Case
from . import geomgen as G

ID = "C14"
LEVEL = "proof"
LEAN_MODULES = ["DracoProps.C14"]
TIMEOUT = 3000
STRICT = os.environ.get("VERIF_C14_STRICT", "") not in ("", "0")

RULE = ("exhaustive small shapes: clean-up of every ordered pair of faces "
        "over 3 points + 1 isolated point under 3 position layouts x all 16 option subsets, a seeded 1/8 (thorough 1/2) "
        "class of the face triples over 4 points under option sets 3, 7, 15 (thorough: also every triple over 3 points "
        "under all 16 option sets), strips of every pair of faces over 4 points, and over 5 points two of which share a position "
        "(attribute seams at one end of an edge), in both modes (thorough: a 1/4 resp. 1/64 class of the triples), deduplication of 4 points under every pair of "
        "point->value maps of two attributes; plus random triangle soups / meshes / point sets with 1..5 attributes over all 11 data types and 1..6 components, "
        "values drawn from small pools (duplicate-heavy) containing +0.0/-0.0, NaNs with equal and different payloads, "
        "infinities, denormals, integer extremes; identity and explicit point->value maps, unused values, unused "
        "points, non-deduplicated points, per-face attributes, meshes without / with several POSITION attributes; "
        "topologies: grids, closed surfaces, fans on one edge, bow-ties, soups, with duplicate, rotated, mirrored and "
        "degenerate faces and attribute seams that split one or both ends of an edge. Operations: "
        "DeduplicateAttributeValues, DeduplicatePointIds, both, MeshCleanup under all 16 option subsets, "
        "MeshStripifier in both output modes, TriangleSoupMeshBuilder (per-corner and per-face values, two call "
        "orders), PointCloudBuilder (three ways of setting values, with and without deduplication), reused MeshStripifier / builder "
        "objects (history ops: the second use is judged like a fresh object's). Per case: the "
        "clauses of C14 are evaluated by the Lean checkers on (input, IMPLEMENTATION's result), the model's result "
        "must equal the implementation's canonical dump, idempotence is observed by running the real operation twice; "
        "a quarter of the random cases runs under ASan/UBSan"
        '; the external-source entry points PointAttribute::DeduplicateValues(in_att [, offset]) (op dedupx, '
        'oracle only, no model: every destination point carries the bit pattern of its source value, no two '
        'stored values identical)')
THEOREM_BACKED = ("dedupValues_preserves / _no_duplicates / _idempotent, dedupPointIds_preserves / _no_duplicates / "
                  "_idempotent, dedup_no_identical_points, cleanup_describes / _describes_exact / _survivors_spec / "
                  "_valid / _nothing_unused (all 16 option subsets), strips_describe_unconditional (both modes), "
                  "buildMesh_describes, buildPointCloud_describes — for every valid input of the model; "
                  "oracle_accepts_dedupValues / _dedupPointIds / _dedupBoth / _buildMesh / _buildPointCloud / _cleanup / "
                  "_strips: every clause this check demands of the implementation's result is implied by those "
                  "theorems; cleanup_idempotent")
TRUSTED_EXTRA = ["harness/ops_meshtools.cc (calls of the real utilities, canonical dump)",
                 "lean/DracoModel/C14Verify.lean (executable statement of the clauses evaluated on the implementation's "
                 "result; proved to hold of the model's result for every operation)"]
CORRESPONDENCE_ONLY = ('that the model equals the real classes (hash containers, in-place buffer compaction, template dispatch '
                       'over data types) is tied by the random cases, not proved; the external-source '
                       'PointAttribute::DeduplicateValues(in_att [, offset]) has no model: oracle only')
EXPLANATION = ("full Lean proofs on the executable model of every clause for the attribute types the deduplication "
               "handles; for 64-bit components and more than 4 components the 'no duplicates left' clause is false "
               "of the code (theorems *_unsupported_counterexample) and is not demanded, the 'describes' clauses "
               "are demanded and proved for all types")
ASSUMPTIONS = [
    "inputs are structurally valid geometries (C03): the utilities index without checks",
    "'supported type' in the 'no duplicates left' clause = the types PointAttribute::DeduplicateValues dispatches on "
    "(8/16/32-bit components, 1..4 components); other types are silently skipped by the code",
    "a duplicate face is a face over the same point ids (up to rotation) as an earlier face — what the code compares; "
    "the header speaks of position indices",
]

DT_ALL = [1, 2, 3, 4, 5, 6, 7, 8, 9, 10, 11]
SUPPORTED = {1, 2, 3, 4, 5, 6, 9, 11}

F32_SPECIAL = [0x00000000, 0x80000000, 0x7fc00000, 0x7fc00000, 0x7fc00001, 0xffc00000, 0x7f800000, 0xff800000,
               0x3f800000, 0xbf800000, 0x00000001, 0x80000001, 0x7f7fffff, 0x7fa00000]
F64_SPECIAL = [0x0, 0x8000000000000000, 0x7ff8000000000000, 0x7ff8000000000001, 0xfff8000000000000,
               0x7ff0000000000000, 0x3ff0000000000000, 0x1, 0x8000000000000001]


# ------------------------------------------------------------------ values

def rand_component(rng, dt):
    """bytes of one component; biased to bit patterns where value equality and byte equality differ"""
    n = G.DT_LEN[dt]
    r = rng.random()
    if dt == 9:
        if r < 0.45:
            return struct.pack("<I", rng.choice(F32_SPECIAL))
        if r < 0.9:
            return struct.pack("<f", rng.randint(-8, 8) / 4.0)
        return struct.pack("<I", rng.getrandbits(32))
    if dt == 10:
        if r < 0.45:
            return struct.pack("<Q", rng.choice(F64_SPECIAL))
        if r < 0.9:
            return struct.pack("<d", rng.randint(-8, 8) / 4.0)
        return struct.pack("<Q", rng.getrandbits(64))
    if dt == 11:
        return bytes([rng.choice([0, 1, 1, 0, 2, 255]) if r < 0.2 else rng.choice([0, 1])])
    bits = 8 * n
    if r < 0.4:
        v = rng.choice([0, 1, (1 << bits) - 1, 1 << (bits - 1), (1 << (bits - 1)) - 1, 2, 0x80, 0xff])
    elif r < 0.8:
        v = rng.randint(0, 5)
    else:
        v = rng.getrandbits(bits)
    return (v & ((1 << bits) - 1)).to_bytes(n, "little")


def rand_pool(rng, dt, nc, k):
    """k values (bytes); later ones are often an earlier one with a single component changed"""
    pool = []
    n = G.DT_LEN[dt]
    for _ in range(k):
        if pool and rng.random() < 0.5:
            b = bytearray(rng.choice(pool))
            j = rng.randrange(nc)
            b[j * n:(j + 1) * n] = rand_component(rng, dt)
            pool.append(bytes(b))
        else:
            pool.append(b"".join(rand_component(rng, dt) for _ in range(nc)))
    return pool


def rand_spec(rng, att_type=None, supported_only=False):
    """(att_type, dtype, ncomp, normalized)"""
    dt = rng.choice(sorted(SUPPORTED)) if supported_only or rng.random() < 0.75 else rng.choice(DT_ALL)
    nc = rng.choice([1, 2, 3, 3, 4]) if supported_only or rng.random() < 0.88 else rng.choice([5, 6])
    t = att_type if att_type is not None else rng.choice([G.NORMAL, G.COLOR, G.TEX_COORD, G.GENERIC, G.GENERIC])
    return (t, dt, nc, rng.random() < 0.2)


def rand_specs(rng, position="first"):
    """1..5 attribute descriptors; `position`: first | any | none | random"""
    na = rng.choice([1, 1, 2, 2, 3, 4, 5])
    sup = rng.random() < 0.5
    if position == "random":
        position = rng.choice(["first", "first", "first", "any", "none"])
    specs = [rand_spec(rng, supported_only=sup) for _ in range(na)]
    if position != "none":
        k = 0 if position == "first" else rng.randrange(na)
        t, dt, nc, nz = specs[k]
        if rng.random() < 0.6:
            dt, nc = 9, 3
        specs[k] = (G.POSITION, dt, nc, nz)
        if na > 1 and rng.random() < 0.08:      # a second POSITION attribute: the first one counts
            j = rng.randrange(na)
            specs[j] = (G.POSITION,) + specs[j][1:]
    return specs


def pooled_values(rng, dt, nc, nv, k=None):
    k = k or rng.choice([1, 2, 3, 4, max(1, nv // 2), nv + 1])
    pool = rand_pool(rng, dt, nc, max(1, k))
    return b"".join(rng.choice(pool) for _ in range(nv))


# ------------------------------------------------------------------ geometries

def rand_faces(rng, npnt, nf):
    if npnt == 0:
        return []
    faces = []
    for _ in range(nf):
        r = rng.random()
        if faces and r < 0.45:
            a, b, c = rng.choice(faces)
            e = rng.choice([(a, b), (b, c), (c, a)])
            faces.append((e[1], e[0], rng.randrange(npnt)))
        elif faces and r < 0.6:
            a, b, c = rng.choice(faces)
            faces.append(rng.choice([(a, b, c), (b, c, a), (c, a, b), (c, b, a), (a, a, b), (a, b, a), (b, a, a), (a, a, a)]))
        else:
            faces.append((rng.randrange(npnt), rng.randrange(npnt), rng.randrange(npnt)))
    return faces


def rand_raw_geometry(rng, size, position="random"):
    """points over small value pools: many equal values, many points with equal value indices, unused values"""
    is_mesh = rng.random() < 0.6
    npnt = rng.choice([0, 1, 2]) if rng.random() < 0.06 else rng.randint(1, max(1, size))
    specs = rand_specs(rng, position)
    atts = []
    explicit_bias = rng.random()
    for k, (t, dt, nc, nz) in enumerate(specs):
        uid = k if rng.random() < 0.8 else rng.randrange(50)
        if rng.random() < explicit_bias and npnt > 0:
            nv = rng.choice([1, 2, 3, max(1, npnt // 2), npnt, npnt + 2])
            lim = rng.choice([nv, nv, max(1, nv - 1)])
            amap = [rng.randrange(lim) for _ in range(npnt)]
            atts.append(G.Attr(t, dt, nc, nz, uid, nv, amap, pooled_values(rng, dt, nc, nv)))
        else:
            nv = npnt + (rng.choice([1, 2, 5]) if rng.random() < 0.15 else 0)
            atts.append(G.Attr(t, dt, nc, nz, uid, nv, None, pooled_values(rng, dt, nc, nv)))
    faces = rand_faces(rng, npnt, rng.randint(0, max(1, size))) if is_mesh else []
    g = G.Geom(is_mesh, npnt, faces, atts)
    g.family = "raw"
    return g


def structured_mesh(rng, size, position="first"):
    """topology-driven mesh (geomgen: seams, per-face / per-corner layouts, isolated points, non-deduplicated
    points, sprinkled duplicate / mirrored / degenerate faces) with pooled values"""
    specs = rand_specs(rng, "first")
    gs = [(t, dt, nc, nz, k) for k, (t, dt, nc, nz) in enumerate(specs)]
    g = G.rand_mesh(rng, size, gs)
    for a in g.atts:
        if rng.random() < 0.7:
            # positions mostly distinct (so that faces are geometrically meaningful), the others pooled
            k = a.num_values + 1 if a.att_type == G.POSITION and rng.random() < 0.7 else None
            a.values = pooled_values(rng, a.dtype, a.ncomp, a.num_values, k)
        else:
            a.values = b"".join(rand_pool(rng, a.dtype, a.ncomp, 1)[0] if rng.random() < 0.2 else
                                b"".join(rand_component(rng, a.dtype) for _ in range(a.ncomp))
                                for _ in range(a.num_values))
    if position == "random":
        position = rng.choice(["first", "first", "first", "any", "none"])
    if position == "any" and len(g.atts) > 1:
        j = rng.randrange(len(g.atts))
        g.atts[0], g.atts[j] = g.atts[j], g.atts[0]
    elif position == "none":
        for a in g.atts:
            if a.att_type == G.POSITION:
                a.att_type = G.GENERIC
    return g


def soupify(rng, g):
    """the same triangles over 3 points per face (what a loader hands to the utilities before deduplication)"""
    corners = [p for f in g.faces for p in f]
    extra = [rng.randrange(g.num_points) for _ in range(rng.choice([0, 0, 1, 3]))] if g.num_points else []
    src = corners + extra
    atts = []
    for a in g.atts:
        if rng.random() < 0.5:
            vals = b"".join(a.point_value(p) for p in src)
            atts.append(G.Attr(a.att_type, a.dtype, a.ncomp, a.normalized, a.uid, len(src), None, vals))
        else:
            amap = [(p if a.map is None else a.map[p]) for p in src]
            atts.append(G.Attr(a.att_type, a.dtype, a.ncomp, a.normalized, a.uid, a.num_values, amap, a.values))
    faces = [(3 * i, 3 * i + 1, 3 * i + 2) for i in range(len(g.faces))]
    s = G.Geom(True, len(src), faces, atts)
    s.family = "soupified_" + getattr(g, "family", "x")
    return s


def rand_cloud(rng, size):
    g = rand_raw_geometry(rng, size)
    g.is_mesh, g.faces = False, []
    return g


def adversarial_faces(rng, g):
    """append faces that the clean-up must tell apart: exact / rotated duplicates, mirrored faces, faces over other
    points with the same values, degenerate faces"""
    if not g.faces or g.num_points == 0:
        return
    for _ in range(rng.choice([1, 2, 4])):
        a, b, c = rng.choice(g.faces)
        kind = rng.choice(["dup", "rot", "rot2", "mirror", "mirror", "deg", "deg2", "alias"])
        if kind == "dup":
            g.faces.append((a, b, c))
        elif kind == "rot":
            g.faces.append((b, c, a))
        elif kind == "rot2":
            g.faces.append((c, a, b))
        elif kind == "mirror":
            g.faces.append(rng.choice([(c, b, a), (a, c, b), (b, a, c)]))
        elif kind == "deg":
            g.faces.append(rng.choice([(a, a, b), (a, b, a), (b, a, a), (a, a, a)]))
        elif kind == "deg2":
            g.faces.extend([(a, b, a), (a, a, b)])
        else:
            # a new point with the same value indices as `a` (same position index, other point id)
            for t in g.atts:
                if t.map is None:
                    t.map = list(range(g.num_points))
                t.map.append(t.map[a])
            g.num_points += 1
            g.faces.append(rng.choice([(g.num_points - 1, b, c), (b, c, g.num_points - 1), (c, b, g.num_points - 1)]))
    if rng.random() < 0.5:
        rng.shuffle(g.faces)


# ------------------------------------------------------------------ builders' inputs

def mesh_builder_line(rng, size):
    fam, nv, vfaces = G.rand_topology(rng, size)
    nf = len(vfaces)
    specs = rand_specs(rng, rng.choice(["first", "first", "any", "none"]))
    toks = [f"buildmesh {nf} {len(specs)}"]
    tags = set()
    for (t, dt, nc, nz) in specs:
        stride = G.DT_LEN[dt] * nc
        layout = rng.choice(["vertex", "vertex", "pool", "face", "mixed", "corner"])
        pool = rand_pool(rng, dt, nc, rng.choice([1, 2, 3, 5]))
        per_vertex = [rng.choice(pool) if rng.random() < 0.3 else b"".join(rand_component(rng, dt) for _ in range(nc))
                      for _ in range(max(nv, 1))]
        kinds, data = [], []
        for f in vfaces:
            per_face = layout == "face" or (layout == "mixed" and rng.random() < 0.4)
            if per_face:
                kinds.append("1")
                data.append(rng.choice(pool))
            else:
                kinds.append("0")
                for v in f:
                    if layout in ("vertex", "mixed"):
                        data.append(per_vertex[v])
                    elif layout == "pool":
                        data.append(rng.choice(pool))
                    else:
                        data.append(b"".join(rand_component(rng, dt) for _ in range(nc)))
        assert all(len(d) == stride for d in data)
        tags.add("layout_" + layout)
        toks.append(f"{t} {dt} {nc} {1 if nz else 0} {''.join(kinds) or '-'} {b''.join(data).hex() or '-'}")
    return " ".join(toks), tags | {"topo_" + fam}


def cloud_builder_line(rng, size):
    npnt = rng.choice([0, 1]) if rng.random() < 0.05 else rng.randint(1, max(1, size))
    specs = rand_specs(rng, "random")
    dedup = rng.random() < 0.7
    toks = [f"buildpc {npnt} {1 if dedup else 0} {len(specs)}"]
    for (t, dt, nc, nz) in specs:
        vals = pooled_values(rng, dt, nc, npnt)
        toks.append(f"{t} {dt} {nc} {1 if nz else 0} {rng.choice([0, 1, 2])} {vals.hex() or '-'}")
    return " ".join(toks), {"dedup" if dedup else "nodedup"}


# ------------------------------------------------------------------ case plumbing

def _short(s, n=600):
    s = str(s)
    return s if len(s) <= n else s[:n] + f"…(+{len(s) - n} chars)"


def impl_result(hout):
    return hout.split(" || ")[0]


def plain_of(line):
    """history ops (`stripsh modeA modeB A -- B`, `buildmeshh A -- B`, `buildpch A -- B`: ONE object of the class
    used for A and then for B) are judged as the plain op on their last input"""
    t = line.split()
    if not t or "--" not in t:
        return None
    rest = " ".join(t[t.index("--") + 1:])
    if t[0] == "stripsh":
        return f"strips {t[2]} {rest}"
    if t[0] == "buildmeshh":
        return f"buildmesh {rest}"
    if t[0] == "buildpch":
        return f"buildpc {rest}"
    return None


def as_line(case):
    return getattr(case, "plain_line", None) or case.op


def model_line(case):
    def f(hout):
        if hout is None or hout.startswith("CRASH") or hout in ("invalid-input", "bad-op"):
            return None
        return f"c14v {as_line(case)} @@ {impl_result(hout)}"
    return f


def oracle(hout, case):
    """what can be judged from the implementation's output alone: the op ran, idempotence"""
    op = as_line(case).split(" ", 1)[0]
    if hout in ("invalid-input", "bad-op"):
        return ("c14-generator-invalid-input", f"the harness refused `{_short(case.op)}`: {hout}")
    parts = hout.split(" || ")
    dedups = op in ("dedupv", "dedupp", "dedupvp") or op == "buildmesh" or (op == "buildpc" and as_line(case).split()[2] == "1")
    if dedups and hout != "null":
        if len(parts) < 2:
            return ("c14-malformed-output", f"`{_short(case.op)}` -> {_short(hout)}")
        if "ret=false" in parts[2:]:
            return (f"c14-{op}-reported-failure", f"DeduplicateAttributeValues returned false for `{_short(case.op)}`")
        if parts[1] != "=":
            return (f"c14-{op}-not-idempotent",
                    f"running the deduplication (again) on the result changed the geometry: `{_short(case.op)}` -> first {_short(parts[0])} second {_short(parts[1])}")
    if op == "cleanup" and hout.startswith("err-modified"):
        return ("c14-cleanup-failed-but-modified",
                f"MeshCleanup::Cleanup reported an error but changed the mesh: `{_short(case.op)}` -> {_short(hout)}")
    return None


def parse_flags(mout):
    head = mout.split(" | ", 1)[0]
    if head == "-":
        return {}
    return {kv.split("=")[0]: kv.split("=")[1] for kv in head.split()}


def spec(hout, mout, case):
    """the clauses of C14 on (input, implementation's result), evaluated by the Lean checkers"""
    op = as_line(case).split(" ", 1)[0]
    if " | " not in mout:
        return ("c14-verifier-malformed", f"`c14v {_short(case.op)}` -> {_short(mout)}")
    flags = parse_flags(mout)
    for name, v in flags.items():
        if v == "T":
            continue
        if name.startswith("strict-"):
            if STRICT:
                return ("c14-unsupported-type-keeps-duplicates",
                        f"{name[7:]} fails for `{_short(case.op)}`: the implementation returned {_short(impl_result(hout))}")
            continue
        return (f"c14-{op}-{name}",
                f"clause '{name}' of C14 is violated by the implementation: `{_short(case.op, 3000)}` returned {_short(impl_result(hout), 3000)}")
    return None


def expect(hout, mout, case):
    if " | " not in mout:
        return f"verifier output malformed: {_short(mout)}"
    m = mout.split(" | ", 1)[1]
    h = impl_result(hout)
    if m != h:
        return f"`{_short(case.op)}`: implementation: {_short(h)} | model: {_short(m)}"
    # theorem cleanup_idempotent: the model's second run returns its input; the implementation's must too
    if case.op.startswith("cleanup ") and hout.startswith("ok ") and hout.split(" || ")[1:2] != ["="]:
        return (f"`{_short(case.op)}`: a second MeshCleanup::Cleanup with the same options changed the mesh again "
                f"(the model is idempotent): first {_short(h)} second {_short(hout.split(' || ', 1)[1] if ' || ' in hout else '?')}")
    return None


def strict_tag(mout):
    if not mout:
        return "verifier_missing"
    f = parse_flags(mout)
    bad = [k for k, v in f.items() if k.startswith("strict-") and v != "T"]
    return "unsupported_type_duplicates_kept" if bad else "strict_clauses_hold"


def dedupx_oracle(want, width):
    """C14 for the external-source deduplication: every destination point carries the bit pattern of its source
    value, and no two stored values are identical"""
    def f(hout, case):
        parts = hout.split("|")
        if len(parts) != 3 or "ret=" not in parts[0]:
            return ("dedupx-malformed", f"`{case.op[:200]}` -> {hout[:200]}")
        ret = int(parts[0].split()[0].split("=")[1])
        if ret < 0:
            return None       # the type is reported as unsupported: nothing is promised
        got = parts[1].split()
        stored = parts[2].split()
        if got != [w.hex() for w in want]:
            bad = [i for i in range(min(len(got), len(want))) if got[i] != want[i].hex()][:3]
            return ("dedup-changes-values", f"external-source deduplication changed point values (first at points {bad}; {len(got)} of {len(want)} points) for `{case.op[:300]}`")
        if len(set(stored)) != len(stored) or len(stored) != len(set(got)):
            return ("dedup-leaves-duplicates", f"{len(stored)} stored values for {len(set(got))} distinct bit patterns for `{case.op[:300]}`")
        return None
    return f


def make_case(line, tags=(), flavour="plain"):
    c = Case(line, oracle=oracle, expect=expect, tags=tags, flavour=flavour)
    c.plain_line = plain_of(line)
    c.model = model_line(c)
    c.spec = spec
    c.mtag = strict_tag
    return c


def geom_tags(g):
    t = {"mesh" if g.is_mesh else "cloud", "fam_" + getattr(g, "family", "x")[:24], f"atts{len(g.atts)}"}
    for a in g.atts:
        t.add(f"dt{a.dtype}")
        t.add("nc>4" if a.ncomp > 4 else f"nc{a.ncomp}")
        t.add("map_identity" if a.map is None else "map_explicit")
        if a.map is None and a.num_values > g.num_points:
            t.add("identity_spare_values")
    if not any(a.att_type == G.POSITION for a in g.atts):
        t.add("no_position")
    return t


# ------------------------------------------------------------------ generate

WITNESSES = [
    # the inputs named in lean/DracoProps/C14.lean
    "dedupv pc 2 0 - 1 0 7 1 0 0 2 id 00000000000000000000000000000000 none",
    "dedupv pc 2 0 - 1 0 9 5 0 0 2 id " + "00" * 40 + " none",
    "dedupv pc 5 0 - 1 0 9 1 0 0 5 id 00000000000000800000c07f0000c07f0100c07f none",
    "dedupv mesh 4 2 0,1,2,2,1,3 1 0 9 1 0 0 4 id 0000000000000080000000000000c07f none",
    "dedupp mesh 6 2 0,1,2,3,4,5 1 0 2 1 0 0 4 0,1,2,2,1,3 0a141e28 none",
    "dedupvp mesh 6 2 0,1,2,3,4,5 1 0 2 1 0 0 6 id 0a141e1e1428 none",
    "cleanup 7 mesh 6 4 0,1,2,1,1,3,1,2,0,2,1,3 1 0 2 1 0 0 5 0,1,2,3,4,4 0a141e2832 none",
    "cleanup 2 mesh 3 2 0,1,0,0,0,1 1 0 9 3 0 0 3 id " + "00" * 36 + " none",
    "cleanup 2 mesh 6 2 0,1,2,3,4,5 1 0 9 3 0 0 3 0,1,2,0,1,2 " + "00" * 36 + " none",
    "cleanup 4 mesh 3 1 0,1,2 1 1 9 3 0 0 3 id " + "00" * 36 + " none",
    "cleanup 8 mesh 3 1 0,1,2 1 1 9 3 0 0 3 id " + "00" * 36 + " none",
    "cleanup 0 mesh 3 1 0,1,2 1 1 9 3 0 0 3 id " + "00" * 36 + " none",
    # double-sided triangle: the mirrored face is another triangle
    "cleanup 2 mesh 3 2 0,1,2,2,1,0 1 0 2 1 0 0 3 id 0a141e none",
    "cleanup 7 mesh 3 4 0,1,2,2,1,0,1,2,0,0,2,1 1 0 2 1 0 0 3 id 0a141e none",
    "strips 1 mesh 9 6 2,1,3,0,1,2,3,4,2,6,7,8,3,5,4,7,7,8 1 0 2 1 0 0 9 id 0a141e28323c46505a none",
    "strips 0 mesh 9 6 2,1,3,0,1,2,3,4,2,6,7,8,3,5,4,7,7,8 1 0 2 1 0 0 9 id 0a141e28323c46505a none",
    "strips 1 mesh 3 1 0,1,2 1 1 9 3 0 0 3 id " + "00" * 36 + " none",
    "strips 1 mesh 0 0 - 1 0 9 3 0 0 0 id - none",
    "buildmesh 2 2 0 2 1 0 00 0a141e1e1428 2 2 2 0 11 01020102",
    "buildmesh 0 1 0 9 3 0 - -",
    "buildpc 4 1 1 0 2 1 0 0 0a140a1e",
    "buildpc 2 1 1 0 7 1 0 0 " + "00" * 16,
    "buildpc 0 1 1 0 9 3 0 0 -",
]


def cone_with_half_seams(rng, k, restart_flip=False):
    """fan around an apex whose NORMAL is per face while the ring is shared: every interior edge is an attribute
    seam at exactly one of its end points"""
    ring = list(range(k + 1))
    pos_vals = b"".join(struct.pack("<fff", float(i), float(i * i % 7), 1.0) for i in range(k + 2))
    faces, pmap, nmap = [], [], []
    # points: ring points 0..k (position i, normal i), apex copies k+1.. (position k+1, normal k+1+j)
    for i in ring:
        pmap.append(i)
        nmap.append(i)
    for j in range(k):
        pmap.append(k + 1)
        nmap.append(k + 1 + j)
        apex = k + 1 + j
        faces.append((apex, j, j + 1) if not restart_flip else (j + 1, apex, j))
    nn = 2 * k + 1
    nrm_vals = b"".join(struct.pack("<fff", float(i), 0.5, -1.0) for i in range(nn))
    g = G.Geom(True, len(pmap), faces, [G.Attr(G.POSITION, 9, 3, False, 0, k + 2, pmap, pos_vals),
                                         G.Attr(G.NORMAL, 9, 3, False, 1, nn, nmap, nrm_vals)])
    g.family = "cone_half_seams"
    if rng.random() < 0.5:
        rng.shuffle(g.faces)
    return g


# ------------------------------------------------------------------ exhaustive small inputs

def tiny_att(att_type, uid, amap, nv, base=10):
    """one-component UINT8 attribute with the distinct values base, base+10, …"""
    vals = bytes((base + 10 * i) & 255 for i in range(nv))
    m = "id" if amap is None else ",".join(map(str, amap))
    return f"{att_type} 2 1 0 {uid} {nv} {m} {vals.hex() or '-'} none"


def tiny_mesh(faces, npnt, atts):
    fl = ",".join(str(i) for f in faces for i in f) or "-"
    return f"mesh {npnt} {len(faces)} {fl} {len(atts)} " + " ".join(atts)


def all_face_lists(npnt, nf):
    tri = [(a, b, c) for a in range(npnt) for b in range(npnt) for c in range(npnt)]
    lists = [[]]
    for _ in range(nf):
        lists = [l + [t] for l in lists for t in tri]
    return lists


def exhaustive_cases(rng, thorough):
    """every input of a small shape"""
    out = []

    # clean-up: every ordered pair of faces over 3 points (+1 isolated point) x position layouts x all 16 option sets
    pos_layouts = [
        ("pos_identity", lambda: [tiny_att(0, 0, None, 4)]),
        ("pos_shared_index", lambda: [tiny_att(0, 0, [0, 1, 1, 2], 4)]),            # points 1,2: same position index; value 3 unused
        ("pos_alias+normal", lambda: [tiny_att(1, 0, [0, 1, 2, 0], 3, 100), tiny_att(0, 1, [0, 1, 0, 2], 3)]),
    ]
    pairs = all_face_lists(3, 2)
    for name, mk in pos_layouts:
        atts = mk()
        for faces in pairs:
            txt = tiny_mesh(faces, 4, atts)
            for bits in range(16):
                out.append((f"cleanup {bits} {txt}", ("exhaustive_cleanup_2x3", name, f"opts{bits}")))
    # every triple of faces over 4 points (points 1,2 share the position index, value 3 unused):
    # quick: a seeded 1/8 class x option sets {3, 7, 15}; thorough: a 1/2 class x the same
    atts4 = pos_layouts[1][1]()
    triples4 = all_face_lists(4, 3)
    k = 2 if thorough else 8
    off = rng.randrange(k)
    for faces in triples4[off::k]:
        txt = tiny_mesh(faces, 4, atts4)
        for bits in (3, 7, 15):
            out.append((f"cleanup {bits} {txt}", ("class_cleanup_3x4", f"opts{bits}")))
    if thorough:
        atts = pos_layouts[1][1]()
        for faces in all_face_lists(3, 3):
            txt = tiny_mesh(faces, 4, atts)
            for bits in range(16):
                out.append((f"cleanup {bits} {txt}", ("exhaustive_cleanup_3x3", f"opts{bits}")))
    # strips: every pair (thorough: a class of the triples) of faces over 4 points; point 3 may alias the position
    # of point 0 (an attribute seam) — both output modes
    strip_layouts = [
        ("pos_identity", 4, [tiny_att(0, 0, None, 4)]),
        # point 4 has the position of point 0 and its own normal: edges at position 0 can be seams at one end only
        ("pos_alias_seam", 5, [tiny_att(0, 0, [0, 1, 2, 3, 0], 4), tiny_att(1, 1, None, 5, 100)]),
    ]
    for name, npnt, atts in strip_layouts:
        for faces in all_face_lists(npnt, 2):
            txt = tiny_mesh(faces, npnt, atts)
            for mode in (0, 1):
                out.append((f"strips {mode} {txt}", (f"exhaustive_strips_2x{npnt}", name)))
    if thorough:
        triples = all_face_lists(4, 3)
        off = rng.randrange(4)
        name, npnt, atts = strip_layouts[0]
        for faces in triples[off::4]:
            txt = tiny_mesh(faces, 4, atts)
            for mode in (0, 1):
                out.append((f"strips {mode} {txt}", ("class_strips_3x4", name)))
        triples = all_face_lists(5, 3)
        off = rng.randrange(64)
        name, npnt, atts = strip_layouts[1]
        for faces in triples[off::64]:
            txt = tiny_mesh(faces, 5, atts)
            for mode in (0, 1):
                out.append((f"strips {mode} {txt}", ("class_strips_3x5", name)))
    # deduplication: 4 points, two attributes with every pair of point->value maps over 2 values each; the two
    # values of an attribute are equal or different; as a cloud and as a mesh
    maps = [[(m >> i) & 1 for i in range(4)] for m in range(16)]
    combos = [(m1, m2, e1, e2) for m1 in maps for m2 in maps for e1 in (0, 1) for e2 in (0, 1)]
    for (m1, m2, e1, e2) in combos:
        a1 = f"0 2 1 0 0 2 {','.join(map(str, m1))} {'0a0a' if e1 else '0a14'} none"
        a2 = f"4 5 1 0 1 2 {','.join(map(str, m2))} {'0100000001000000' if e2 else '01000000ffffffff'} none"
        for kind in ("pc 4 0 - 2", "mesh 4 2 0,1,2,2,1,3 2"):
            for op in ("dedupv", "dedupp", "dedupvp"):
                out.append((f"{op} {kind} {a1} {a2}", ("exhaustive_dedup_4pts", op)))
    return out


def generate(rng, tier):
    thorough = tier == "thorough"
    mult = 40 if thorough else 4
    cases = [make_case(w, tags=("witness",)) for w in WITNESSES]
    for line, tags in exhaustive_cases(rng, thorough):
        cases.append(make_case(line, tags=tags))

    def size():
        r = rng.random()
        if r < 0.55:
            return rng.randint(1, 8)
        if r < 0.9:
            return rng.randint(9, 40)
        if r < 0.995:
            return rng.randint(41, 600 if thorough else 200)
        return rng.randint(1000, 4000 if thorough else 1500)

    def add(line, tags, g=None):
        t = set(tags)
        if g is not None:
            assert g.valid() is None, (g.valid(), line[:200])
            t |= geom_tags(g)
        # a quarter of the random cases runs under ASan/UBSan: the utilities index without checks, a valid input
        # must never make them touch memory outside their buffers
        fl = "asan" if rng.random() < 0.25 else "plain"
        if fl == "asan":
            t.add("asan")
        cases.append(make_case(line, tags=tuple(sorted(t)), flavour=fl))

    # --- deduplication
    for op in ("dedupv", "dedupp", "dedupvp"):
        for _ in range(140 * mult):
            r = rng.random()
            if r < 0.4:
                g = rand_raw_geometry(rng, size())
            elif r < 0.55:
                g = rand_cloud(rng, size())
            elif r < 0.8:
                g = soupify(rng, structured_mesh(rng, size(), "random"))
            else:
                g = structured_mesh(rng, size(), "random")
            add(f"{op} {g.to_text()}", (op,), g)
    # --- the external-source entry points PointAttribute::DeduplicateValues(in_att [, offset]) (oracle only)
    for _ in range(60 * mult):
        n = rng.randint(1, 40)
        dt = rng.choice(["u8", "i8", "u16", "i16", "u32", "i32", "f32"])
        nc = rng.randint(1, 4)
        width = {"u8": 1, "i8": 1, "u16": 2, "i16": 2, "u32": 4, "i32": 4, "f32": 4}[dt] * nc
        pool = [bytes(rng.getrandbits(8) for _ in range(width)) for _ in range(rng.choice([1, 2, 3, n, n]))]
        if dt == "f32" and rng.random() < 0.5:
            pool += [struct.pack("<f", 0.0) * nc, struct.pack("<f", -0.0) * nc, bytes.fromhex("0000c07f") * nc]
        vals = [rng.choice(pool) for _ in range(n)]
        off = rng.choice([0, 0, 1, 2, n // 2, n - 1])
        off = max(0, min(off, n - 1))
        mode = "plain" if off == 0 and rng.random() < 0.5 else "offset"
        line = f"dedupx {off} {mode} pc {n} 0 - 1 {rng.randint(0, 4)} {G.DT[dt]} {nc} 0 0 {n} id {b''.join(vals).hex()} none"
        c = Case(line, oracle=dedupx_oracle(vals[off:], width), tags=("dedupx", mode, f"dt{G.DT[dt]}"), flavour="asan" if rng.random() < 0.3 else "plain")
        c.model = False
        cases.append(c)
    # --- clean-up: every option subset on every mesh
    for _ in range(28 * mult):
        r = rng.random()
        if r < 0.6:
            g = structured_mesh(rng, size(), "random")
        elif r < 0.8:
            g = rand_raw_geometry(rng, size(), "random")
            g.is_mesh = True
            if not g.faces:
                g.faces = rand_faces(rng, g.num_points, rng.randint(0, 6))
        else:
            g = soupify(rng, structured_mesh(rng, size(), "first"))
        if rng.random() < 0.7:
            adversarial_faces(rng, g)
        txt = g.to_text()
        for bits in range(16):
            add(f"cleanup {bits} {txt}", ("cleanup", f"opts{bits}"), g)
    # --- strips
    for i in range(130 * mult):
        r = rng.random()
        if r < 0.15:
            g = cone_with_half_seams(rng, rng.randint(2, 9), rng.random() < 0.5)
        elif r < 0.8:
            g = structured_mesh(rng, size(), "first" if rng.random() < 0.93 else "none")
        else:
            g = rand_raw_geometry(rng, size(), "first")
            g.is_mesh = True
            if not g.faces:
                g.faces = rand_faces(rng, g.num_points, rng.randint(0, 6))
        if rng.random() < 0.2:
            adversarial_faces(rng, g)
        txt = g.to_text()
        for mode in (0, 1):
            add(f"strips {mode} {txt}", ("strips", "restart" if mode else "degenerate_triangles"), g)
    # --- histories: ONE MeshStripifier object used for mesh A first, then judged on mesh B
    for _ in range(60 * mult):
        ga = structured_mesh(rng, rng.choice([2, 3, 5, 9]), "first")
        gb = structured_mesh(rng, rng.choice([3, 6, 12, 30]), "first")
        if not ga.faces or not gb.faces:
            continue
        ma, mb = rng.randrange(2), rng.randrange(2)
        cases.append(make_case(f"stripsh {ma} {mb} {ga.to_text()} -- {gb.to_text()}", ("strips_history",)))
    # --- builders
    for _ in range(150 * mult):
        line, tags = mesh_builder_line(rng, size())
        add(line, {"buildmesh"} | tags)
    for _ in range(120 * mult):
        line, tags = cloud_builder_line(rng, size())
        add(line, {"buildpc"} | tags)
    # --- histories: ONE builder object, Start … Finalize for A, then Start … Finalize for B (the MultiUse pattern of
    # point_cloud_builder_test.cc); B is judged like the result of a fresh object. A is mostly larger than B and
    # has other attributes, so that anything kept from the first use would show.
    for _ in range(60 * mult):
        la, _t = mesh_builder_line(rng, rng.choice([3, 8, 20, 40]))
        lb, tags = mesh_builder_line(rng, rng.choice([1, 2, 5, 12, 30]))
        add(f"buildmeshh {la.split(' ', 1)[1]} -- {lb.split(' ', 1)[1]}", {"buildmesh_history"} | tags)
    for _ in range(60 * mult):
        la, _t = cloud_builder_line(rng, rng.choice([3, 8, 20, 40]))
        lb, tags = cloud_builder_line(rng, rng.choice([1, 2, 5, 12, 30]))
        add(f"buildpch {la.split(' ', 1)[1]} -- {lb.split(' ', 1)[1]}", {"buildpc_history"} | tags)
    # the smallest failing input is reported first
    cases.sort(key=lambda c: len(c.op))
    return cases


def replay_cases(lines):
    # both flavours: a crash found under ASan must replay under ASan
    out = []
    for l in lines:
        for fl in ("plain", "asan"):
            out.append(make_case(l, tags=("replay", fl), flavour=fl))
    return out
