"""C12 — explicit quantization maps equal coordinates to equal decoded values."""
import struct
from fractions import Fraction

from vlib.engine import Case
from . import e2e, geomgen as G, topo2, options_cases
from .geomgen import f32, f32_bits, bits_f32

ID = "C12"
LEVEL = "proof"
LEAN_MODULES = ["DracoProps.C12"]
RULE = ("PAIRS (A, B) of geometries (point clouds and meshes of independent topology families / sizes) whose explicitly "
        "quantized float attribute (POSITION x2/x3, or a TEX_COORD / GENERIC attribute) shares a random subset of whole "
        "value rows and of single coordinates (same component), all values inside the caller's box (checked in exact "
        "rationals), incl. the box corners and k+1/2 steps; A and B are encoded SEPARATELY with the same (origin, range, "
        "bits) through SetAttributeExplicitQuantization of the ExpertEncoder (per attribute id) or the Encoder (per type) "
        "under independently drawn methods (sequential / kd-tree / Edgebreaker standard / valence), speeds 0..10, "
        "prediction schemes, built-in entropy coding on/off, other attributes and their quantization. Every point "
        "carries a lossless int32 tag attribute, so each decoded point is matched to its input point whatever the "
        "method's point order. Oracle per geometry: decode succeeds; the stream declares exactly the requested "
        "(bits, range, origin); every decoded component is bit-identical to the Lean model's dequantize(quantize(x)) "
        "(driver op qattr with the explicit parameters: a function of x, origin_c, range, bits only) and equals the "
        "float32 expression float(k)*(range/float(2^bits-1))+origin_c for the integer k >= 0 exposed by the decode with "
        "skipped transform (grid membership); equal coordinates decode to one bit pattern inside the geometry. Oracle "
        "per pair: every coordinate shared by A and B decodes to the same bit pattern in both."
        ' A third of the Encoder-API pairs runs as a history on ONE draco::Encoder object (op encdech: A, then B '
        'with the explicit parameters set again); random command scripts on the real Options / EncoderOptions '
        'classes against the Lean option-store model (props/options_cases.py: SetAttributeExplicitQuantization '
        'stores origin / range through Options::SetVector / SetFloat).')
THEOREM_BACKED = ('explicit_pointwise (decoded = dequantize(quantize x), any FloatOps instance), on_grid (exact), '
                  'on_grid_float_partial (relative-error model: k <= 2^bits-1 only for bits <= 20, sharp: '
                  'quantized_exceeds_max_witness_21), on_grid_float_grid (grid-exact rounding model: bits <= 22), '
                  'decodeParameters_encodeParameters_roundtrip, requantize_grid_point / decode_encode_idempotent (exact arithmetic: grid points are fixed points, decode . encode is idempotent); cited from C01: options_get_set_float / '
                  'draco_options_attribute_resolution (the explicit origin / range pass the option store as float bit '
                  'patterns, attribute -> global -> default); the oracle demands k >= 0 and tags k > 2^bits-1')
CORRESPONDENCE_ONLY = "that the codec applies exactly this pipeline to explicitly quantized attributes under every method is what the oracle samples"
EXPLANATION = ("the theorem speaks about AttributeQuantizationTransform; the end-to-end statement (no method, topology or option "
               "leaks into the value) is checked on real encodes of pairs")
ASSUMPTIONS = ["IEEE-754 binary32 round-to-nearest for + - * / and int->float; no FMA contraction (g++ x86-64 SSE)"]
TIMEOUT = 120
F32 = G.DT["f32"]
TAG_UID = 77


def fr(bits):
    return Fraction(bits_f32(bits))


def rand_box(rng, nc):
    mag = 10.0 ** rng.uniform(-3, 6)
    org = [f32(0.0 if rng.random() < 0.3 else (rng.random() * 2 - 1) * 10.0 ** rng.uniform(-3, 6)) for _ in range(nc)]
    if rng.random() < 0.3:
        mag = float(rng.choice([1, 2, 16, 100, 1024]))
    R = f32(mag)
    bits = rng.randint(1, 30) if rng.random() < 0.6 else rng.choice([1, 2, 8, 10, 11, 12, 14, 16, 20, 22, 23, 24, 30])
    return bits, R, org


def rand_coord(rng, bits, R, o, kind):
    M = 2 ** bits - 1
    if kind == 0:
        t = rng.choice([0.0, 1.0, 0.5])
    elif kind == 1:
        t = min(1.0, (rng.randint(0, M) + 0.5) / M)          # k + 1/2 steps
    elif kind == 2:
        t = rng.randint(0, M) / M                            # grid points
    else:
        t = rng.random()
    v = f32(o + R * t)
    hi = f32(o + R)
    if Fraction(hi) > Fraction(o) + Fraction(R):
        hi = bits_f32(f32_bits(hi) - 1) if hi > 0 else bits_f32(f32_bits(hi) + 1)
    v = max(o, min(v, hi))
    if not (Fraction(o) <= Fraction(v) <= Fraction(o) + Fraction(R)):
        v = o
    return v


def make_rows(rng, n, nc, box, shared_rows, shared_coords):
    """n value rows inside the box; some are whole shared rows, some contain shared single coordinates"""
    bits, R, org = box
    rows = []
    kind = rng.randrange(5)
    for _ in range(n):
        r = rng.random()
        if shared_rows and r < 0.4:
            rows.append(list(rng.choice(shared_rows)))
            continue
        row = [rand_coord(rng, bits, R, org[c], kind) for c in range(nc)]
        if shared_coords and r < 0.7:
            c = rng.randrange(nc)
            if shared_coords[c]:
                row[c] = rng.choice(shared_coords[c])
        rows.append(row)
    return rows


def build_geometry(rng, kind, size, att_type, nc, rows_fn):
    """geometry whose attribute `att_type` (float32 x nc) takes its value rows from rows_fn(num_values)"""
    specs = []
    uid = 0
    if att_type != G.POSITION:
        specs.append((G.POSITION, rng.choice([F32, F32, G.DT["i16"]]), 3, False, uid))
        uid += 1
    ex_index = len(specs)
    specs.append((att_type, F32, nc, False, uid if rng.random() < 0.6 else uid + 20))
    uid += 1
    for _ in range(rng.randint(0, 2)):
        t, d, c = rng.choice([(G.NORMAL, F32, 3), (G.TEX_COORD, F32, 2), (G.COLOR, G.DT["u8"], 4), (G.GENERIC, G.DT["i16"], 2), (G.GENERIC, F32, 1)])
        if t == att_type:
            continue
        specs.append((t, d, c, False, uid + 40))
        uid += 1
    if kind == "pc":
        g = G.rand_point_cloud(rng, size, specs=specs)
    else:
        g = G.rand_mesh(rng, size, specs=specs, topo=topo2.rand_topology2(rng) if rng.random() < 0.3 else None)
    if g.num_points == 0:
        return None
    a = g.atts[ex_index]
    rows = rows_fn(a.num_values)
    a.values = b"".join(struct.pack("<" + "f" * nc, *r) for r in rows)
    # lossless per-point tag
    g.atts.append(G.Attr(G.GENERIC, G.DT["i32"], 1, False, TAG_UID, g.num_points, None,
                         b"".join(struct.pack("<i", i) for i in range(g.num_points))))
    return g, ex_index, rows


def rand_tokens(rng, g, ex_index, box, kind):
    bits, R, org = box
    expert = rng.random() < 0.6
    toks = ["expert=1"] if expert else []
    method = rng.choice([0, 1, 1, None])
    if method is not None:
        toks.append(f"method={method}")
    toks.append(f"speed={rng.randint(0, 10)},{rng.randint(0, 10)}")
    a = g.atts[ex_index]
    key = ex_index if expert else a.att_type
    toks.append(f"x{key}={bits},{f32_bits(R)}," + ",".join(str(f32_bits(o)) for o in org))
    # the other float attributes: quantized (needed by kd-tree) with ordinary quantization
    seen_types = {a.att_type}
    for i, b in enumerate(g.atts):
        if i == ex_index or b.dtype != F32:
            continue
        if not expert and b.att_type in seen_types:
            continue
        if rng.random() < 0.7 or (kind == "pc" and method != 0):
            q = rng.choice([2, 8, 11, 14, 16, 24])
            toks.append(f"q{i if expert else b.att_type}={q}")
            seen_types.add(b.att_type)
    if rng.random() < 0.35:
        i = rng.randrange(len(g.atts))
        b = g.atts[i]
        cands = [0, -2] + ([1, 4] if g.is_mesh else [])
        if g.is_mesh and b.att_type == G.TEX_COORD:
            cands.append(5)
        if g.is_mesh and b.att_type == G.NORMAL:
            cands.append(6)
        toks.append(f"p{i if expert else b.att_type}={rng.choice(cands)}")
    if expert:
        if rng.random() < 0.2:
            toks.append("builtin=0")
        if g.is_mesh and rng.random() < 0.4:
            toks.append(f"submethod={rng.choice([0, 2])}")
        if g.is_mesh and rng.random() < 0.2:
            toks.append(f"g:split_mesh_on_seams={rng.choice([0, 1])}")
        if g.is_mesh and rng.random() < 0.3:
            toks.append(f"g:compress_connectivity={rng.choice([0, 1])}")
    return toks


def dequant_expr(k, R, o, bits):
    """the decoder's float32 expression: float(k) * (range / float(2^bits - 1)) + origin"""
    delta = f32(R / f32(float(2 ** bits - 1)))
    return f32(f32(f32(float(k)) * delta) + o)


class Side:
    """one geometry of a pair; decoded() -> {(component, input bit pattern): set of decoded bit patterns}"""

    def __init__(self, g, ex_index, rows, box, toks):
        self.g, self.ex_index, self.rows, self.box, self.toks = g, ex_index, rows, box, toks
        self.nc = g.atts[ex_index].ncomp
        self.uid = g.atts[ex_index].uid
        self.case = None
        self._dec = None

    def analyse(self, hout, mout=None):
        """-> (violation or None, dict)"""
        bits, R, org = self.box
        what = f"`{self.case.op[:300]}`"
        r = e2e.parse_encdec(hout)
        if r["status"] != "ok":
            return None, None      # the encoder reported failure
        d = r["dec"]
        if not d or d[0] != "ok":
            return ("encode-ok-decode-fails", f"encoding reported success, decoding failed for {what}"), None
        g2, _ = G.parse_geom(d, 2)
        gs, _ = G.parse_geom(r["skipall"], 2) if r["skipall"] and r["skipall"][0] == "ok" else (None, 0)
        for gg in (g2, gs):
            if gg is not None and (gg.valid() or any(getattr(a, "short", False) for a in gg.atts)):
                return ("decoded-values-unreadable", f"the decoded geometry is not structurally valid ({gg.valid() or 'attribute buffer too small'}): decoded coordinates cannot be read for {what}"), None
        a2 = next((a for a in g2.atts if a.uid == self.uid), None)
        tag = next((a for a in g2.atts if a.uid == TAG_UID), None)
        if a2 is None or tag is None or a2.dtype != F32 or a2.ncomp != self.nc:
            return ("explicit-attribute-missing", f"the explicitly quantized attribute (uid {self.uid}) or the tag attribute is missing after decoding for {what}"), None
        if gs is None:
            return ("skip-decode-fails", f"decode with skipped transforms failed for {what}"), None
        idx2 = g2.atts.index(a2)
        as_ = gs.atts[idx2] if idx2 < len(gs.atts) else None
        want_tr = f"q,{bits},{f32_bits(R)}," + ",".join(str(f32_bits(o)) for o in org)
        if as_ is None or as_.dtype not in (G.DT["i32"], G.DT["u32"]) or as_.ncomp != self.nc or gs.num_points != g2.num_points:
            return ("explicit-no-integer-values", f"the decode with skipped transform does not expose the quantized integers of uid {self.uid} for {what}"), None
        # diagnosis only (the property speaks about the decoded values): parameters declared in the stream
        note = "" if as_.transform == want_tr else f" [the stream declares transform `{as_.transform}`, requested `{want_tr}`]"
        what += note
        a0 = self.g.atts[self.ex_index]
        out = {}
        over = 0
        for p in range(g2.num_points):
            o = struct.unpack("<i", tag.point_value(p))[0]
            if not (0 <= o < self.g.num_points):
                return ("tag-corrupt", f"tag attribute decoded to {o} for {what}"), None
            vi = o if a0.map is None else a0.map[o]
            dec = struct.unpack("<" + "I" * self.nc, a2.point_value(p))
            ks = struct.unpack("<" + "i" * self.nc, as_.point_value(p))
            for c in range(self.nc):
                xb = f32_bits(self.rows[vi][c])
                out.setdefault((c, xb), set()).add(dec[c])
                k = ks[c]
                if k < 0:
                    return ("explicit-negative-k", f"quantized value {k} < 0 for a coordinate inside the box (component {c}, x={self.rows[vi][c]!r}) for {what}"), None
                if k > 2 ** bits - 1:
                    over += 1
                e = dequant_expr(k, R, org[c], bits)
                if f32_bits(e) != dec[c]:
                    return ("explicit-off-grid", f"decoded component {c} of input point {o} = {bits_f32(dec[c])!r} (bits {dec[c]}) is not float(k)*(range/float(2^{bits}-1))+origin for the exposed k={k} (that is {e!r}) for {what}"), None
        self.over = over
        for (c, xb), s in out.items():
            if len(s) != 1:
                return ("explicit-coordinate-two-values", f"coordinate {bits_f32(xb)!r} (component {c}) decodes to {len(s)} different bit patterns {sorted(s)[:3]} inside one geometry for {what}"), None
        return None, out


def make_pair(rng, tier, pair_id=0):
    nc_choice = rng.random()
    if nc_choice < 0.75:
        att_type, nc = G.POSITION, rng.choice([3, 3, 3, 2])
    elif nc_choice < 0.9:
        att_type, nc = G.TEX_COORD, 2
    else:
        att_type, nc = G.GENERIC, rng.randint(1, 4)
    box = rand_box(rng, nc)
    bits, R, org = box
    if R <= 0:
        return []
    # pool of shared rows / coordinates
    kind = rng.randrange(5)
    shared_rows = [[rand_coord(rng, bits, R, org[c], kind) for c in range(nc)] for _ in range(rng.randint(1, 12))]
    shared_coords = [[rand_coord(rng, bits, R, org[c], rng.randrange(5)) for _ in range(rng.randint(0, 6))] for c in range(nc)]
    sides = []
    for _ in range(2):
        kind_g = rng.choice(["pc", "mesh", "mesh"])
        size = rng.choice([4, 12, 40, 120 if tier != "thorough" else 600])
        built = build_geometry(rng, kind_g, size, att_type, nc,
                               lambda n: make_rows(rng, n, nc, box, shared_rows, shared_coords))
        if built is None:
            return []
        g, ex_index, rows = built
        # the box precondition, exactly
        for row in rows:
            for c in range(nc):
                if not (Fraction(org[c]) <= Fraction(row[c]) <= Fraction(org[c]) + Fraction(R)):
                    return []
        sides.append(Side(g, ex_index, rows, box, rand_tokens(rng, g, ex_index, box, kind_g)))
    return cases_for_sides(sides, pair_id)


def cases_for_sides(sides, pair_id):
    bits, R, org = sides[0].box
    nc = sides[0].nc
    att_type = sides[0].g.atts[sides[0].ex_index].att_type
    cases = []
    for si, s in enumerate(sides):
        flat = [f32_bits(v) for row in s.rows for v in row]
        model = f"qattr {bits} {nc} {','.join(map(str, flat))} {f32_bits(R)} {','.join(str(f32_bits(o)) for o in org)}"
        op = "encdec " + " ".join(s.toks) + " -- " + s.g.to_text()
        other = sides[1 - si] if len(sides) > 1 else None
        history = False
        if si == 1 and other is not None and "expert=1" not in s.toks and "expert=1" not in other.toks and pair_id % 3 == 0:
            # the tiling scenario: ONE draco::Encoder object encodes A and then B, the explicit parameters being set
            # before each (op `encdech`; the output has the format of `encdec` for B)
            op = "encdech " + " ".join(other.toks) + " -- " + other.g.to_text() + " ;; " + " ".join(s.toks) + " -- " + s.g.to_text()
            history = True

        def oracle(hout, case, s=s, other=other, second=(si == 1)):
            v, out = s.analyse(hout)
            if v is not None:
                return v
            if out is None or not second or other is None:
                return None
            _, out_a = other.analyse(other.case.hout) if other.case.hout else (None, None)
            if out_a is None:
                return None
            s.shared = len(out.keys() & out_a.keys())
            for key in out.keys() & out_a.keys():
                if out[key] != out_a[key]:
                    c, xb = key
                    return ("explicit-shared-coordinate-differs",
                            f"coordinate {bits_f32(xb)!r} (component {c}) shared by two geometries encoded with the same explicit parameters "
                            f"(bits={bits}, range={R!r}, origin={org}) decodes to {bits_f32(next(iter(out_a[key])))!r} in A and "
                            f"{bits_f32(next(iter(out[key])))!r} in B; A=`{other.case.op[:200]}` B=`{case.op[:200]}`")
            return None

        def expect(hout, mout, case, s=s):
            v, out = s.analyse(hout)
            if out is None or mout is None:
                return None
            if not mout.startswith("ok "):
                return f"the model rejects the explicit parameters: {mout[:80]}"
            dec = [int(x) for x in mout.split()[4].split(",")]
            for vi, row in enumerate(s.rows):
                for c in range(s.nc):
                    got = out.get((c, f32_bits(row[c])))
                    if got is not None and got != {dec[vi * s.nc + c]}:
                        return (f"decoded value of coordinate {row[c]!r} (component {c}) is {sorted(got)} in the implementation's decode, "
                                f"the model's dequantize(quantize(x)) gives {dec[vi * s.nc + c]}")
            return None

        def spec(hout, mout, case, s=s, expect=expect):
            # decoded == model's dequant∘quant is part of the PROPERTY (the value depends on x and the parameters only):
            # a mismatch is reported with the failing input, not as a bare correspondence break
            d = expect(hout, mout, case)
            if d is not None:
                return ("explicit-not-pointwise", d + f" for `{case.op[:300]}`")
            return None

        tags = [f"pair-side:{'AB'[si]}", "mesh" if s.g.is_mesh else "pc", f"explicit-attribute:{ {0: 'position', 3: 'texcoord', 4: 'generic'}.get(att_type, att_type) }x{nc}",
                "api:expert" if "expert=1" in s.toks else ("api:encoder-object-reused" if history else "api:encoder"), "bits:" + ("1-7" if bits < 8 else "8-15" if bits < 16 else "16-22" if bits < 23 else "23-30")]
        for t in s.toks:
            if t.startswith(("method=", "submethod=", "builtin=")):
                tags.append(t.replace("=", ":"))
            if t.startswith("speed="):
                tags.append("enc-speed:%02d" % int(t[6:].split(",")[0]))
            if t[0] == "p" and t[1:2].isdigit():
                tags.append("pred-scheme:" + t.split("=")[1])
        c = Case(op, model=model, expect=lambda h, m, cs: None, oracle=oracle, tags=tuple(tags))
        c.spec = spec

        def mtag(mout, s=s, second=(si == 1)):
            h = s.case.hout or ""
            if not h.startswith("ok "):
                return "encoder-result:" + (h.split()[0] if h else "none")
            if second:
                n = getattr(s, "shared", None)
                return "pair:shared-coordinates-compared:" + ("partner-not-encoded" if n is None else "0" if n == 0 else "1-9" if n < 10 else "10-99" if n < 100 else "100+")
            cls = e2e.stream_class(h.split()[1], s.g.is_mesh)
            return f"stream:{'mesh' if s.g.is_mesh else 'pc'}:{cls}" + (":k>2^bits-1-seen" if getattr(s, "over", 0) else "")
        c.mtag = mtag
        # both sides of a pair run in one harness batch of their own, so that a replay file carries both ops
        c.env = {"C12_PAIR": str(pair_id)}
        s.case = c
        cases.append(c)
    return cases


def generate(rng, tier):
    cases = []
    n = 1500 if tier == "thorough" else 400
    for i in range(n):
        cases += make_pair(rng, tier, i)
    # SetAttributeExplicitQuantization stores origin / range through Options::SetVector / SetFloat: the option store vs. its Lean model
    cases += options_cases.cases(rng, 600 if tier == "thorough" else 150)
    return cases


def side_from_op(line):
    head, gt = line.split(" -- ", 1)
    toks = head.split()[1:]
    g, _ = G.parse_geom(gt.split())
    expert = "expert=1" in toks
    xt = next(t for t in toks if t[0] == "x" and t[1:2].isdigit())
    key, val = xt[1:].split("=")
    v = [int(x) for x in val.split(",")]
    ex_index = int(key) if expert else next(i for i, a in enumerate(g.atts) if a.att_type == int(key) and a.dtype == F32)
    a = g.atts[ex_index]
    rows = [list(a.components(i)) for i in range(a.num_values)]
    box = (v[0], bits_f32(v[1]), [bits_f32(b) for b in v[2:]])
    return Side(g, ex_index, rows, box, toks)


def replay_cases(lines):
    """one line: the single-geometry oracle; two lines (batch_ops of a replay file): the pair"""
    enc = [l for l in lines if l.startswith("encdec ")]
    if not enc:
        return [Case(l, model=False) for l in lines]
    out = []
    for i in range(0, len(enc) - 1, 2):
        out += cases_for_sides([side_from_op(enc[i]), side_from_op(enc[i + 1])], i // 2)
    if len(enc) % 2:
        out += cases_for_sides([side_from_op(enc[-1])], len(enc))
    return out
