"""C18 — decoder memory is bounded by stream length and declared element counts."""
from . import robustgen as R

ID = "C18"
LEVEL = "proof"
LEAN_MODULES = ["DracoProps.C18", "DracoProps.C18Kd", "DracoProps.C18Eb"]
RULE = ("valid streams of every method and the small .drc files of testdata (bitstream 1.1 .. 2.3); every count / size "
        "field candidate of the small streams (every offset; of larger streams the first 160 bytes plus sampled offsets) "
        "replaced as a fixed 32-bit field and as a re-encoded varint by {0, 1, 2, 255, 256, 2^16, 2^21, 2^24, 2^31-1, "
        "2^31, 2^32-1, len, len+1, 5*len, 64*len, 64*len+64, (2^32-1)/3 (+1)} and by the values whose multiples by 2..8, "
        "12 wrap around 2^32; plus the general corruption classes of C02 (sampled). Every stream goes through every "
        "decoding entry point with the allocation monitor (replacement operator new / delete): largest single request <= "
        f"{R.A_SINGLE} + {R.K_SINGLE} * (len + declared), peak of live bytes <= {R.A_PEAK} + {R.K_PEAK} * (len + declared), "
        "declared = points (+ faces / encoded vertices) read from the stream, or of the returned geometry; requests above "
        f"the cap ({R.CAP} bytes) are refused and must be within the bound. Lean model on the same bytes: status, declared "
        "count (sequential streams), geometry; distinct op lines"
        '; plus structure-aware corruption of every located count / descriptor / section field of small base '
        'streams, the tamper-hook campaign (the encoder re-run with exactly one semantic value replaced) and the '
        'regression streams of repaired findings (c9df685, 63027a3; the kd-tree stack finding is listed as known); '
        'the structure-aware bases include hand-built legacy 2.0-2.2 integer / float kd-tree streams (harness op '
        'legacykd: header, attribute and inner point counts each set to boundary values), point clouds spliced into '
        'one stream with 2..3 attributes decoders and valence-traversal streams with located context counts'
        '; multi-decoder streams are walked decoder by decoder, Edgebreaker decoder heads are copied / swapped '
        '(eb_decoder_head_mutations), re-laid-out legacy meshes (props/meshlegacy.py) and last_corner_fan bases '
        'are part of the foreign / structured families; the per-op watchdog counts CPU time')
THEOREM_BACKED = ('DracoProps.C18: alloc_bounded: every event of the allocation log of decodeGeometrySeq on bs is <= '
                  '4259840 + 2048 * (bs.length + declared) for accepted and rejected streams (sequential decoders of every '
                  'bitstream version); alloc_bounded_seq_stream; alloc_bounded_with; alloc_bounded_undeclared; '
                  'symbol_tables_bounded (tables of RAnsSymbolDecoder::Create for any bytes, as the function symbolAllocs '
                  'of the bytes, not part of the log); num_symbols_guard; metadata_reader_is_suffix. DracoProps.C18Kd: '
                  'kd_alloc_bounded (kd-tree body, every bitstream version: every event within the linear bound or one of '
                  'the four kd_tree_decoder members, bounded by 128D^2+772D+24, D = 1275*length), kd_alloc_bounded_total, '
                  'kd_alloc_linear_bound_false (the known finding as a theorem); legacy (< 2.3) body on its own: '
                  'kd_alloc_bounded_legacy(_log), kd_alloc_linear_bound_false_legacy, kd_legacy_consumes_prefix. '
                  'DracoProps.C18Eb: eb_connectivity_alloc_invariant (Edgebreaker connectivity decoder: linear, no '
                  'exception), guard_* (one lemma per C++ guard), guard_vertex_table / guard_sequence_length / '
                  'base_view_vertices / ebX_sites_per_vertex_linear (the table-sized sites of a PER-VERTEX attribute '
                  'decoder are within the linear bound), eb_alloc_bounded, alloc_classified (the COMPLETE decoder: every '
                  'event within the linear bound, or kdX, or one of the four Edgebreaker sites ebX), decode_consumes_prefix')
CORRESPONDENCE_ONLY = ('not proved: that the Edgebreaker sites ebX (mesh_traversal_sequencer.point_ids, attribute.indices_map, '
                       'attribute.Reset, integer_decoder.portable_attribute) are within the linear bound for PER-CORNER '
                       'attribute decoders and for the points of meshes with attribute seams (needs corner-table consistency, an'
                       ' unproved invariant of the symbol loop; alloc_classified only classifies them), and the bound on the '
                       "peak of live bytes — both are measured on the implementation only; the model's allocation log is an "
                       'idealisation of the C++ allocation sites (it is tied by the declared counts and by status / geometry '
                       'equality, not byte for byte)')
EXPLANATION = ('proof of the single-request bound on the decoder model: sequential decoders in full, kd-tree and '
               'Edgebreaker bodies classified (linear bound or a named exceptional site); measured on the real decoders '
               'for every method by interposing operator new')
TRUSTED_EXTRA = ["harness/robust_main.cc allocation monitor (replacement operator new / delete, malloc_usable_size)",
                 "harness/ops_robust.cc declared_counts(): conservative parse of the declared element counts (tied to the model's `declared` on sequential streams)"]
TIMEOUT = 3000
ORACLES = [R.oracle_alloc, R.oracle_status, R.oracle_valid]
FLAVOUR = "plain"


def generate(rng, tier):
    thorough = tier == "thorough"
    streams = R.base_streams(rng, 240 if thorough else 60, legacy_max=3000)
    if streams is None:
        return R.build_error_case()
    cases = R.regression_cases(FLAVOUR, ORACLES) + R.selftest_cases(FLAVOUR)
    for s in streams:
        cases.append(R.make_case(s.data, "01234", FLAVOUR, ORACLES, ("valid", s.cls)))
    small = sorted(streams, key=lambda s: len(s.data))
    legacy = [s for s in streams if s.data[5] < 2]
    if thorough:
        plan = [(s, "counts") for s in rng.sample(small[:120], min(len(small), 36))] + [(s, "counts") for s in legacy]
        plan += [(s, "dense") for s in streams]
    else:
        plan = [(s, "light") for s in streams]
        plan += [(s, "counts") for s in rng.sample(small[:40], min(len(small), 6))]
        plan += [(s, "counts") for s in rng.sample(legacy, min(len(legacy), 2))]
        plan += [(s, "dense") for s in rng.sample(streams, min(len(streams), 4))]
    for s, prof in plan:
        for tag, data in R.mutations(rng, s, streams, prof):
            cases.append(R.make_case(data, "01234", FLAVOUR, ORACLES, (tag, "mut:" + s.cls), base=s.data))
    # structure-aware corruption of every located small-integer field; tamper-hook streams (semantic corruption)
    cases += R.structured_cases(rng, tier, FLAVOUR, ORACLES, n_each=12 if thorough else 5)
    cases += R.tamper_cases(rng, tier, FLAVOUR, ORACLES, budget=None if thorough else 6000)
    return cases


def replay_cases(lines):
    return R.replay_cases(lines, ORACLES, FLAVOUR)
