"""C01 — encode/decode round trip reproduces the geometry exactly (modulo quantization)."""
from vlib.engine import Case
from . import ebenc_cases
from . import e2e, e2etags, ebcases, geomgen as G, kdcases, topo2, seqenc_cases, options_cases

ID = "C01"
LEVEL = "proof"
LEAN_MODULES = ["DracoProps.C01", "DracoProps.C01Kd", "DracoProps.C01Eb"]
RULE = ("(a) random: generated point clouds (<=300 points quick / <=2000 thorough) and meshes (all topology families of "
        "props/geomgen.py and props/topo2.py: grids, closed surfaces, tori with irregular diagonals, genus-2 sums, "
        "grid patches, vertex fans, k faces on an edge, bow-ties, soups, components, empty / degenerate / duplicate / "
        "flipped faces, isolated points, attribute seams, non-deduplicated points) with 1..4 attributes of all types x "
        "random option sets (Encoder and ExpertEncoder API: method, speeds, per-attribute quantization incl. explicit "
        "boxes, prediction scheme, built-in compression on/off, edgebreaker sub-method, split-on-seams, compressed "
        "connectivity, symbol coding); (b) stratified: every (geometry kind, method, sub-method) x every encoder speed "
        "0..10, every data type int8..uint32/float32 x 1..5 components under every method, every prediction scheme "
        "the API accepts per attribute type, built-in entropy coding off, split-on-seams 0/1 on seam meshes, handle-rich "
        "surfaces, special topologies. Each case: real encode, real decode (plain and with all transforms skipped), "
        "model decode of the same bytes (must agree token for token where the model covers the method), and the "
        "executable Lean specification RoundTripOK evaluated on the implementation's outputs; distinct op lines; "
        "input_distribution lists the member of every option family each case used and the stream class produced"
        '; sequential encoder ties (props/seqenc_cases.py, incl. global option fallbacks; the prediction scheme '
        'is computed by the model, not read back), kd-tree and Edgebreaker encoder / decoder ties (kdcases, '
        'ebcases, ebenc_cases), random option-store scripts on the real Options / EncoderOptions classes vs '
        'DracoModel/Options.lean (props/options_cases.py)'
        '; families gen:symbol-table-boundary, gen:wrap-range-limit, gen:index-width-boundary; '
        'ebcases.tiny_mesh_cases (all meshes of <= 4 faces over <= 5 ids in the thorough tier, a sample in quick)')
THEOREM_BACKED = "see evidence.coverage.theorems"
CORRESPONDENCE_ONLY = ('Edgebreaker: the connectivity link for runs WITH S symbols / split events (hypothesis DecLoopIsoS), with'
                       ' attribute seams or the valence traversal, and the value-side conditions of the link => RoundTripOK '
                       'theorems are evaluated per case, not proved; paths reported as stream:*:model:unsupported_* / model:none'
                       " in input_distribution are checked by RoundTripOK on the implementation's output only")
EXPLANATION = ('composed end-to-end theorems for the model pairs of the sequential methods (DracoProps.C01: exactly '
               'expected g opts, any trailing bytes; the encoder model computes SelectPredictionMethod itself and the '
               'option store is modelled) and of the kd-tree method (DracoProps.C01Kd: expectedKd up to the order of '
               'points), each with the corollary that the executable specification RoundTripOK accepts the proved '
               "result; Edgebreaker (DracoProps.C01Eb), two proved halves: (1) the connectivity link (the decoder's "
               "connectivity stage rebuilds a corner table isomorphic to the encoder's from its bytes): "
               'eb_connectivity_roundtrip_noS_partial for EVERY encoder run without the symbol S (standard traversal, no'
               " attribute data) given the decoder's domain checks hnf / hnv / hedge / hsz2, "
               'eb_connectivity_roundtrip_withS_partial modulo ONE named hypothesis DecLoopIsoS, '
               'eb_connectivity_withS_pure_partial; (2) link => RoundTripOK: eb_roundtrip_of_link_partial / '
               "_base_partial (both decodes consume exactly the stream) given the link, domain conditions, the decoder's"
               ' sequencers and the value-side conditions (ValueSideOK / hvals, hrows: evaluated per case); traversal '
               'completeness (encodeConnectivity_coverage) is a theorem. NOT proved: the decoder loop for S symbols, the'
               ' link with attribute seams / valence traversal — evaluated per case by the op ebenc (iso-ok, hyp-ok, '
               'rt-ok, counts-ok). All three encoder models are tied byte for byte, the decoder model token for token '
               '(every method and bitstream version); source_* obligations: index-width chains, table size class, '
               'parallelogram component (translated C++ = model)')
TIMEOUT = 900
CHECKS = {"rt", "valid", "consumed", "corr"}


def set_tok(toks, key, val):
    """replace / add / remove (val None) an option token"""
    out = [t for t in toks if not t.startswith(key + "=")]
    if val is not None:
        out.append(f"{key}={val}")
    return out


def drop_pred(toks):
    return [t for t in toks if not (t[0] == "p" and t[1:2].isdigit())]


def options(rng, g, method=None, expert=None, quant_all=False, **force):
    """rand_options with some families pinned; force: token key -> value (None removes the token)"""
    while True:
        toks, info = e2e.rand_options(rng, g, force_method=method, quant_prob=1.0 if quant_all else 0.7)
        if expert is None or info["expert"] == expert:
            break
    for k, v in force.items():
        toks = set_tok(toks, k.replace("__", ":"), v)
    info["track"] = any(t == "track=1" for t in toks)
    return toks, info


def case(g, toks, info, extra_tags=()):
    c = e2e.make_case(g, toks, info, CHECKS,
                      tags=tuple(e2etags.option_tags(g, toks, info)) + ("fam:" + getattr(g, "family", "pc"),) + tuple(extra_tags))
    c.mtag = e2etags.result_tag(c)
    return c


def spec_of(rng, t, dt, nc, uid):
    return (t, G.DT[dt], nc, False, uid)


def generate(rng, tier):
    cases = []
    thorough = tier == "thorough"
    size = 2000 if thorough else 300
    # ---- (a) random
    for i in range(1200 if thorough else 200):
        r = rng.random()
        sz = rng.choice([3, 8, 20, 60, size])
        if r < 0.4:
            g = G.rand_mesh(rng, sz)
        elif r < 0.6:
            g = G.rand_mesh(rng, sz, topo=topo2.rand_topology2(rng))
        else:
            g = G.rand_point_cloud(rng, sz)
        toks, info = e2e.rand_options(rng, g)
        cases.append(case(g, toks, info, ("gen:random",)))
    # ---- (a2) sequential point clouds whose delta histogram puts one symbol exactly on a size-class boundary of the
    #      rANS probability table (2^14 at 15 / 16 bits of precision; counts chosen so that normalisation is exact);
    #      the compression level follows max(encoding speed, decoding speed)
    import struct as _st
    for (m, p_, z) in [(256, 8, 4096), (512, 6, 2048), (256, 6, 1024)]:
        for sp in ([1, 2, 3, 4] if thorough else [rng.choice([1, 2]), 3, 4]):
            deltas = [0] * z + [k for k in range(1, m + 1) for _ in range(p_)] + [-k for k in range(1, m + 1) for _ in range(p_)]
            rng.shuffle(deltas)
            v, vals = 0, []
            for d in deltas:
                v += d
                vals.append(v)
            n = len(vals)
            att = G.Attr(G.GENERIC, G.DT["i32"], 1, False, 0, n, None, b"".join(_st.pack("<i", x) for x in vals))
            g = G.Geom(False, n, [], [att])
            g.family = "step_values"
            toks = ["method=0", f"speed={sp},{rng.randint(0, sp)}"]
            info = {"expert": False, "req": {}, "track": False, "skip": None}
            cases.append(case(g, toks, info, ("gen:symbol-table-boundary",)))
    # ---- (a3) int32 attributes whose value range sits exactly on / next to the limit of the wrap transform
    #      (max - min = 2^31 - 2, 2^31 - 1, 2^31): the encoder must drop the prediction exactly when the decoder's
    #      InitCorrectionBounds would refuse the range
    for lo, hi in [(0, 2 ** 31 - 1), (-2 ** 30, 2 ** 30 - 1), (-2 ** 31, -1), (1, 2 ** 31 - 1), (-2 ** 31, 0), (-2 ** 30, 2 ** 30 - 2), (-2 ** 30 - 1, 2 ** 30 - 1)]:
        for kind in (["pc", "mesh"] if thorough else [rng.choice(["pc", "mesh"])]):
            nc = rng.choice([1, 2, 3])
            n = rng.choice([4, 9, 30])
            rows = [[rng.choice([lo, hi, rng.randint(lo, hi)]) for _ in range(nc)] for _ in range(n)]
            rows[rng.randrange(n)][rng.randrange(nc)] = lo
            rows[rng.randrange(n)][rng.randrange(nc)] = hi
            if not any(v == lo for r in rows for v in r):
                rows[0][0] = lo
            if not any(v == hi for r in rows for v in r):
                rows[-1][-1] = hi
            vals = b"".join(_st.pack("<" + "i" * nc, *r) for r in rows)
            att = G.Attr(G.GENERIC, G.DT["i32"], nc, False, 1, n, None, vals)
            if kind == "pc":
                g = G.Geom(False, n, [], [att])
            else:
                pos = G.Attr(G.POSITION, G.DT["f32"], 3, False, 0, n, None, b"".join(_st.pack("<3f", float(i), float(i * i % 7), 0.0) for i in range(n)))
                g = G.Geom(True, n, [(i, (i + 1) % n, (i + 2) % n) for i in range(n - 2)], [pos, att])
            g.family = "wrap_range_limit"
            toks = [f"method={rng.choice([0, 0, 1]) if kind == 'mesh' else 0}", f"speed={rng.randint(0, 10)},{rng.randint(0, 10)}"]
            info = {"expert": False, "req": {}, "track": False, "skip": None}
            cases.append(case(g, toks, info, ("gen:wrap-range-limit", f"range:{hi - lo - (2 ** 31 - 1):+d}")))
    # ---- (a4) sequential meshes at the point counts where the raw index width switches (256; 65536 in the thorough tier)
    for n in ([255, 256, 257, 65535, 65536, 65537] if thorough else [255, 256, 257]):
        vals = bytes(rng.getrandbits(8) for _ in range(3 * n))
        att = G.Attr(G.POSITION, G.DT["u8"], 3, False, 0, n, None, vals)
        if n < 1000:
            faces = [(i, (i + 1) % n, (i + 2) % n) for i in range(n)]
        else:
            faces = [(0, 1, 2), (n - 3, n - 2, n - 1), (n - 1, 0, n // 2), (255, 256, 257), (65534, 65533, 65532)]
        g = G.Geom(True, n, faces, [att])
        g.family = "index_width_boundary"
        for cc in (0, 1):
            toks = ["expert=1", "method=0", f"g:compress_connectivity={cc}", f"speed={rng.randint(0, 10)},{rng.randint(0, 10)}"]
            info = {"expert": True, "req": {}, "track": False, "skip": None}
            cases.append(case(g, toks, info, ("gen:index-width-boundary", f"points:{n}")))
    reps = 4 if thorough else 1
    for _ in range(reps):
        # ---- (b1) every method class x every encoder speed (decoder speed random)
        for kind, method, sub in (("pc", 0, None), ("pc", 1, None), ("mesh", 0, None), ("mesh", 1, 0), ("mesh", 1, 2), ("mesh", None, None), ("pc", None, None)):
            for es in range(11):
                if kind == "pc":
                    g = G.rand_point_cloud(rng, rng.choice([8, 40, 150]))
                else:
                    g = G.rand_mesh(rng, rng.choice([8, 30, 80]), topo=topo2.rand_topology2(rng) if rng.random() < 0.4 else None)
                toks, info = options(rng, g, method=method, expert=True if sub is not None else None,
                                     quant_all=(kind == "pc" and method != 0),
                                     speed=f"{es},{rng.randint(0, 10)}", submethod=sub)
                cases.append(case(g, toks, info, ("gen:method-x-speed",)))
        # ---- (b2) every data type x component count under every method
        for dt in ("i8", "u8", "i16", "u16", "i32", "u32", "f32"):
            for kind, method in (("pc", 0), ("pc", 1), ("mesh", 0), ("mesh", 1)):
                nc = rng.choice([1, 2, 3, 4, 5])
                specs = [spec_of(rng, G.POSITION, rng.choice(["f32", "f32", "i16", "i32"]), 3, 0),
                         spec_of(rng, G.GENERIC, dt, nc, 1),
                         spec_of(rng, rng.choice([G.GENERIC, G.COLOR, G.TEX_COORD]), dt, rng.randint(1, 4), 2)]
                if kind == "pc":
                    g = G.rand_point_cloud(rng, rng.choice([6, 40]), specs=specs)
                else:
                    g = G.rand_mesh(rng, rng.choice([8, 30]), specs=specs)
                toks, info = options(rng, g, method=method, quant_all=(kind == "pc" and method == 1))
                cases.append(case(g, toks, info, ("gen:datatype-x-method",)))
        # ---- (b3) forced prediction schemes (those CheckPredictionScheme accepts for the attribute type)
        for method in (0, 1):
            for t, dt, nc, schemes in ((G.POSITION, "f32", 3, [-2, 0, 1, 4]), (G.TEX_COORD, "f32", 2, [-2, 0, 1, 4, 5]),
                                       (G.NORMAL, "f32", 3, [-2, 0, 6]), (G.GENERIC, "i16", 2, [-2, 0, 1, 4]),
                                       (G.COLOR, "u8", 4, [0, 1, 4])):
                for sch in schemes:
                    specs = [spec_of(rng, G.POSITION, "f32", 3, 0)]
                    if t != G.POSITION:
                        specs.append(spec_of(rng, t, dt, nc, 1))
                    g = G.rand_mesh(rng, rng.choice([8, 30, 80]), specs=specs,
                                    topo=topo2.rand_topology2(rng) if rng.random() < 0.3 else None)
                    toks, info = options(rng, g, method=method, quant_all=rng.random() < 0.8)
                    toks = drop_pred(toks)
                    idx = 0 if t == G.POSITION else 1
                    toks.append(f"p{idx if info['expert'] else t}={sch}")
                    cases.append(case(g, toks, info, ("gen:forced-prediction",)))
        # ---- (b4) built-in entropy coding off / split-on-seams / symbol coding, on meshes with seams and point clouds
        for builtin in (0, 1):
            for kind, method in (("pc", 0), ("pc", 1), ("mesh", 0), ("mesh", 1)):
                g = G.rand_point_cloud(rng, 40) if kind == "pc" else G.rand_mesh(rng, 40)
                toks, info = options(rng, g, method=method, expert=True, quant_all=(kind == "pc" and method == 1), builtin=builtin)
                cases.append(case(g, toks, info, ("gen:builtin",)))
        for split in (0, 1):
            for es in (0, 3, 5, 6, 9):
                specs = [spec_of(rng, G.POSITION, "f32", 3, 0), spec_of(rng, G.TEX_COORD, "f32", 2, 1),
                         spec_of(rng, rng.choice([G.NORMAL, G.GENERIC]), "f32", 3, 2)]
                g = G.rand_mesh(rng, 40, specs=specs, topo=topo2.rand_topology2(rng) if rng.random() < 0.5 else None)
                toks, info = options(rng, g, method=1, expert=True, speed=f"{es},{rng.randint(0, 10)}", g__split_mesh_on_seams=split)
                cases.append(case(g, toks, info, ("gen:split-on-seams",)))
        # ---- (b5) surfaces with handles / many boundary loops (several topology split events per symbol)
        for _ in range(40):
            fam = rng.choice(["torus", "torus", "handles", "grid_patch"])
            nv, f = {"torus": topo2.topo_torus, "handles": topo2.topo_handles, "grid_patch": topo2.topo_grid_patch}[fam](rng)
            g = G.rand_mesh(rng, 0, topo=(fam, nv, f), specs=G.rand_att_specs(rng, max_atts=2))
            toks, info = options(rng, g, method=1)
            cases.append(case(g, toks, info, ("gen:handles",)))
        # ---- (b6) special topologies under every method
        for method in (0, 1):
            for topo in (("special_empty", 0, []), ("special_empty", 3, []), ("special_one", 3, [(0, 1, 2)]),
                         ("special_degenerate", 4, [(0, 1, 2), (1, 1, 3), (2, 2, 2), (0, 2, 3)]),
                         ("special_all_degenerate", 3, [(0, 0, 1), (2, 2, 2)]),
                         ("special_dup", 4, [(0, 1, 2), (0, 1, 2), (1, 2, 0), (0, 2, 3)]),
                         ("special_flipped", 4, [(0, 1, 2), (2, 1, 0), (0, 2, 3)])):
                g = G.rand_mesh(rng, 0, topo=topo, isolated=rng.random() < 0.5, no_dedup=rng.random() < 0.5)
                toks, info = options(rng, g, method=method)
                cases.append(case(g, toks, info, ("gen:special-topology",)))
        for method in (0, 1):
            specs = G.rand_att_specs(rng)
            g = G.Geom(False, 0, [], [G.Attr(t, d, c, nz, uid, 0, None, b"") for (t, d, c, nz, uid) in specs])
            toks, info = options(rng, g, method=method, quant_all=True)
            cases.append(case(g, toks, info, ("gen:special-topology",)))
    # encoder model of the sequential methods vs. the C++ encoders, byte for byte (DracoModel/SeqEncoder.lean)
    cases += seqenc_cases.cases(rng, 600 if tier == "thorough" else 150, 2000 if tier == "thorough" else 300)
    # option store (Options / DracoOptions / GetSpeed) vs. lean/DracoModel/Options.lean: what the encoder model's option resolution rests on
    cases += options_cases.cases(rng, 800 if tier == "thorough" else 200)
    # the Edgebreaker decoder model driven through every branch on purpose (standard / valence traversal, split
    # events, holes, seams, all mesh prediction schemes); reached branches show as eb:* in input_distribution
    cases += ebcases.cases(rng, tier)
    # every tiny mesh / stacks of small closed components through the Edgebreaker encoder and decoder (header checks)
    cases += ebcases.tiny_mesh_cases(rng, tier)
    # Edgebreaker ENCODER model vs the real encoder, byte for byte (choices read back: symbol schemes, crease flags)
    cases += ebenc_cases.cases(rng, tier)
    # kd-tree: every level 0..6, dimensions 1..20, all integer types at their limits, 1..30 bit quantization, and the
    # tree coder alone (model encoder bytes == DynamicIntegerPointsKdTreeEncoder bytes)
    cases += kdcases.kd_cases(rng, tier) + kdcases.kd_core_cases(rng, tier)
    # sequential meshes whose trailing points are used by no face: the index width follows num_points
    cases += isolated_tail_cases(rng, tier)
    return cases


def isolated_tail_cases(rng, tier):
    """sequential mesh, faces use only the first points, the point count crosses 256 (and 65536 in the thorough tier)"""
    out = []
    sizes = [(rng.randint(20, 200), rng.randint(257, 400)) for _ in range(6)]
    sizes += [(255, 256), (256, 257), (120, 300)]
    if tier == "thorough":
        sizes += [(rng.randint(20, 60000), 65537 + rng.randint(0, 50)), (65536, 65537)]
    for used, total in sizes:
        base = G.rand_mesh(rng, min(used, 60), specs=[(G.POSITION, G.DT["f32"], 3, False, 0)])
        if base.num_points == 0 or not base.faces:
            continue
        # spread the faces over point ids < used, then append unused points
        ids = sorted(rng.sample(range(used), min(used, base.num_points))) if used >= base.num_points else list(range(base.num_points))
        remap = {i: ids[i] for i in range(len(ids))}
        faces = [tuple(remap.get(v, v) for v in f) for f in base.faces]
        n = max(total, max(max(f) for f in faces) + 1)
        a = base.atts[0]
        import struct
        vals = b"".join(struct.pack("<3f", *(G.f32(rng.uniform(-1000, 1000)) for _ in range(3))) for _ in range(n))
        att = G.Attr(a.att_type, a.dtype, a.ncomp, a.normalized, a.uid, n, None, vals)
        g = G.Geom(True, n, faces, [att])
        g.family = "isolated_tail"
        for cc in (0, 1):
            toks = ["expert=1", "method=0", f"g:compress_connectivity={cc}", f"speed={rng.randint(0, 10)},{rng.randint(0, 10)}"]
            info = {"expert": True, "req": {}, "track": False, "skip": None}
            c = e2e.make_case(g, toks, info, {"rt", "valid", "consumed", "corr"}, tags=("mesh", "fam:isolated_tail"))
            c.mtag = e2e.model_support_tag
            out.append(c)
    return out


def replay_cases(lines):
    from . import e2ereplay
    return [e2ereplay.case_from_op(l, CHECKS) for l in lines]
