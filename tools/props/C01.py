"""C01 — encode/decode round trip reproduces the geometry exactly (modulo quantization)."""
from vlib.engine import Case
from . import e2e, ebcases, geomgen as G, kdcases, seqenc_cases

ID = "C01"
LEVEL = "proof"
LEAN_MODULES = ["DracoProps.C01", "DracoProps.C01Kd", "DracoProps.C01Eb"]
RULE = ("generated point clouds (<=300 points quick / <=2000 thorough) and meshes (all topology families of "
        "props/geomgen.py: grids, closed surfaces, k faces on an edge, bow-ties, soups, components, empty / degenerate / "
        "duplicate / flipped faces, isolated points, attribute seams, non-deduplicated points) with 1..4 attributes of all "
        "types x random option sets (Encoder and ExpertEncoder API: method, speeds, per-attribute quantization, "
        "prediction scheme, built-in compression on/off, edgebreaker sub-method, split-on-seams, compressed connectivity); "
        "each case: real encode, real decode (plain and with all transforms skipped), model decode of the same bytes "
        "(must agree token for token where the model covers the method), and the executable Lean specification "
        "RoundTripOK evaluated on the implementation's outputs; distinct op lines")
THEOREM_BACKED = "see evidence.coverage.theorems"
CORRESPONDENCE_ONLY = "paths reported as model:unsupported_* in input_distribution are checked by RoundTripOK on the implementation's output only"
EXPLANATION = ("layer theorems (entropy coder, transforms, quantizers, varints) + executable specification; the composed "
               "end-to-end theorem covers the sequential paths as far as DracoProps.C01 states")
TIMEOUT = 3000


def generate(rng, tier):
    cases = []
    n = 1500 if tier == "thorough" else 260
    size = 2000 if tier == "thorough" else 300
    for i in range(n):
        is_mesh = rng.random() < 0.6
        sz = rng.choice([3, 8, 20, 60, size])
        g = G.rand_mesh(rng, sz) if is_mesh else G.rand_point_cloud(rng, sz)
        toks, info = e2e.rand_options(rng, g)
        fam = getattr(g, "family", "pc")
        c = e2e.make_case(g, toks, info, {"rt", "valid", "consumed", "corr"},
                          tags=("mesh" if is_mesh else "pc", "fam:" + fam, "expert" if info["expert"] else "encoder"))
        c.mtag = e2e.model_support_tag
        cases.append(c)
    # encoder model of the sequential methods vs. the C++ encoders, byte for byte (DracoModel/SeqEncoder.lean)
    cases += seqenc_cases.cases(rng, 600 if tier == "thorough" else 150, 2000 if tier == "thorough" else 300)
    # the Edgebreaker decoder model driven through every branch on purpose (standard / valence traversal, split
    # events, holes, seams, all mesh prediction schemes); reached branches show as eb:* in input_distribution
    cases += ebcases.cases(rng, tier)
    # kd-tree: every level 0..6, dimensions 1..20, all integer types at their limits, 1..30 bit quantization, and the
    # tree coder alone (model encoder bytes == DynamicIntegerPointsKdTreeEncoder bytes)
    cases += kdcases.kd_cases(rng, tier) + kdcases.kd_core_cases(rng, tier)
    # sequential meshes whose trailing points are used by no face: the index width follows num_points
    cases += isolated_tail_cases(rng, tier)
    return cases


def isolated_tail_cases(rng, tier):
    """sequential mesh, faces use only the first points, the point count crosses 256 (and 65536 in the thorough tier)"""
    out = []
    sizes = [(rng.randint(20, 200), rng.randint(257, 400)) for _ in range(6)]
    sizes += [(255, 256), (256, 257), (120, 300)]
    if tier == "thorough":
        sizes += [(rng.randint(20, 60000), 65537 + rng.randint(0, 50)), (65536, 65537)]
    for used, total in sizes:
        base = G.rand_mesh(rng, min(used, 60), specs=[(G.POSITION, G.DT["f32"], 3, False, 0)])
        if base.num_points == 0 or not base.faces:
            continue
        # spread the faces over point ids < used, then append unused points
        ids = sorted(rng.sample(range(used), min(used, base.num_points))) if used >= base.num_points else list(range(base.num_points))
        remap = {i: ids[i] for i in range(len(ids))}
        faces = [tuple(remap.get(v, v) for v in f) for f in base.faces]
        n = max(total, max(max(f) for f in faces) + 1)
        a = base.atts[0]
        import struct
        vals = b"".join(struct.pack("<3f", *(G.f32(rng.uniform(-1000, 1000)) for _ in range(3))) for _ in range(n))
        att = G.Attr(a.att_type, a.dtype, a.ncomp, a.normalized, a.uid, n, None, vals)
        g = G.Geom(True, n, faces, [att])
        g.family = "isolated_tail"
        for cc in (0, 1):
            toks = ["expert=1", "method=0", f"g:compress_connectivity={cc}", f"speed={rng.randint(0, 10)},{rng.randint(0, 10)}"]
            info = {"expert": True, "req": {}, "track": False, "skip": None}
            c = e2e.make_case(g, toks, info, {"rt", "valid", "consumed", "corr"}, tags=("mesh", "fam:isolated_tail"))
            c.mtag = e2e.model_support_tag
            out.append(c)
    return out


def replay_cases(lines):
    return [Case(l, model=False) for l in lines]
