"""C01 — encode/decode round trip reproduces the geometry exactly (modulo quantization)."""
from vlib.engine import Case
from . import e2e, ebcases, geomgen as G, seqenc_cases

ID = "C01"
LEVEL = "proof"
LEAN_MODULES = ["DracoProps.C01"]
RULE = ("generated point clouds (<=300 points quick / <=2000 thorough) and meshes (all topology families of "
        "props/geomgen.py: grids, closed surfaces, k faces on an edge, bow-ties, soups, components, empty / degenerate / "
        "duplicate / flipped faces, isolated points, attribute seams, non-deduplicated points) with 1..4 attributes of all "
        "types x random option sets (Encoder and ExpertEncoder API: method, speeds, per-attribute quantization, "
        "prediction scheme, built-in compression on/off, edgebreaker sub-method, split-on-seams, compressed connectivity); "
        "each case: real encode, real decode (plain and with all transforms skipped), model decode of the same bytes "
        "(must agree token for token where the model covers the method), and the executable Lean specification "
        "RoundTripOK evaluated on the implementation's outputs; distinct op lines")
THEOREM_BACKED = "see evidence.coverage.theorems"
CORRESPONDENCE_ONLY = "paths reported as model:unsupported_* in input_distribution are checked by RoundTripOK on the implementation's output only"
EXPLANATION = ("layer theorems (entropy coder, transforms, quantizers, varints) + executable specification; the composed "
               "end-to-end theorem covers the sequential paths as far as DracoProps.C01 states")
TIMEOUT = 3000


def generate(rng, tier):
    cases = []
    n = 1500 if tier == "thorough" else 260
    size = 2000 if tier == "thorough" else 300
    for i in range(n):
        is_mesh = rng.random() < 0.6
        sz = rng.choice([3, 8, 20, 60, size])
        g = G.rand_mesh(rng, sz) if is_mesh else G.rand_point_cloud(rng, sz)
        toks, info = e2e.rand_options(rng, g)
        fam = getattr(g, "family", "pc")
        c = e2e.make_case(g, toks, info, {"rt", "valid", "consumed", "corr"},
                          tags=("mesh" if is_mesh else "pc", "fam:" + fam, "expert" if info["expert"] else "encoder"))
        c.mtag = e2e.model_support_tag
        cases.append(c)
    # encoder model of the sequential methods vs. the C++ encoders, byte for byte (DracoModel/SeqEncoder.lean)
    cases += seqenc_cases.cases(rng, 600 if tier == "thorough" else 150, 2000 if tier == "thorough" else 300)
    # the Edgebreaker decoder model driven through every branch on purpose (standard / valence traversal, split
    # events, holes, seams, all mesh prediction schemes); reached branches show as eb:* in input_distribution
    cases += ebcases.cases(rng, tier)
    return cases


def replay_cases(lines):
    return [Case(l, model=False) for l in lines]
