"""Development runner for the Edgebreaker encoder model (slice ebenc): the cases of props/ebenc_cases.py through
the engine.  Not a property of properties.jsonl; `python3 tools/check.py --property EBENCDEV`."""
from vlib.engine import Case
from . import ebenc_cases

ID = "EBENCDEV"
LEVEL = "proof"
LEAN_MODULES = ["DracoProps.C01Eb"]
RULE = "props/ebenc_cases.py: Edgebreaker encoder model bytes == C++ encoder bytes; rt-ok / iso-ok / counts-ok evaluated"
TIMEOUT = 3000


def generate(rng, tier):
    return ebenc_cases.cases(rng, tier)


def replay_cases(lines):
    return [Case(l, model=False) for l in lines]
