"""C11 — geometry and attribute metadata survive the round trip."""
import sys
from vlib.engine import Case
from . import e2e, gen, geomgen as G

sys.setrecursionlimit(20000)
ID = "C11"
LEVEL = "proof"
LEAN_MODULES = ["DracoProps.C11"]
RULE = ("random metadata trees: depth 0..8 (thorough: chains of 1000..1003 levels across the decoder's limit), 0..12 "
        "entries and 0..4 sub-metadata per level, names of length 0..255 over all byte values (and 256, 300 for the "
        "failure path), values of length 0 (empty), 1..64 and up to 64 KiB, same names reused on different levels, "
        "per-attribute metadata for existing, non-existing and duplicate unique ids; dense trees of 1..257 minimal entries "
        "(empty / one-byte names, empty values: the densest legal encoding, alone and below a parent); through the bare "
        "MetadataEncoder/Decoder and attached to point clouds and meshes under every method; decoder on mutated and "
        "random bytes. Model bytes/status/decoded tree must equal the implementation's; the property "
        "(decoded tree == input tree, or the encoder reports failure) is evaluated on the implementation"
        '; after the round trip attribute metadata must still name the attribute it was attached to (unique-id '
        'check, signature attribute-metadata-orphaned)')
THEOREM_BACKED = ("metadata_c11_fixed / geometry_metadata_c11_fixed: for every canonical tree either the encoder reports "
                  "success and decoding returns exactly the tree (any trailing bytes), or the encoder reports failure; "
                  "metadata_decoder_is_stack_loop; metadata_decoder_output_canonical")
EXPLANATION = "full proof on the model of the current (repaired) code; historical counterexamples of the pinned tree kept as theorems"
TIMEOUT = 3000
CORR = {"corr"}


def hx(b):
    return b.hex() if b else "_"


class Node:
    def __init__(self, entries, subs):
        self.entries, self.subs = entries, subs     # dict bytes->bytes, dict bytes->Node

    def text(self):
        e = ",".join(f"{hx(k)}={hx(v)}" for k, v in sorted(self.entries.items()))
        s = ",".join(f"{hx(k)}={n.text()}" for k, n in sorted(self.subs.items()))
        return "{" + e + ";" + s + "}"

    def depth(self):
        return 1 + max([n.depth() for n in self.subs.values()], default=0)

    def encodable(self, level=0):
        """mirror of what the encoder must accept: names <= 255, nesting within the decoder's limit"""
        if any(len(k) > 255 for k in self.entries) or any(len(k) > 255 for k in self.subs):
            return False
        if self.subs and level > 1000:
            return False
        return all(n.encodable(level + 1) for n in self.subs.values())


def rand_name(rng, allow_long=False):
    r = rng.random()
    if allow_long and r < 0.08:
        n = rng.choice([256, 257, 300])
    elif r < 0.1:
        n = 0
    elif r < 0.2:
        n = rng.choice([254, 255, 127, 128])
    else:
        n = rng.randint(1, 12)
    if rng.random() < 0.5:
        return bytes(rng.choice(b"abcdefgh_") for _ in range(n))
    return bytes(rng.choice([0, 1, 0x7f, 0x80, 0xff, rng.getrandbits(8)]) for _ in range(n))


BUDGET = [0]


def rand_value(rng):
    r = rng.random()
    if r < 0.12:
        return b""
    if r < 0.8:
        return gen.rand_bytes(rng, rng.randint(1, 16))
    if r < 0.985 or BUDGET[0] <= 0:
        return gen.rand_bytes(rng, rng.randint(17, 300))
    BUDGET[0] -= 1          # at most a few large values per run (the model is slow on multi-megabyte lines)
    return gen.rand_bytes(rng, rng.choice([4096, 65535, 65536]))


def rand_node(rng, depth, allow_long=False):
    ne = rng.choice([0, 1, 2, 3, 5, 12]) if rng.random() < 0.9 else 40
    entries = {}
    for _ in range(ne):
        entries[rand_name(rng, allow_long)] = rand_value(rng)
    subs = {}
    if depth > 0:
        for _ in range(rng.choice([0, 1, 1, 2, 4])):
            subs[rand_name(rng, allow_long)] = rand_node(rng, depth - 1, allow_long)
    return Node(entries, subs)


def chain(n, leaf_entries=None):
    node = Node(leaf_entries or {b"x": b"\x01"}, {})
    for _ in range(n):
        node = Node({}, {b"s": node})
    return node


def md_oracle(node, trail_len):
    want = node.text()

    def f(hout, case):
        parts = hout.split(" | ")
        if len(parts) != 2:
            return ("md-malformed", f"`{case.op[:200]}` -> {hout[:200]}")
        st = parts[0].split()[0]
        if st == "0":
            if node.encodable():
                return ("metadata-encoder-rejects-valid-tree", f"encoder reported failure for an encodable tree: `{case.op[:300]}`")
            return None
        if parts[1] == "err":
            return ("metadata-undecodable", f"metadata encoder reported success but the decoder rejects the stream: `{case.op[:300]}`")
        dump, consumed = parts[1].rsplit(" ", 1)
        enc_len = 0 if parts[0].split()[1] == "-" else len(parts[0].split()[1]) // 2
        if dump != want:
            return ("metadata-altered", f"decoded metadata differs from the encoded tree: got {dump[:200]} want {want[:200]} for `{case.op[:200]}`")
        if int(consumed) != enc_len:
            return ("metadata-consumed", f"metadata decoder consumed {consumed} of {enc_len} bytes (+{trail_len} trailing) for `{case.op[:200]}`")
        return None
    return f


def generate(rng, tier):
    cases = []
    thorough = tier == "thorough"
    BUDGET[0] = 40 if thorough else 8
    n = 1500 if thorough else 350
    for _ in range(n):
        d = rng.choice([0, 1, 2, 3, 4, 8])
        node = rand_node(rng, d, allow_long=rng.random() < 0.25)
        trail = gen.rand_bytes(rng, rng.choice([0, 0, 3]))
        cases.append(Case(f"md {node.text()}" + (f" {trail.hex()}" if trail else ""), oracle=md_oracle(node, len(trail)),
                          tags=("md", f"depth{min(node.depth(), 9)}", "encodable" if node.encodable() else "unencodable")))
    # many minimal entries (empty or one-byte names, empty values: 2-3 bytes each) — the densest legal encoding,
    # alone in the buffer and below a parent, with and without trailing bytes
    for _ in range(120 if thorough else 40):
        k = rng.choice([1, 2, 3, 8, 64, 128, 200, 257])
        names = [b""] + [bytes([i]) for i in range(256)]
        rng.shuffle(names)
        entries = {nm: (b"" if rng.random() < 0.9 else gen.rand_bytes(rng, 1)) for nm in names[:k]}
        node = Node(entries, {})
        if rng.random() < 0.4:
            node = Node({}, {b"s": node}) if rng.random() < 0.5 else Node({b"a": b""}, {b"": node, b"t": Node({}, {})})
        trail = gen.rand_bytes(rng, rng.choice([0, 0, 0, 3]))
        cases.append(Case(f"md {node.text()}" + (f" {trail.hex()}" if trail else ""), oracle=md_oracle(node, len(trail)),
                          tags=("md", "gen:dense-minimal-entries", f"depth{min(node.depth(), 9)}", "encodable" if node.encodable() else "unencodable")))
    # chains across the nesting limit
    for k in ([999, 1000, 1001, 1002, 1003] if thorough else [1000, 1001, 1002]):
        node = chain(k)
        cases.append(Case(f"md {node.text()}", oracle=md_oracle(node, 0), tags=("md_chain",)))
    # geometry metadata with per-attribute metadata
    for _ in range(n // 3):
        root = rand_node(rng, rng.choice([0, 1, 3]), allow_long=rng.random() < 0.2)
        atts = [(rng.choice([0, 1, 2, 7, 7, 2 ** 32 - 1, rng.getrandbits(20)]), rand_node(rng, rng.choice([0, 1]), allow_long=rng.random() < 0.1))
                for _ in range(rng.choice([0, 1, 2, 3]))]
        text = "G[" + ",".join(f"{u}:{m.text()}" for u, m in atts) + "]" + root.text()
        ok = root.encodable() and all(m.encodable() for _, m in atts)

        def gor(hout, case, text=text, ok=ok):
            parts = hout.split(" | ")
            if len(parts) != 2:
                return ("gmd-malformed", f"`{case.op[:200]}` -> {hout[:200]}")
            if parts[0].split()[0] == "0":
                return ("metadata-encoder-rejects-valid-tree", f"encoder reported failure for an encodable tree: `{case.op[:300]}`") if ok else None
            if parts[1] == "err":
                return ("metadata-undecodable", f"geometry metadata encoder reported success but the decoder rejects the stream: `{case.op[:300]}`")
            if parts[1].rsplit(" ", 1)[0] != text:
                return ("metadata-altered", f"decoded geometry metadata differs: got {parts[1][:200]} want {text[:200]}")
            return None
        cases.append(Case(f"gmd {text}", oracle=gor, tags=("gmd",)))
    # attached to geometries under every method
    for _ in range(120 if thorough else 40):
        is_mesh = rng.random() < 0.5
        g = G.rand_mesh(rng, 12) if is_mesh else G.rand_point_cloud(rng, 20)
        if g.num_points == 0:
            continue
        root = rand_node(rng, rng.choice([0, 1, 2]))
        uids = [a.uid for a in g.atts] + [99]
        atts = [(rng.choice(uids), rand_node(rng, 0)) for _ in range(rng.choice([0, 1, 2]))]
        text = "G[" + ",".join(f"{u}:{m.text()}" for u, m in atts) + "]" + root.text()
        toks, info = e2e.rand_options(rng, g, force_method=rng.choice([0, 1]))
        toks.append("meta=" + text)
        c = e2e.make_case(g, toks, info, {"consumed"} | CORR, tags=("attached_mesh" if is_mesh else "attached_pc",))
        inner = c.oracle

        def orc(hout, case, inner=inner, text=text, atts=atts, g=g):
            v = inner(hout, case)
            if v:
                return v
            r = e2e.parse_encdec(hout)
            if r["status"] != "ok":
                return None
            d = r["dec"]
            if "meta" not in d or d[d.index("meta") + 1] != text:
                return ("metadata-altered", f"metadata attached to the geometry did not survive: got {d[d.index('meta') + 1][:200] if 'meta' in d else 'none'} want {text[:200]} for `{case.op[:200]}`")
            # attribute metadata is keyed by the attribute's unique id: the id must still name the same attribute
            g2, _ = G.parse_geom(d, 2)
            for u, _m in atts:
                src = [a for a in g.atts if a.uid == u]
                if not src:
                    continue
                dst = [a for a in g2.atts if a.uid == u]
                if len(dst) != len(src) or sorted(a.att_type for a in dst) != sorted(a.att_type for a in src):
                    return ("attribute-metadata-orphaned", f"attribute metadata keyed by unique id {u} no longer names the attribute it was attached to "
                            f"(decoded attributes with that id: {[a.att_type for a in dst]}, original: {[a.att_type for a in src]}) for `{case.op[:200]}`")
            return None
        c.oracle = orc
        c.mtag = e2e.model_support_tag
        cases.append(c)
    # decoder on mutated / random bytes: model == implementation
    for _ in range(2000 if thorough else 500):
        node = rand_node(rng, rng.choice([0, 1, 2]))
        b = bytearray(simple_encode_gm(node))
        for _ in range(rng.choice([0, 1, 1, 2, 3])):
            if b:
                i = rng.randrange(len(b))
                b[i] = rng.choice([0, 0xff, b[i] ^ 1, b[i] ^ 0x80, (b[i] + 1) & 255, rng.getrandbits(8)])
        if rng.random() < 0.2 and b:
            b = b[:rng.randrange(len(b))]
        cases.append(Case(f"mddec {b.hex() or '-'}", tags=("mddec_mutated",)))
    return cases


def varint(n):
    out = bytearray()
    while True:
        if n >= 128:
            out.append((n & 127) | 128)
            n >>= 7
        else:
            out.append(n)
            return bytes(out)


def simple_encode(node):
    out = bytearray(varint(len(node.entries)))
    for k, v in sorted(node.entries.items()):
        out += bytes([len(k) & 255]) + k + varint(len(v)) + v
    out += varint(len(node.subs))
    for k, n in sorted(node.subs.items()):
        out += bytes([len(k) & 255]) + k + simple_encode(n)
    return bytes(out)


def simple_encode_gm(node):
    return varint(0) + simple_encode(node)


def replay_cases(lines):
    return [Case(l) for l in lines]
