"""Rebuilds an end-to-end case (oracle + model line + specification) from its `encdec …` op line, so that a
replay file re-evaluates the property and not only the implementation run."""
from vlib.engine import Case
from . import e2e, geomgen as G


def info_from_tokens(toks, geom):
    info = {"expert": "expert=1" in toks, "req": {}, "track": "track=1" in toks, "skip": None}
    for t in toks:
        if "=" not in t:
            continue
        k, v = t.split("=", 1)
        if k == "skip":
            info["skip"] = v
        elif k[0] in "qx" and k[1:].isdigit():
            bits = int(v.split(",")[0])
            key = int(k[1:])
            for i, a in enumerate(geom.atts):
                if a.dtype != G.DT["f32"]:
                    continue
                if (info["expert"] and i == key) or (not info["expert"] and a.att_type == key):
                    info["req"][a.uid] = bits
    return info


def case_from_op(line, checks, flavour="plain"):
    parts = line.split(" -- ", 1)
    head = parts[0].split()
    if len(parts) != 2 or not head or head[0] != "encdec":
        return Case(line, model=False)
    toks = [t for t in head[1:] if not t.startswith("trail=")]
    trail = b""
    for t in head[1:]:
        if t.startswith("trail="):
            trail = bytes.fromhex(t[6:]) if t[6:] != "-" else b""
    geom, _ = G.parse_geom(parts[1].split())
    info = info_from_tokens(toks, geom)
    return e2e.make_case(geom, toks, info, checks, trail=trail, flavour=flavour)
