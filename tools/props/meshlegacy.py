"""Legacy (bitstream 1.0 … 2.1) MESH streams assembled from streams of the current encoder (slice eb follow-up 4).

The encoder only writes 2.2, and the shipped legacy files are a dozen small meshes, so — as props/kdlegacy.py does for
kd-tree point clouds — every legacy layout is produced from a 2.2 stream of the real encoder by re-laying out the SAME
payload for an older version.  `relayout_eb` (Edgebreaker, standard traversal) and `relayout_seq` (sequential mesh) apply,
field by field, every version gate of the decoder (lean/Generated/VersionGates.lean) that these two paths go through:

    header                 the version bytes
    sequential mesh        num_faces / num_points u32 (< 2.2); raw indices of 2^16 … 2^21 points as u32 (< 2.2: varints since)
    Edgebreaker            num_new_vertices (< 2.2), counts u32 (< 2.0), topology split events behind the traversal data with
                           a size prefix (< 2.2), two bits per event (< 2.2), raw u32/u32/u8 events (< 1.2), hole event
                           count (< 2.1), symbol buffer / start faces as bit regions with u64 sizes (< 2.2: start faces were a
                           rANS bit stream since), rANS bit decoder sizes u32 (< 2.2), attribute seams decoded from both sides
                           of an edge (< 2.1: streams WITH attribute connectivity data are only produced for 2.1)
    attribute decoders     no traversal method byte (< 1.2: only depth first), attribute count u32 (< 2.0), unique id u16 (< 1.3)
    integer values         quantization / octahedron parameters in front of the values instead of in
                           DecodeDataNeededByPortableTransforms (< 2.0), `DecodeSymbols` with u32 symbol count and u64 data
                           size (< 2.0)
    prediction data        mode byte of the constrained multi-parallelogram and of the geometric normal scheme (< 2.2)

Offsets come from the `at:` tags of the Lean model's trace of the 2.2 stream (`ebtrace`) and a walk of the attribute part
(descriptors, per-decoder data; sizes of generic attributes from the decode of the 2.2 stream).  Combinations the old decoders
cannot read are skipped: predictive / valence traversal (< 2.2 needs other data), a parent-dependent prediction scheme
(portable tex coords, geometric normals) below 2.0 (the parent attribute is not portable there), prediction-degree
traversal below 1.2, attribute seams below 2.1.

Self check (`variant:ok`): the real decoder has to accept every re-assembled stream and return the geometry of the 2.2
original; then model == implementation token for token on it, on copies with the transforms skipped and on corruptions."""
import os

from vlib.engine import Case
from . import corpus as K, ebcases as E, geomgen as G
from .legacycases import _marks, _read_varint, _varint, _pack_bits

VERSIONS = [(1, 0), (1, 1), (1, 2), (1, 3), (2, 0), (2, 1)]
DT_LEN = {1: 1, 2: 1, 3: 2, 4: 2, 5: 4, 6: 4, 7: 8, 8: 8, 9: 4, 10: 8, 11: 1}


class Skip(Exception):
    """this stream / version combination is outside what the transcoder does"""


def _count(ver, v):
    return v.to_bytes(4, "little") if ver < (2, 0) else _varint(v)


def _apply(b, lo, hi, edits):
    """bytes [lo, hi) of `b` with the edits (x, y, replacement) inside applied"""
    out, pos = bytearray(), lo
    for (x, y, rep) in sorted(e for e in edits if lo <= e[0] and e[1] <= hi):
        if x < pos:
            raise Skip("overlapping edits")
        out += b[pos:x] + rep
        pos = y
    out += b[pos:hi]
    return bytes(out)


def _symbols_edits(b, p, edits):
    """`DecodeSymbols` section whose scheme byte is at `p`: u32 symbol count and u64 data size (bitstream < 2.0)"""
    scheme = b[p]
    q = p + 1
    if scheme == 1:
        q += 1              # max bit length
    elif scheme != 0:
        raise Skip("symbol scheme")
    n, q2 = _read_varint(b, q)
    edits.append((q, q2, n.to_bytes(4, "little")))
    q, rem = q2, n
    while rem > 0:
        t = b[q] & 3
        if t == 3:
            rem -= (b[q] >> 2) + 1
            q += 1
        else:
            rem -= 1
            q += 1 + t
    if rem < 0:
        raise Skip("probability table")
    sz, q2 = _read_varint(b, q)
    edits.append((q, q2, sz.to_bytes(8, "little")))


def _walk_attributes(b, ad, ver22_geom, marks):
    """decoder heads, descriptors and the data blocks of the attribute part of a 2.2 stream starting at `ad`
    (the num_attributes_decoders byte): returns (heads, descs, blocks) with
    heads[d] = (att_data_id, decoder_type, traversal_method), descs[d] = [(offset, uid_end, type, dt, nc, norm, uid, kind)],
    blocks[d] = (start, [(attr_start, attr_end)], needed_start, end)"""
    nd = b[ad]
    p = ad + 1
    heads = []
    for _ in range(nd):
        heads.append((b[p], b[p + 1], b[p + 2]))
        p += 3
    descs = []
    dpos = []
    for _ in range(nd):
        c0 = p
        n, p = _read_varint(b, p)
        ds = []
        for _ in range(n):
            o = p
            uid, p2 = _read_varint(b, p + 4)
            ds.append([o, p2, b[p], b[p + 1], b[p + 2], b[p + 3], uid, None])
            p = p2
        for d in ds:
            d[7] = b[p]
            p += 1
        descs.append(ds)
        dpos.append((c0, n))
    data_start = p
    by_uid = {a.uid: a for a in ver22_geom.atts}
    methods = list(marks["methods"])
    blocks = [None] * nd
    end = len(b)
    for d in range(nd - 1, -1, -1):
        params = 0
        for x in descs[d]:
            if x[7] == 2:
                params += 4 * x[4] + 5
            elif x[7] == 3:
                params += 1
        needed = end - params
        cur = needed
        spans = []
        for x in reversed(descs[d]):
            if x[7] == 0:
                a = by_uid.get(x[6])
                if a is None:
                    raise Skip("attribute not in the decode")
                st = cur - a.num_values * DT_LEN.get(x[3], 0) * x[4]
            else:
                if not methods:
                    raise Skip("method tags")
                st = methods.pop()[0]
            if st > cur or st < data_start:
                raise Skip("attribute spans")
            spans.append((st, cur, x))
            cur = st
        spans.reverse()
        blocks[d] = (cur, spans, needed, end)
        end = cur
    if end != data_start or methods:
        raise Skip("attribute walk does not close")
    return heads, descs, dpos, blocks


def _attribute_edits(b, ver, ad, geom22, marks, edits, parent_ok=False):
    heads, descs, dpos, blocks = _walk_attributes(b, ad, geom22, marks)
    nd = len(heads)
    if ver < (1, 2):
        for i, h in enumerate(heads):
            if h[2] != 0:
                raise Skip("prediction degree traversal below 1.2")
            edits.append((ad + 1 + 3 * i + 2, ad + 1 + 3 * i + 3, b""))
    for d in range(nd):
        c0, n = dpos[d]
        _, c1 = _read_varint(b, c0)
        if ver < (2, 0):
            edits.append((c0, c1, n.to_bytes(4, "little")))
        if ver < (1, 3):
            for x in descs[d]:
                if x[6] > 0xffff:
                    raise Skip("unique id")
                edits.append((x[0] + 4, x[1], x[6].to_bytes(2, "little")))
    if ver >= (2, 0):
        return
    for d in range(nd):
        start, spans, needed, end = blocks[d]
        pp = needed
        for (st, en, x) in spans:
            kind, nc = x[7], x[4]
            if kind == 0:
                continue
            plen = 4 * nc + 5 if kind == 2 else (1 if kind == 3 else 0)
            params = bytes(b[pp:pp + plen])
            pp += plen
            method = b[st] - 256 if b[st] > 127 else b[st]
            q = st + 1 if method == -2 else st + 2
            if method in (5, 6, 3) and not parent_ok:
                raise Skip("parent-dependent prediction scheme below 2.0")
            if plen:
                edits.append((q, q, params))
            if b[q] > 0:
                _symbols_edits(b, q + 1, edits)
        edits.append((needed, end, b""))


def _legacy_seams(b, m, natt, te, geom22, run, edits):
    """attribute seams below 2.1: `DecodeAttributeConnectivitiesOnFaceLegacy` reads the seam bit of every interior edge
    from BOTH sides, in face / corner order.  The edge flags of the 2.2 stream are decoded (harness op bc_dec), laid out
    in that order and encoded again with the library's RAnsBitEncoder (bc_enc)."""
    if run is None:
        raise Skip("attribute seams below 2.1")
    pos = next((a for a in geom22.atts if a.att_type == G.POSITION), None)
    vid = (lambda p_: p_) if pos is None or pos.map is None else (lambda p_: pos.map[p_])
    v = [vid(p_) for f in geom22.faces for p_ in f]
    nxt = lambda c: c - 2 if c % 3 == 2 else c + 1
    prv = lambda c: c + 2 if c % 3 == 0 else c - 1
    D = {}
    for c in range(len(v)):
        k = (v[nxt(c)], v[prv(c)])
        if k in D:
            raise Skip("non-manifold edge")
        D[k] = c
    opp = [D.get((v[prv(c)], v[nxt(c)])) for c in range(len(v))]
    first = [c for c in range(len(v)) if opp[c] is not None and opp[c] // 3 >= c // 3]
    both = [c for c in range(len(v)) if opp[c] is not None]
    rs = m["rans"][:natt]
    if len(rs) != natt:
        raise Skip("seam decoders")
    if not first:
        return set()              # no interior edge: the (empty) sections only get their u32 sizes
    outs = run([f"bc_dec rans 0 {bytes(b[r:te]).hex()} " + ",".join("b" * 1 for _ in first) for r in rs]) if first else []
    enc = []
    for r, o in zip(rs, outs):
        bits = o.split(":", 1)[1].split(",") if ":" in o else None
        if bits is None or len(bits) != len(first):
            raise Skip("seam bits")
        flag = {}
        for c, x in zip(first, bits):
            flag[c] = flag[opp[c]] = x
        enc.append("bc_enc rans " + ",".join("b" + flag[c] for c in both))
    news = run(enc) if enc else []
    for r, o in zip(rs, news):
        nb = bytes.fromhex(o)
        sz, q = _read_varint(nb, 1)
        osz, oq = _read_varint(b, r + 1)
        edits.append((r, oq + osz, nb[:1] + sz.to_bytes(4, "little") + nb[q:q + sz]))
    return set(rs)


def relayout_eb(b, trace, geom22, ver, normal_mode=1, run=None, parent_ok=False):
    """the 2.2 Edgebreaker stream `b` (standard traversal, no metadata) in the layout of bitstream `ver` < 2.2"""
    if b[5:7] != bytes([2, 2]) or b[7] != 1 or b[8] != 1 or b[9] or b[10] or b[11] != 0:
        raise Skip("not a 2.2 standard-traversal Edgebreaker mesh without metadata")
    m = _marks(b, trace)
    try:
        a = m["after_traversal_type"][0]
        e0, e1 = m["events"]
        t0 = m["traversal"][0]
        te = m["traversal_end"][0]
        s0, s1 = m["startface"]
        ad = m["att_decoders"][0]
        sbits = [c == "1" for c in m.get("startface_bits", "")]
    except (KeyError, IndexError):
        raise Skip("marks")
    if e1 != t0 or ad != te:
        raise Skip("layout")
    m["methods"] = [(len(b) - int(t.split(":")[2]), int(t.split(":")[1].split("=")[1]))
                    for t in trace.split(" ", 1)[1].split(",") if t.startswith("at:method=")]
    # ---- counts
    nev, p = _read_varint(b, a)
    nf, p = _read_varint(b, p)
    natt = b[p]
    nsym, p = _read_varint(b, p + 1)
    nsplit, p = _read_varint(b, p)
    if p != e0:
        raise Skip("counts")
    counts = _count(ver, 0) + _count(ver, nev) + _count(ver, nf) + bytes([natt]) + _count(ver, nsym) + _count(ver, nsplit)
    # ---- topology split events
    n, p = _read_varint(b, e0)
    ids = []
    last = 0
    for _ in range(n):
        d1, p = _read_varint(b, p)
        d2, p = _read_varint(b, p)
        src = last + d1
        ids.append((src, src - d2))
        last = src
    ids_end = p
    edges = [bool(b[p + i // 8] >> (i % 8) & 1) if p + i // 8 < e1 else False for i in range(n)]
    events = _count(ver, n)
    if ver < (1, 2):
        for (src, spl), e in zip(ids, edges):
            events += spl.to_bytes(4, "little") + src.to_bytes(4, "little") + bytes([1 if e else 0])
    else:
        events += bytes(b[_read_varint(b, e0)[1]:ids_end])
        eb = []
        for e in edges:
            eb += [e, False]
        events += _pack_bits(eb) if n else b""
    if ver < (2, 1):
        events += _count(ver, 0)                 # hole events
    # ---- traversal data and the rest
    edits = []
    v, q = _read_varint(b, t0)
    edits.append((t0, q, v.to_bytes(8, "little")))
    packed = _pack_bits(sbits)
    edits.append((s0, s1, len(packed).to_bytes(8, "little") + packed))
    done = _legacy_seams(b, m, natt, te, geom22, run, edits) if natt and ver < (2, 1) and nf else set()
    for r in m["rans"]:
        if r in done:
            continue
        v, q = _read_varint(b, r + 1)
        edits.append((r + 1, q, v.to_bytes(4, "little")))
    for o in m.get("constrained_mode", []):
        edits.append((o, o, b"\x00"))
    for o in m.get("normal_mode", []):
        edits.append((o, o, bytes([normal_mode])))
    _attribute_edits(b, ver, ad, geom22, m, edits, parent_ok)
    trav = _apply(b, t0, te, edits)
    tail = _apply(b, te, len(b), edits)
    head = bytes(b[:5]) + bytes(ver) + bytes(b[7:a]) + counts
    return head + _count(ver, len(trav)) + trav + events + tail


def _symbols_end(b, p):
    """end of the `DecodeSymbols` section whose scheme byte is at `p` (raw scheme only: the tagged scheme has no size)"""
    if b[p] != 1:
        raise Skip("tagged symbols in a sequential stream below 2.0 (section end unknown)")
    n, q = _read_varint(b, p + 2)
    rem = n
    while rem > 0:
        t = b[q] & 3
        if t == 3:
            rem -= (b[q] >> 2) + 1
            q += 1
        else:
            rem -= 1
            q += 1 + t
    sz, q = _read_varint(b, q)
    return q + sz


def relayout_seq(b, geom22, ver):
    """the 2.2 sequential mesh stream `b` (no metadata) in the layout of bitstream `ver` < 2.2.  2.0 / 2.1: only the
    connectivity block changes.  Below 2.0 the descriptor block and the attribute data change too (u32 counts, u16 unique
    ids, transform parameters in front of the values, legacy `DecodeSymbols`); the sequential data has no offset tags, so
    it is walked forwards, which works when the symbol sections are raw-coded (explicit sizes)."""
    if b[5:7] != bytes([2, 2]) or b[7] != 1 or b[8] != 0 or b[9] or b[10]:
        raise Skip("not a 2.2 sequential mesh without metadata")
    nf, p = _read_varint(b, 11)
    np_, p = _read_varint(b, p)
    cm = b[p]
    out = bytearray(b[:5]) + bytes(ver) + b[7:11] + nf.to_bytes(4, "little") + np_.to_bytes(4, "little") + bytes([cm])
    p += 1
    edits = []
    if cm == 1:
        if np_ < 256:
            q = p + 3 * nf
            out += b[p:q]
        elif np_ < 65536:
            q = p + 6 * nf
            out += b[p:q]
        elif np_ < (1 << 21):
            q = p
            for _ in range(3 * nf):
                v, q = _read_varint(b, q)
                out += v.to_bytes(4, "little")
        else:
            q = p + 12 * nf
            out += b[p:q]
        p = q
    elif cm != 0:
        raise Skip("connectivity method")
    if ver >= (2, 0):
        # compressed connectivity (`DecodeSymbols`) and everything behind it is version independent for 2.0 / 2.1
        return bytes(out) + bytes(b[p:])
    start = p
    if cm == 0 and nf:
        _symbols_edits(b, p, edits)
        p = _symbols_end(b, p)
    if b[p] != 1:
        raise Skip("attribute decoders")
    c0 = p + 1
    n, q = _read_varint(b, c0)
    edits.append((c0, q, n.to_bytes(4, "little")))
    ds = []
    for _ in range(n):
        uid, q2 = _read_varint(b, q + 4)
        if uid > 0xffff and ver < (1, 3):
            raise Skip("unique id")
        if ver < (1, 3):
            edits.append((q + 4, q2, uid.to_bytes(2, "little")))
        ds.append([b[q + 1], b[q + 2], None])
        q = q2
    for d in ds:
        d[2] = b[q]
        q += 1
    ins = []
    for dt, nc, kind in ds:
        if kind == 0:
            q += np_ * DT_LEN.get(dt, 0) * nc
            continue
        method = b[q] - 256 if b[q] > 127 else b[q]
        sel = 0
        v = q + 1
        if method != -2:
            tt = b[q + 1]
            v = q + 2
            if kind == 3:
                sel = 3 if tt == 3 else (2 if tt == 2 else 0)
            elif tt == 1:
                sel = 1
        if sel == 2:
            raise Skip("legacy octahedron transform")
        ins.append((v, kind, nc))
        vnc = 2 if kind == 3 else nc
        if b[v] > 0:
            _symbols_edits(b, v + 1, edits)
            q = _symbols_end(b, v + 1)
        else:
            q = v + 2 + b[v + 1] * np_ * vnc
        if sel in (1, 3):
            q += 8
    pp = q
    for (v, kind, nc) in ins:
        plen = 4 * nc + 5 if kind == 2 else (1 if kind == 3 else 0)
        if plen:
            edits.append((v, v, bytes(b[pp:pp + plen])))
        pp += plen
    if pp != len(b):
        raise Skip("sequential walk does not close")
    edits.append((q, len(b), b""))
    return bytes(out) + _apply(b, start, len(b), edits)


# ------------------------------------------------------------------ cases

def _expect(hout, mout, case):
    if hout is None or hout.startswith("CRASH"):
        return None
    if mout is None:
        return f"no model output for {case.note}"
    if mout.startswith("unsupported") and "variant:ok" in case.tags:
        return f"model answers `{mout[:80]}` on a re-assembled legacy mesh stream ({case.note})"
    if mout.startswith("unsupported"):
        return None
    if hout != mout and not E._same_up_to_nan(hout, mout):
        return f"legacy mesh decode differs ({case.note}): {K.first_difference(mout, hout)}"
    return None


def _mtag(mout):
    t = (mout or "none").split(" ")
    return "meshlegacy:" + t[0]


def _crash_oracle(hout, case):
    if hout.startswith("CRASH") and "out of memory" not in hout and "allocation-size-too-big" not in hout \
            and "requested allocation size" not in hout:
        return ("crash:meshlegacy", f"{hout[:300]} for `{case.op[:300]}`")
    return None


def case(data, skip, tags, note, flavour="plain", oracle=None):
    def orc(hout, case):
        v = _crash_oracle(hout, case)
        if v is None and oracle is not None:
            v = oracle(hout, case)
        return v
    c = Case(f"dec {skip} {bytes(data).hex()}", expect=_expect, oracle=orc, flavour=flavour,
             tags=("meshlegacy",) + tuple(tags), note=note)
    c.mtag = _mtag
    c.crash_ok = True
    return c


def base_ops(rng, n, small=True):
    """encoder ops for 2.2 meshes whose legacy re-layouts exist: position only / several per-vertex attributes in one
    connectivity (split_mesh_on_seams), attribute seams (2.1 only), forced parent-free schemes, sequential meshes"""
    ops = []
    topos = [t for t in E.topologies(rng, "quick") if 1 <= len(t[1][1]) <= (200 if small else 1500)]
    for i in range(n):
        name, topo = rng.choice(topos)
        kind = rng.choice(["pos", "pos", "single", "single", "single", "seams", "seq", "seq"])
        if kind == "pos":
            extra = []
        else:
            extra = rng.choice([e for _, e in E.ATT_SETS[1:]])
        g = E.build(rng, topo, extra, pos_dtype=rng.choice(["f32", "f32", "i16", "i32"]), isolated=rng.choice([0, 0, 1]))
        pred = None
        if kind == "single" and rng.random() < 0.7:
            # parent-free schemes for every attribute so that the versions below 2.0 can carry the stream
            pred = [(j, rng.choice([0, 1, 4]) if a.att_type != G.NORMAL else 0) for j, a in enumerate(g.atts)]
        toks, _ = E.options(rng, g, speed=rng.choice([0, 1, 2, 3, 5, 7, 10]), submethod=0, pred=pred,
                            split=1 if kind == "single" else (0 if kind == "seams" else None))
        toks = [t for t in toks if not t.startswith("track")]
        if kind == "seq":
            toks = ["method=0" if t == "method=1" else t for t in toks if not t.startswith("g:edgebreaker_method")]
            if rng.random() < 0.6:
                toks = [t for t in toks if not t.startswith("speed=")] + ["speed=10,10", "g:use_built_in_attribute_compression=0"]
        ops.append((kind, "enc " + " ".join(toks) + " -- " + g.to_text()))
    return ops


def variants(rng, tier, n_bases=None):
    """[(kind, version, original 2.2 bytes, transcoded bytes, 2.2 decode line)] — only streams the transcoder produced"""
    from vlib import common as C, implside, leanside
    hd = implside.ensure(["plain"])
    n = n_bases or (14 if tier == "quick" else 60)
    ops = base_ops(rng, n)
    wd = os.path.join(C.CACHE, "run", f"meshlegacy-{os.getpid()}")
    os.makedirs(wd, exist_ok=True)
    outs = implside.run_ops(hd["plain"], [o for _, o in ops], wd, "meshlegacy-enc")
    bases = [(k, bytes.fromhex(o.split()[1])) for (k, _), o in zip(ops, outs) if o.startswith("ok ")]
    decs = implside.run_ops(hd["plain"], ["dec - " + b.hex() for _, b in bases], wd, "meshlegacy-dec")
    f = os.path.join(wd, "trace.ops.txt")
    with open(f, "w") as fh:
        fh.write("\n".join("ebtrace - " + b.hex() for _, b in bases) + "\n")
    rc, traces, _ = leanside.run_driver(f)
    import shutil
    run = lambda lines: implside.run_ops(hd["plain"], lines, wd, "meshlegacy-bc")   # noqa: E731
    out = []
    skipped = {}
    for (kind, b), d, tr in zip(bases, decs, traces):
        if not d.startswith("ok "):
            continue
        try:
            g22, _ = G.parse_geom(d.split(), 2)
        except Exception:          # noqa: BLE001
            continue
        for ver in VERSIONS:
            try:
                if b[8] == 0:
                    v = relayout_seq(b, g22, ver)
                else:
                    if not tr.startswith("ok "):
                        raise Skip("no trace")
                    v = relayout_eb(b, tr, g22, ver, run=run)
            except Skip as ex:
                skipped[str(ex)] = skipped.get(str(ex), 0) + 1
                continue
            except (IndexError, ValueError):
                skipped["walk"] = skipped.get("walk", 0) + 1
                continue
            out.append((kind, ver, b, v, d))
    shutil.rmtree(wd, ignore_errors=True)
    return out, skipped


def cases(rng, tier, flavour="plain"):
    thorough = tier == "thorough"
    vs, skipped = variants(rng, tier)
    out = []
    for kind, ver, b, v, d in vs:
        ref = d.split(" ", 2)

        def same_geometry(hout, case, ref=ref):
            h = hout.split(" ", 2)
            if len(h) < 3 or h[0] != "ok":
                return ("meshlegacy:rejected", f"generator self check: the re-assembled {case.note} is rejected by the real "
                        f"decoder (`{hout[:60]}`) for `{case.op[:200]}`")
            if h[2] != ref[2]:
                return ("meshlegacy:geometry", f"generator self check: the re-assembled {case.note} decodes to another "
                        f"geometry than its 2.2 original: {K.first_difference(ref[2], h[2])}")
            return None
        tags = (f"meshlegacy:{kind}", f"v{ver[0]}.{ver[1]}", "variant:ok")
        note = f"{kind} mesh re-laid out as {ver[0]}.{ver[1]}"
        out.append(case(v, "-", tags, note, flavour, oracle=same_geometry))
        out.append(case(v, rng.choice(["01234", "0", "13"]), tags, note + " (skip)", flavour))
        for _ in range(3 if thorough else 1):
            x = bytearray(v)
            r = rng.random()
            if r < 0.6:
                x[rng.randrange(11, len(x))] = rng.randrange(256)
            elif r < 0.8:
                x = x[:rng.randrange(11, len(x))]
            else:
                p = rng.randrange(11, len(x))
                x[p] ^= 1 << rng.randrange(8)
            out.append(case(bytes(x), rng.choice(["-", "01234"]), (f"meshlegacy:{kind}", f"v{ver[0]}.{ver[1]}", "corrupt"),
                            note + " corrupted", flavour))
    return out


def corrupt_cases(rng, tier, flavour="asan"):
    """the share of `cases` used by C02's foreign corrupt families (asan flavour)"""
    return cases(rng, tier, flavour)
