"""Development runner for the legacy (< 2.3) kd-tree streams (slice kd follow-up 3): props/kdlegacy.py through the engine.
`python3 tools/check.py --property KDLEGDEV --tier quick|thorough`."""
from vlib.engine import Case
from . import kdlegacy

ID = "KDLEGDEV"
LEVEL = "proof"
LEAN_MODULES = []
RULE = ("props/kdlegacy.py: legacy kd-tree streams assembled from the library's own tree encoders (harness op legacykd), "
        "relabelled / re-laid-out for every version 1.0 .. 2.2 with rewritten descriptor blocks, and their corruptions; "
        "`dec` on the implementation vs the Lean decoder model token for token")
TIMEOUT = 3000


def generate(rng, tier):
    return kdlegacy.cases(rng, tier)


def replay_cases(lines):
    return [Case(l, model=False) for l in lines]
