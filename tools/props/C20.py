"""C20 — keyframe animations round-trip with frame order preserved."""
import struct
from fractions import Fraction

from vlib.engine import Case
from . import geomgen as G
from .geomgen import DT, DT_LEN, DT_FMT, f32, f32_bits, bits_f32

ID = "C20"
LEVEL = "proof"
LEAN_MODULES = ["DracoProps.C20"]
RULE = ("(a) animations built through KeyframeAnimation::SetTimestamps / AddKeyframes<T> in both API orders (timestamps "
        "first, tracks first) with 1..500 frames (quick; up to 10^4 thorough), 0..8 tracks, 1..16 components, data types "
        "int8..uint32 / float32 (incl. NaN / Inf / -0 patterns in unquantized data), optional per-track quantization (1..30 "
        "bits; also requested on integer tracks, where it must be ignored), encoder / decoder speeds 0..10, optionally one "
        "or two tracks removed again with PointCloud::DeleteAttribute before encoding (non-contiguous ids), the expert "
        "options KeyframeAnimationEncoder takes through EncoderOptions (use_built_in_attribute_compression off/on, "
        "symbol_encoding_method), tracks that rest and then move (2..16 components, int8..int32 and quantized floats, large "
        "corrections only in late frames, raw storage in 60 %), long int32 step tracks whose delta histogram puts one symbol "
        "exactly on a size-class boundary of the rANS probability table, and object-reuse histories (ONE encoder and ONE decoder "
        "object for 2..3 animations with independent frame counts; the oracle applies to the last); encoded with "
        "KeyframeAnimationEncoder, decoded with KeyframeAnimationDecoder. Oracle on the implementation's output against "
        "the INPUT data: decode succeeds, same number of frames, timestamps under id 0 and every track under the id "
        "AddKeyframes returned (distinct, non-zero ids; keyframes(id) / timestamps() non-null), same data type and "
        "component count, unquantized data bit-exact frame by frame, quantized float tracks within R/(2(2^q-1)) + "
        "14*2^-24*max(|x|,|min|,R) (R = largest component extent, exact rationals from the bit patterns), no extra "
        "attributes. The Lean driver decodes the same stream as a sequential point cloud (ordinary and all-skipped decode "
        "must agree token for token) and evaluates RoundTripOK on (animation as built, decode, skipped decode). "
        "(b) the API as a state machine: random call sequences incl. repeated / empty SetTimestamps, frame-count "
        "mismatches, 0 components, component counts 128..300 run on the real class and on the Lean model "
        "(DracoModel/Animation.lean): results of every call and the final attribute list must agree; oracle: every id "
        "returned by AddKeyframes indexes a track with exactly the data passed in, timestamps sit under id 0.")
THEOREM_BACKED = ('animation_roundtrip / animation_track_retrievable / animation_quantized_track (API state machine '
                  "composed with C01's sequential codec theorems: for every codable, plain call sequence with >= 1 frame "
                  "and timestamps set, decoding the encoder model's stream + arbitrary trailing bytes returns the frames in"
                  ' order, every track under the id AddKeyframes returned, unquantized data bit-exact, quantized tracks = '
                  'dequant(quant(row))); track_id_stable, track_ids_distinct, timestamps_id_zero, '
                  'set_timestamps_twice_fails, frame_count_mismatch_fails, num_frames_consistent (API state machine); '
                  'decoded_frames_in_stream_order(_legacy/_v), att_descs_roundtrip, '
                  'track_retrievable_after_roundtrip(_v)_partial (sequential decoder model); witnesses '
                  'num_components_narrowed_witness, frame_product_wraps_witness; source_tableSizeClass_is_model '
                  "(EncodeTable's size-class branch as compiled = model)")
CORRESPONDENCE_ONLY = ('animations with deleted tracks (PointCloud::DeleteAttribute), without frames or timestamps, or with >= '
                       '256 components are outside the composed theorem and covered by correspondence + oracle only; the '
                       "half-step bound of quantized tracks is C04's (abstract rounding model, evaluated in exact rationals "
                       'here)')
EXPLANATION = ('the composed theorem is about the model pair (sequential point-cloud encoder model tied byte-exactly by '
               "C01's seqenc cases, decoder model tied token for token here); value-level exactness is additionally "
               'checked by the oracle and the executable specification on every generated animation of the real encoder '
               '/ decoder')
ASSUMPTIONS = ["IEEE-754 binary32 round-to-nearest for + - * / and int->float; no FMA contraction (g++ x86-64 SSE)"]
TIMEOUT = 900
U = Fraction(1, 2 ** 24)
INT_TYPES = ["i8", "u8", "i16", "u16", "i32", "u32"]


# ------------------------------------------------------------------------------------------ generators

def rand_floats(rng, n, quantizable):
    if quantizable:
        mag = 10.0 ** rng.uniform(-6, 9)
        off = 0.0 if rng.random() < 0.4 else (rng.random() * 2 - 1) * 10.0 ** rng.uniform(-6, 9)
        kind = rng.randrange(5)
        out = []
        for _ in range(n):
            if kind == 0:
                v = off
            elif kind == 1:
                v = off + mag * rng.randint(0, 16) / 16.0
            else:
                v = off + mag * rng.random()
            out.append(f32(v))
        return out
    style = rng.randrange(4)
    if style == 0:
        return [bits_f32(rng.getrandbits(32)) for _ in range(n)]       # arbitrary patterns (NaN, Inf, denormals)
    if style == 1:
        return [f32(i * 0.04 + rng.random() * 0.01) for i in range(n)]
    return [f32((rng.random() * 2 - 1) * 10.0 ** rng.randint(-3, 6)) for _ in range(n)]


def f32_pattern_bytes(rng, n, quantizable):
    """float32 data as raw bytes (arbitrary bit patterns survive: python floats would canonicalize NaNs)"""
    if not quantizable and rng.random() < 0.25:
        pats = []
        for _ in range(n):
            r = rng.random()
            pats.append(rng.choice([0x7fc00000, 0x7f800000, 0xff800000, 0x80000000, 0x00000001, 0x7fa00001, 0xffffffff]) if r < 0.3 else rng.getrandbits(32))
        return b"".join(struct.pack("<I", p) for p in pats)
    return b"".join(struct.pack("<f", v) for v in rand_floats(rng, n, quantizable))


def rand_animation(rng, max_frames):
    n = rng.choice([1, 1, 2, 3, 7, 10, 50, 200, max_frames]) if rng.random() < 0.7 else rng.randint(1, max_frames)
    ntr = rng.randint(0, 8)
    # timestamps: increasing, or arbitrary floats
    if rng.random() < 0.7:
        t = 0.0
        ts = []
        for _ in range(n):
            t += rng.random() * rng.choice([0.01, 1.0, 30.0])
            ts.append(f32(t))
        tsb = b"".join(struct.pack("<f", v) for v in ts)
    else:
        tsb = f32_pattern_bytes(rng, n, False)
    tracks = []
    for k in range(ntr):
        dt = rng.choice(["f32", "f32", "f32"] + INT_TYPES)
        nc = rng.choice([1, 2, 3, 4, 4, 9, 16]) if rng.random() < 0.7 else rng.randint(1, 16)
        q = None
        if rng.random() < (0.5 if dt == "f32" else 0.15):
            q = rng.randint(1, 30) if rng.random() < 0.7 else rng.choice([1, 2, 8, 11, 14, 16, 24, 30])
        if dt == "f32":
            data = f32_pattern_bytes(rng, n * nc, q is not None)
        else:
            data = G.make_values(rng, DT[dt], nc, n)
            if dt == "u32" and rng.random() < 0.8:
                # the sequential integer encoder refuses uint32 values >= 2^31 (encode reports failure: nothing is
                # promised); keep most uint32 tracks inside the range it accepts
                data = b"".join(struct.pack("<I", v & 0x7fffffff) for (v,) in struct.iter_unpack("<I", data))
        tracks.append({"dt": DT[dt], "nc": nc, "q": q, "data": data})
    return n, tsb, tracks


def anim_case(rng, n, tsb, tracks, order, speed, dels, tags, extra=(), history=()):
    atts = [G.Attr(G.GENERIC, DT["f32"], 1, False, 0, n, None, tsb)]
    for k, tr in enumerate(tracks):
        atts.append(G.Attr(G.GENERIC, tr["dt"], tr["nc"], False, k + 1, n, None, tr["data"]))
    pc = G.Geom(False, n, [], atts)
    toks = [f"order={order}"]
    if speed is not None:
        toks.append(f"speed={speed[0]},{speed[1]}")
    kept = [k for k in range(len(tracks)) if (k + 1) not in dels]      # AddKeyframes returns k+1 for track k (checked by the oracle)
    # quantization is an attribute option keyed by the attribute INDEX at encoding time (after deletions)
    req = {}
    for pos, k in enumerate(kept):
        if tracks[k]["q"] is not None:
            toks.append(f"q{pos + 1}={tracks[k]['q']}")
            if tracks[k]["dt"] == DT["f32"]:
                req[k] = tracks[k]["q"]
    if dels:
        toks.append("del=" + ",".join(str(d) for d in sorted(dels)))
    toks += list(extra)
    body = " ".join(toks) + " -- " + pc.to_text()
    # history: earlier animations pushed through the SAME encoder / decoder objects (op animh reports the last one)
    op = ("animh " + " ;; ".join(list(history) + [body])) if history else ("anim " + body)

    def parts(hout):
        return hout.split(" | ")

    def oracle(hout, case):
        what = f"`{case.op[:260]}`"
        if hout.startswith(("err-timestamps", "err-addkeyframes")):
            return ("anim-build-fails", f"the API rejected a consistent animation ({hout}) for {what}")
        if not hout.startswith("ok "):
            return None     # the encoder reported failure
        p = parts(hout)
        if len(p) != 6:
            return ("malformed", f"malformed harness output for {what}")
        d = p[1].split()
        if d and d[0].startswith("err-track-"):
            return ("anim-track-id", f"after the round trip keyframes({d[0].split('-')[2]}) is null: the track is not retrievable under the id AddKeyframes returned, for {what}")
        if d and d[0] in ("err-timestamps-not-retrievable", "err-num-frames"):
            return ("anim-" + d[0][4:], f"after the round trip: {d[0][4:]} for {what}")
        if not d or d[0] != "ok":
            return ("anim-decode-fails", f"encoding reported success, decoding failed ({p[1][:60]}) for {what}")
        ids = [] if p[5].strip() == "-" else [int(x) for x in p[5].split(",")]
        if len(ids) != len(kept) or len(set(ids)) != len(ids) or 0 in ids:
            return ("anim-track-ids", f"AddKeyframes returned ids {ids} for {len(kept)} tracks for {what}")
        g2, _ = G.parse_geom(d, 2)
        if g2.valid() or any(getattr(a, "short", False) for a in g2.atts):
            return ("anim-decoded-unreadable", f"the decoded animation is not a structurally valid point cloud ({g2.valid() or 'attribute buffer too small'}) for {what}")
        if g2.num_points != n:
            return ("anim-num-frames", f"{g2.num_points} frames decoded, {n} encoded for {what}")
        if len(g2.atts) != 1 + len(kept):
            return ("anim-num-tracks", f"{len(g2.atts) - 1} tracks decoded, {len(kept)} encoded for {what}")
        by_uid = {}
        for a in g2.atts:
            by_uid.setdefault(a.uid, a)

        def frames(a):
            return [a.point_value(i) for i in range(n)]
        a0 = by_uid.get(0)
        if a0 is None or a0.dtype != DT["f32"] or a0.ncomp != 1:
            return ("anim-timestamps", f"no float32 x1 attribute under id 0 after decoding for {what}")
        if b"".join(frames(a0)) != tsb:
            return ("anim-timestamps", f"timestamps are not reproduced bit-exactly / in order for {what}")
        for k, tid in zip(kept, ids):
            tr = tracks[k]
            a = by_uid.get(tid)
            if a is None:
                return ("anim-track-id", f"track added as id {tid} is not present under that id after decoding (ids decoded: {sorted(by_uid)}) for {what}")
            if a.dtype != tr["dt"] or a.ncomp != tr["nc"]:
                return ("anim-track-descriptor", f"track {tid}: data type / components {a.dtype}x{a.ncomp} decoded, {tr['dt']}x{tr['nc']} encoded for {what}")
            got = b"".join(frames(a))
            if k not in req:
                if got != tr["data"]:
                    i = next(i for i in range(min(len(got), len(tr["data"]))) if got[i] != tr["data"][i]) if len(got) == len(tr["data"]) else -1
                    return ("anim-track-values", f"unquantized track {tid} is not reproduced bit-exactly (first differing byte {i}, frame {i // max(1, a.stride)}) for {what}")
            else:
                v = half_step(tr, got, n, req[k])
                if v:
                    return ("anim-track-quantized", f"quantized track {tid}: {v} for {what}")
        return None

    def model(hout):
        if not hout.startswith("ok "):
            return None
        p = parts(hout)
        if len(p) != 6:
            return None
        ids = [] if p[5].strip() == "-" else [int(x) for x in p[5].split(",")]
        r = ",".join(f"{tid}:{req[k]}" for k, tid in zip(kept, ids) if k in req) or "-"
        return f"e2e cls=seq req={r} skip=- hex={p[0].split()[1]} -- {p[4]} -- {p[1]} -- {p[2]} -- -"

    def expect(hout, mout, case):
        if mout is None or not hout.startswith("ok "):
            return None
        p = parts(hout)
        mp = mout.split(" | ")
        if len(mp) != 6 or len(p) != 6:
            return f"model output malformed: {mout[:200]}"
        if mp[0] != p[1]:
            return f"decode of the same animation stream differs: implementation `{p[1][:300]}` model `{mp[0][:300]}`"
        if mp[1] != p[2]:
            return f"skip-all decode of the animation stream differs: implementation `{p[2][:300]}` model `{mp[1][:300]}`"
        return None

    def spec(hout, mout, case):
        if mout is None or not hout.startswith("ok "):
            return None
        mp = mout.split(" | ")
        if len(mp) == 6 and mp[3].startswith("violation"):
            return ("roundtrip:" + mp[3].split(":", 1)[1].strip()[:40],
                    f"RoundTripOK (Lean spec) fails on (animation as built, decoded animation): {mp[3]} for `{case.op[:260]}`")
        return None

    c = Case(op, model=model, expect=expect, oracle=oracle, tags=tags)
    c.spec = spec
    c.mtag = lambda mout: "codec:" + ("encoder-failed" if mout is None else ("model-decoded" if mout.startswith("ok ") else "model:" + mout.split(" | ")[0][:30].replace(" ", "_")))
    return c


def half_step(tr, got, n, q):
    nc = tr["nc"]
    if len(got) != 4 * n * nc:
        return "wrong amount of data"
    xs = [Fraction(bits_f32(b)) for (b,) in struct.iter_unpack("<I", tr["data"])]
    ds_bits = [b for (b,) in struct.iter_unpack("<I", got)]
    M = 2 ** q - 1
    mins = [min(xs[c::nc]) for c in range(nc)]
    ext = max(max(xs[c::nc]) - mins[c] for c in range(nc))
    R = ext * (1 + 2 * U) if ext > 0 else Fraction(1)
    for i, (x, db) in enumerate(zip(xs, ds_bits)):
        if (db >> 23) & 0xff == 0xff:
            return f"decoded value {i} is not finite"
        d = Fraction(bits_f32(db))
        mn = mins[i % nc]
        mag = max(abs(x), abs(mn), R)
        if abs(d - x) > R / (2 * M) + 14 * U * mag:
            return (f"|decoded-x| = {float(abs(d - x))} exceeds half a step {float(R / (2 * M))} (+allowance) at frame {i // nc} "
                    f"component {i % nc} (q={q})")
    return None


# ------------------------------------------------------------------------------------------ API state machine

def api_case(rng, tags):
    calls = []        # (kind, payload)
    nframes = rng.choice([0, 1, 2, 3, 5])
    ncalls = rng.randint(1, 7)
    for _ in range(ncalls):
        r = rng.random()
        if r < 0.35:
            k = nframes if rng.random() < 0.7 else rng.choice([0, 1, 2, 3, 5, nframes + 1])
            calls.append(("T", [rng.getrandbits(32) for _ in range(k)]))
        else:
            dt = rng.choice(["i8", "u8", "i16", "u16", "i32", "u32", "f32"])
            r2 = rng.random()
            nc = rng.randint(1, 16) if r2 < 0.7 else rng.choice([0, 1, 127, 128, 200, 255, 256, 257, 300])
            k = nframes if rng.random() < 0.75 else rng.choice([0, 1, 2, 3, nframes + 1])
            ln = nc * k if rng.random() < 0.85 else max(0, nc * k + rng.choice([-1, 1, nc]))
            bits = 8 * DT_LEN[DT[dt]]
            calls.append(("K", (DT[dt], nc, [rng.getrandbits(bits) for _ in range(ln)])))
    toks = []
    for kind, pl in calls:
        if kind == "T":
            toks.append("T:" + ",".join(map(str, pl)))
        else:
            toks.append(f"K:{pl[0]}:{pl[1]}:" + ",".join(map(str, pl[2])))
    op = "animapi " + " ".join(toks)

    def oracle(hout, case):
        if " | " not in hout or " |" not in hout.split(" | ", 1)[1]:
            return ("malformed", f"malformed animapi output `{hout[:100]}` for `{case.op[:200]}`")
        r0, rest = hout.split(" | ", 1)
        _counts, _, attstr = rest.partition(" |")
        rets = [] if r0 == "-" else r0.split(",")
        atts = {}
        for i, t in enumerate(attstr.split()):
            u, ty, d, c, sz, data = t.split(":")
            atts[i] = (int(u), int(d), int(c), int(sz), [] if data == "-" else [int(x) for x in data.split(".")])
        first_ts = None
        for (kind, pl), r in zip(calls, rets):
            if kind == "K" and int(r) >= 0:
                tid = int(r)
                hit = [a for a in atts.values() if a[0] == tid]
                if tid < 1 or len(hit) != 1 or atts.get(tid, (None,))[0] != tid:
                    return ("api-track-id", f"AddKeyframes returned id {tid}, attributes with that unique id: {len(hit)} for `{case.op[:200]}`")
                a = hit[0]
                if pl[1] < 256 and (a[1] != pl[0] or a[2] != pl[1] or a[4] != pl[2]):
                    return ("api-track-data", f"the track under id {tid} does not hold the data passed to AddKeyframes for `{case.op[:200]}`")
            if kind == "T" and r == "1" and pl and first_ts is None:
                first_ts = pl
        if first_ts is not None:
            a = atts.get(0)
            if a is None or a[0] != 0 or a[4] != first_ts:
                return ("api-timestamps", f"the timestamps are not retrievable under id 0 for `{case.op[:200]}`")
        return None
    c = Case(op, oracle=oracle, tags=tags)
    return c


def generate(rng, tier):
    cases = []
    thorough = tier == "thorough"
    maxf = 10000 if thorough else 500
    n_anim = 1500 if thorough else 400
    for i in range(n_anim):
        n, tsb, tracks = rand_animation(rng, maxf if i % 10 == 0 else min(maxf, 200))
        order = rng.randint(0, 1)
        speed = (rng.randint(0, 10), rng.randint(0, 10)) if rng.random() < 0.85 else None
        dels = set()
        if len(tracks) >= 2 and rng.random() < 0.25:
            dels = set(rng.sample(range(1, len(tracks) + 1), rng.choice([1, 1, 2]) if len(tracks) > 2 else 1))
        tags = [f"api-order:{'tracks-first' if order else 'timestamps-first'}", f"tracks:{len(tracks)}",
                "frames:" + ("1" if n == 1 else "2-9" if n < 10 else "10-99" if n < 100 else "100-999" if n < 1000 else "1000+"),
                "speed:default" if speed is None else f"enc-speed:{speed[0]:02d}"]
        if speed is not None:
            tags.append(f"dec-speed:{speed[1]:02d}")
        for k, tr in enumerate(tracks):
            dtn = [a for a, b in DT.items() if b == tr["dt"]][0]
            tags.append(f"track:{dtn}")
            tags.append(f"components:{tr['nc']:02d}")
            if tr["q"] is not None:
                tags.append("quantized:float-track" if tr["dt"] == DT["f32"] else "quantization-requested-on-integer-track")
        if dels:
            tags.append(f"deleted-tracks:{len(dels)}")
        extra = expert_extra(rng, 0.25)
        tags += [t.replace("=", ":") for t in extra]
        cases.append(anim_case(rng, n, tsb, tracks, order, speed, dels, tuple(sorted(set(tags))) + ("gen:animation",), extra=extra))
    # ---- tracks that rest and then move (large corrections only in late frames), raw storage in a good share
    for _ in range(600 if thorough else 200):
        n, tsb, tracks = rest_then_move(rng)
        extra = expert_extra(rng, 0.6)
        speed = (rng.randint(0, 10), rng.randint(0, 10))
        tags = ["gen:rest-then-move"] + [t.replace("=", ":") for t in extra] + [f"components:{tr['nc']:02d}" for tr in tracks]
        tags += ["quantized:float-track" for tr in tracks if tr["q"] is not None]
        cases.append(anim_case(rng, n, tsb, tracks, rng.randint(0, 1), speed, set(), tuple(sorted(set(tags))), extra=extra))
    # ---- object-reuse histories: one KeyframeAnimationEncoder and one KeyframeAnimationDecoder for 2..3 animations
    #      with independently drawn frame counts / track sets; the oracle applies to the last one
    for _ in range(450 if thorough else 150):
        hist = []
        for _k in range(rng.randint(1, 2)):
            n0, tsb0, tr0 = rand_animation(rng, 60) if rng.random() < 0.7 else rest_then_move(rng)
            c0 = anim_case(rng, n0, tsb0, tr0, rng.randint(0, 1), (rng.randint(0, 10), rng.randint(0, 10)), set(), (), extra=expert_extra(rng, 0.3))
            hist.append(body_of(c0))
        n, tsb, tracks = rand_animation(rng, 60) if rng.random() < 0.7 else rest_then_move(rng)
        extra = expert_extra(rng, 0.3)
        cases.append(anim_case(rng, n, tsb, tracks, rng.randint(0, 1), (rng.randint(0, 10), rng.randint(0, 10)), set(),
                               ("gen:object-reuse-history", f"history-length:{len(hist) + 1}"), extra=extra, history=hist))
    # ---- long step tracks whose delta histogram puts one symbol exactly on a size-class boundary of the rANS
    #      probability table (2^14 at 15/16 bits of precision: counts chosen so that the normalisation is exact)
    for (m, p, z) in [(256, 8, 4096), (512, 6, 2048), (256, 6, 1024)]:
        for sp in ([1, 2, 3, 4] if thorough else [rng.choice([1, 2]), 3, 4]):
            n, tsb, tracks = step_track(rng, m, p, z)
            # the encoder's compression level follows max(encoding speed, decoding speed)
            cases.append(anim_case(rng, n, tsb, tracks, rng.randint(0, 1), (sp, rng.randint(0, sp)), set(),
                                   ("gen:symbol-table-boundary", f"enc-speed:{sp:02d}", "frames:1000+")))
    for _ in range(6000 if thorough else 1500):
        cases.append(api_case(rng, ("gen:api-call-sequence",)))
    return cases


def step_track(rng, m, p, z):
    """one int32 track whose frame-to-frame deltas are: 0 exactly z times, each of +-1..+-m exactly p times"""
    deltas = [0] * z + [k for k in range(1, m + 1) for _ in range(p)] + [-k for k in range(1, m + 1) for _ in range(p)]
    rng.shuffle(deltas)
    # the first frame is predicted from 0: start at the first delta
    v, vals = 0, []
    for d in deltas:
        v += d
        vals.append(v)
    n = len(vals)
    tsb = b"".join(struct.pack("<f", f32(i / 30.0)) for i in range(n))
    data = b"".join(struct.pack("<i", x) for x in vals)
    return n, tsb, [{"dt": DT["i32"], "nc": 1, "q": None, "data": data}]


def body_of(c):
    return c.op.split(" ", 1)[1]


def rest_then_move(rng):
    """tracks that rest and then move: the large (after delta prediction) values occur only in late frames"""
    n = rng.choice([8, 12, 20, 40, 100, 200])
    ts = [f32(i / 30.0) for i in range(n)]
    tsb = b"".join(struct.pack("<f", v) for v in ts)
    tracks = []
    for _ in range(rng.randint(1, 3)):
        dt = rng.choice(["i8", "u8", "i16", "u16", "i32", "f32", "f32"])
        nc = rng.choice([2, 3, 4, 4, 8, 9, 16]) if rng.random() < 0.8 else rng.randint(2, 16)
        start = rng.randint(max(1, n // 2), n - 1)          # the first n scalars (= n/nc frames) are all at rest
        q = None
        if dt == "f32":
            q = rng.choice([8, 9, 10, 11, 14, 16, 17, 20, 24]) if rng.random() < 0.9 else None
            lo = f32(rng.choice([0.0, -1.0, 5.0]))
            amp = 10.0 ** rng.randint(-1, 3)
            rows = []
            for i in range(n):
                if i < start:
                    rows.append([lo] * nc)
                else:
                    rows.append([f32(lo + amp * (rng.random() if rng.random() < 0.7 else rng.choice([0.0, 1.0]))) for _ in range(nc)])
            data = b"".join(struct.pack("<" + "f" * nc, *r) for r in rows)
        else:
            lim = {"i8": (-128, 127), "u8": (0, 255), "i16": (-32768, 32767), "u16": (0, 65535), "i32": (-2 ** 30, 2 ** 30)}[dt]
            rest = rng.choice([0, 1, lim[0] if lim[0] < 0 else 0, 3])
            big = rng.choice([lim[1], lim[1] // 2, 300, 70000, 2 ** 24 + 5, 255, 256, 65535, 65536])
            big = max(lim[0], min(lim[1], big))
            rows = []
            for i in range(n):
                if i < start:
                    rows.append([rest] * nc)
                else:
                    rows.append([rng.choice([rest, big, -big if lim[0] < 0 else big // 2, rng.randint(lim[0], lim[1])]) if rng.random() < 0.6 else rest for _ in range(nc)])
                    rows[-1] = [max(lim[0], min(lim[1], v)) for v in rows[-1]]
            data = b"".join(struct.pack("<" + DT_FMT[DT[dt]] * nc, *r) for r in rows)
        tracks.append({"dt": DT[dt], "nc": nc, "q": q, "data": data})
    return n, tsb, tracks


def expert_extra(rng, p_builtin_off):
    extra = []
    if rng.random() < p_builtin_off:
        extra.append("builtin=0")
    elif rng.random() < 0.1:
        extra.append("builtin=1")
    if rng.random() < 0.15:
        extra.append(f"g:symbol_encoding_method={rng.choice([0, 1])}")
    return extra


def anim_case_from_op(line):
    if line.startswith("animh "):
        parts = line[6:].split(" ;; ")
        c = anim_case_from_op("anim " + parts[-1])
        c.op = line
        return c
    head, gt = line.split(" -- ", 1)
    o = dict(t.split("=", 1) for t in head.split()[1:] if "=" in t)
    g, _ = G.parse_geom(gt.split())
    n = g.num_points
    tsb = b"".join(g.atts[0].point_value(i) for i in range(n))
    dels = {int(x) for x in o["del"].split(",")} if o.get("del") else set()
    tracks = [{"dt": a.dtype, "nc": a.ncomp, "q": None, "data": b"".join(a.point_value(i) for i in range(n))} for a in g.atts[1:]]
    kept = [k for k in range(len(tracks)) if (k + 1) not in dels]
    for key, v in o.items():
        if key[0] == "q" and key[1:].isdigit() and 1 <= int(key[1:]) <= len(kept):
            tracks[kept[int(key[1:]) - 1]]["q"] = int(v)
    speed = tuple(int(x) for x in o["speed"].split(",")) if "speed" in o else None
    extra = [t for t in head.split()[1:] if t.startswith(("builtin=", "g:"))]
    return anim_case(None, n, tsb, tracks, int(o.get("order", "0")), speed, dels, ("replay",), extra=extra)


def replay_cases(lines):
    out = []
    for l in lines:
        if l.startswith("animapi "):
            out.append(Case(l))     # correspondence; the id oracle needs the generator's call list
        elif l.startswith(("anim ", "animh ")):
            out.append(anim_case_from_op(l))
        else:
            out.append(Case(l, model=False))
    return out
