"""Development runner for the Edgebreaker decoder model (slice eb): the cases of props/ebcases.py
through the engine.  Not a property of properties.jsonl; `python3 tools/check.py --property EBDEV`."""
import os

from vlib.engine import Case
from . import ebcases

ID = "EBDEV"
LEVEL = "proof"
LEAN_MODULES = ["DracoProps.C01Eb"] if os.path.exists(os.path.join(os.path.dirname(__file__), "..", "..", "lean", "DracoProps", "C01Eb.lean")) else []
RULE = "props/ebcases.py: deliberate Edgebreaker generators + corrupted streams"
TIMEOUT = 3000


def generate(rng, tier):
    cs = ebcases.cases(rng, tier)
    if os.environ.get("EB_FLAVOUR"):           # e.g. EB_FLAVOUR=asan: the whole encode/decode under ASan+UBSan
        for c in cs:
            c.flavour = os.environ["EB_FLAVOUR"]
    if os.environ.get("EB_THREADS", "1") != "0":
        cs += ebcases.concurrent_cases(rng, tier)
    if os.environ.get("EB_CORRUPT", "1") != "0":
        streams = ebcases.seed_streams(rng, 10 if tier == "quick" else 40)
        cs += ebcases.corrupt_cases(rng, streams, per_stream=30 if tier == "quick" else 150)
        cs += ebcases.synth_connectivity_cases(rng, n=400 if tier == "quick" else 20000)
    return cs


def replay_cases(lines):
    return [Case(l, model=False) for l in lines]
