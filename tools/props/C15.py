"""C15 — writing a geometry to OBJ / PLY / STL and reading it back preserves it; the command line tools compose
these steps without further loss."""
import re
import struct
from fractions import Fraction

from vlib.engine import Case
from . import geomgen as G

ID = "C15"
LEVEL = "proof"
LEAN_MODULES = ["DracoProps.C15"]
RULE = ("meshes over all topology families of C01 (grids, closed surfaces, non-manifold fans, bow-ties, soups, several "
        "components, empty / single / degenerate / duplicate / flipped faces, isolated points, non-deduplicated points) "
        "and point clouds; float32x3 positions, optional float32x3 normals, float32x2 texture coordinates, uint8 colours "
        "(1..4 components), every subset and order, per-vertex / seam / per-face / per-corner value layouts, identity and "
        "explicit point->value maps; magnitudes 1e-6..1e6 (uniform in the exponent), grids, constants, mixed magnitudes, "
        "values one float32 step or less than 1e-6 apart, 6-decimal ties (k/128); PLY payloads starting with line-ending / "
        "blank bytes. Each geometry goes through the real StlEncoder/PlyEncoder/ObjEncoder + decoder in process (a quarter "
        "under ASan+UBSan); file bytes (OBJ: index triples verbatim, number tokens as parsed float32 bit patterns) and the "
        "decoded geometry must equal the Lean model's; the property is evaluated on the implementation's own result. "
        "Readers alone on hand-written files (CRLF, comments, polygons, relative indices, alias type names, extra "
        "properties, trailing bytes). The number text alone: printed characters for bit patterns over the whole float32 range "
        "(denormals, binade and 10^k boundaries, buffer limit, FLT_MAX, inf, nan) and parser::ParseFloat on arbitrary tokens "
        "(decimals, exponents incl. int32 wrap, long digit strings, inf/nan spellings, malformed). draco_encoder/draco_decoder run on temporary files with quantization disabled. "
        "non-trivial = distinct op line"
        '; writer histories whose first call fails')
THEOREM_BACKED = ("stl_roundtrip (full), ply_roundtrip (full on float32/int32 positions, float32 normals, uint8 colours), "
                  "obj_roundtrip / obj_connectivity_roundtrip / obj_seams_exact / obj_precision (meshes with >= 1 face) and "
                  "obj_pointcloud_roundtrip (point clouds, face-less meshes), all relative to the number codec; the number codec "
                  "itself: obj_dec6_exact, obj_print_exact (exact arithmetic), obj_text_precision(_ieee) (any rounding "
                  "oracle), obj_text_nonfinite_unreadable")
CORRESPONDENCE_ONLY = ("that g++ / x86-64 binary64 arithmetic and the binary64 -> binary32 conversion satisfy the rounding "
                       "model of obj_text_precision is assumed and sampled (executable Float instance of the same parser model "
                       "= real parser::ParseFloat bit for bit; the bound is evaluated in exact rationals per value); the "
                       "command line tools are exercised end to end only (no model of the tools)")
EXPLANATION = ("OBJ point clouds / face-less meshes: ObjEncoder used to write value tables that ObjDecoder pairs by position "
               "(repaired in /repo 55a4a4d; obj_pointcloud_pairing_violation / obj_pointcloud_unreadable are kept as "
               "statements about the old writer, their inputs are the first cases of every run); the current writer is "
               "covered by obj_pointcloud_roundtrip")
ASSUMPTIONS = ["IEEE-754 binary32/binary64 round-to-nearest arithmetic in g++ (x86-64 SSE, no FMA contraction) and in the "
               "compiled Lean driver (STL face normals, ParseFloat)",
               "glibc printf(\"%F\") rounds the exact binary value half-to-even (as the model and the oracle do)"]
TRUSTED_EXTRA = ["python oracle of tools/props/C15.py (exact rational 6-decimal bound, seam / connectivity comparison)"]
TIMEOUT = 1800

F32, U8, I32 = G.DT["f32"], G.DT["u8"], G.DT["i32"]


# ------------------------------------------------------------------ float helpers

def fbits(b):
    return struct.unpack("<f", b)[0]


def comps_f32(vb):
    """float32 components of a value (bytes) as bit patterns"""
    return [struct.unpack_from("<I", vb, 4 * i)[0] for i in range(len(vb) // 4)]


def pad(bits, k):
    return (list(bits) + [0] * k)[:k]


def text6(bits):
    """what printf("%F") prints for a finite float32 (python formats the exact binary value, half-to-even)"""
    return "%.6f" % G.bits_f32(bits)


def ulp(bits):
    e = (bits >> 23) & 0xff
    return Fraction(2) ** (max(e, 1) - 150)


def finite(bits):
    return (bits >> 23) & 0xff != 255


def close6(src, res):
    """|res - src| <= 0.5e-6 + ulp(src), exactly"""
    if not finite(src) or not finite(res):
        return False
    return abs(Fraction(G.bits_f32(res)) - Fraction(G.bits_f32(src))) <= Fraction(5, 10 ** 7) + ulp(src)


# ------------------------------------------------------------------ value generators (1e-6 .. 1e6)

def rand_scalar(rng, mag):
    return G.f32((rng.random() * 2 - 1) * mag)


def rand_mag(rng):
    return 10.0 ** rng.uniform(-6, 6)


def float_values(rng, ncomp, n, kind=None):
    """n values of ncomp float32 components -> list of tuples"""
    kind = kind or rng.choice(["rand", "rand", "grid", "mixed", "near", "ties", "const", "unit"])
    mag = rand_mag(rng)
    off = [0.0 if rng.random() < 0.5 else rand_scalar(rng, rand_mag(rng)) for _ in range(ncomp)]
    vals = []
    for i in range(n):
        v = []
        for c in range(ncomp):
            if kind == "rand":
                x = off[c] + rand_scalar(rng, mag)
            elif kind == "grid":
                x = off[c] + mag * rng.randint(-8, 8) / 8.0
            elif kind == "mixed":
                x = rand_scalar(rng, rand_mag(rng))
            elif kind == "near":        # clusters one float32 step / less than 1e-6 apart
                base = G.f32(off[c] + mag * rng.randint(-2, 2))
                r = rng.random()
                if r < 0.4:
                    x = base
                elif r < 0.7:
                    x = G.bits_f32(max(0, G.f32_bits(base) + rng.choice([-2, -1, 1, 2])))
                else:
                    x = base + rng.choice([-1, 1]) * rng.choice([2e-7, 4e-7, 6e-7, 9e-7, 1.1e-6])
            elif kind == "ties":        # exactly representable 7-decimal values ending in 5
                x = rng.randint(-2000, 2000) / 128.0 + rng.choice([0, 1, 3]) / 2 ** rng.choice([7, 9, 12])
            elif kind == "unit":
                x = rng.random() if rng.random() < 0.8 else rng.choice([0.0, 1.0, -0.0, 0.5])
            else:
                x = off[c]
            x = G.f32(x)
            if abs(x) > 1.5e6 or x != x:
                x = G.f32(1e6 if x > 0 else -1e6)
            v.append(x)
        vals.append(tuple(v))
    if n > 2 and rng.random() < 0.3:
        for i in range(n):
            if rng.random() < 0.3:
                vals[i] = vals[rng.randrange(n)]
    return vals


def pack_floats(vals):
    return b"".join(struct.pack("<" + "f" * len(v), *v) for v in vals)


def distinct_positions(rng, n):
    """n pairwise different lattice positions (no two within 1e-3 of the scale): no face degenerates by value"""
    scale = rng.choice([1.0, 0.125, 16.0, 1000.0, 0.001])
    seen, out = set(), []
    side = max(2, int(round(n ** (1 / 3))) + 2)
    while len(out) < n:
        p = (rng.randint(-side, side), rng.randint(-side, side), rng.randint(-side, side))
        if p in seen:
            continue
        seen.add(p)
        out.append(tuple(G.f32(c * scale + 0.25 * scale) for c in p))
    return out


def lattice_positions(rng, g, nbits, step):
    """positions on the lattice step * [0, 2^nbits - 1]^3 + origin whose largest extent is exactly 2^nbits - 1 steps (both
    extremes on vertices used by faces / on points): quantization with nbits bits is exact on them"""
    pos = first_att(g, G.POSITION)
    n, top = pos.num_values, 2 ** nbits - 1
    used = sorted({(p if pos.map is None else pos.map[p]) for f in g.faces for p in f}) if g.faces else \
        sorted({(p if pos.map is None else pos.map[p]) for p in range(g.num_points)})
    if len(used) < 2 or n > (top + 1) ** 3 // 2:
        return False
    org = [rng.randint(-64, 64) for _ in range(3)]
    seen, pts = set(), []
    while len(pts) < n:
        p = (rng.randint(0, top), rng.randint(0, top), rng.randint(0, top))
        if p not in seen:
            seen.add(p)
            pts.append(list(p))
    a, b = rng.sample(used, 2)
    c = rng.randrange(3)
    pts[a][c], pts[b][c] = 0, top
    if len({tuple(p) for p in pts}) != n:
        return False
    pos.values = pack_floats([tuple(G.f32((k + o) * step) for k, o in zip(p, org)) for p in pts])
    return True


def refill(rng, g, boundary_byte=False, clean=False):
    """replace the float attribute values of a generated geometry by values of the property's range"""
    for a in g.atts:
        if a.dtype != F32:
            continue
        n = max(a.num_values, 0)
        if a.att_type == G.NORMAL and a.ncomp == 3 and rng.random() < 0.7:
            a.values = G.make_normals(rng, n)
        elif a.att_type == G.POSITION and clean:
            a.values = pack_floats(distinct_positions(rng, n))
        elif a.att_type == G.TEX_COORD and rng.random() < 0.6:
            a.values = pack_floats(float_values(rng, a.ncomp, n, "unit"))
        else:
            a.values = pack_floats(float_values(rng, a.ncomp, n))
    if boundary_byte and g.num_points > 0:
        # the first byte of a PLY payload: low mantissa byte of the first point's x coordinate
        pos = next((a for a in g.atts if a.att_type == G.POSITION), None)
        if pos is not None and pos.stride >= 4 and pos.num_values > 0:
            vi = 0 if pos.map is None else pos.map[0]
            b = bytearray(pos.values)
            b[vi * pos.stride] = rng.choice([0x0a, 0x0d, 0x0d, 0x20, 0x09, 0x0b, 0x0c, 0x00, 0xff, 0x23])
            pos.values = bytes(b)
    return g


def rand_specs(rng):
    specs = [(G.NORMAL, F32, 3, False)] if rng.random() < 0.5 else []
    if rng.random() < 0.5:
        specs.append((G.TEX_COORD, F32, 2, False))
    if rng.random() < 0.5:
        specs.append((G.COLOR, U8, rng.choice([3, 4, 3, 4, 1, 2]), rng.random() < 0.8))
    rng.shuffle(specs)
    specs = [(G.POSITION, F32, 3, False)] + specs
    if rng.random() < 0.5:
        uids = list(range(len(specs)))
    else:
        uids = rng.sample(range(40), len(specs))
    return [(t, d, c, nz, u) for (t, d, c, nz), u in zip(specs, uids)]


def rand_geom(rng, tier, mesh=None):
    mesh = rng.random() < 0.65 if mesh is None else mesh
    big = [4, 12, 40, 120, 300] if tier == "thorough" else [4, 12, 40, 100]
    if mesh:
        g = G.rand_mesh(rng, rng.choice(big), specs=rand_specs(rng))
    else:
        g = G.rand_point_cloud(rng, rng.choice(big), specs=rand_specs(rng))
        g.family = "pc"
    return g


# ------------------------------------------------------------------ what the formats select (mirrors Ply.select / Obj.texOf …)

def first_att(g, t):
    return next((a for a in g.atts if a.att_type == t), None)


def corner_values(a, faces):
    return [tuple(a.point_value(p) for p in f) for f in faces]


def norm_out(s):
    # harness/geom_text.h prints SHORTBUFFER for an attribute without values and without buffer
    return s.replace(" 0 id SHORTBUFFER ", " 0 id - ") if s else s


def parse_decoded(d):
    """-> Geom or None (ERR…)"""
    d = norm_out(d)
    if not (d.startswith("mesh ") or d.startswith("pc ")):
        return None
    g, _ = G.parse_geom(d.split(), 0)
    return g


def shares_ok(g, g2):
    """corners that are the same point in the source are the same point in the result"""
    m = {}
    for f, f2 in zip(g.faces, g2.faces):
        for p, q in zip(f, f2):
            if m.setdefault(p, q) != q:
                return False
    return True


# ------------------------------------------------------------------ oracles

def stl_hyp(g):
    pos = first_att(g, G.POSITION)
    return (g.is_mesh and pos is not None and pos.dtype == F32 and pos.ncomp == 3 and g.valid() is None
            and 3 * len(g.faces) < 2 ** 31)


def stl_oracle(g):
    def f(hout, case):
        if not stl_hyp(g):
            return None
        op = case.op[:300]
        parts = hout.split(" | ")
        if len(parts) != 2 or parts[0] == "ERR":
            return ("stl-encode-fails", f"StlEncoder failed on a mesh with float32x3 positions: `{op}`")
        g2 = parse_decoded(parts[1])
        if g2 is None:
            return ("stl-unreadable", f"StlDecoder failed on StlEncoder's output ({parts[1][:40]}): `{op}`")
        pos = first_att(g, G.POSITION)
        if g2.valid() or not g2.is_mesh or len(g2.faces) != len(g.faces) or not g2.atts:
            return ("stl-faces", f"STL round trip: {len(g.faces)} faces written, result {parts[1][:80]}: `{op}`")
        p2 = g2.atts[0]
        if (p2.att_type, p2.dtype, p2.ncomp) != (G.POSITION, F32, 3):
            return ("stl-attributes", f"STL round trip: attribute 0 of the result is not a float32x3 position: `{op}`")
        want, got = corner_values(pos, g.faces), corner_values(p2, g2.faces)
        for i, (w, x) in enumerate(zip(want, got)):
            if w != x:
                return ("stl-position", f"STL round trip: face {i} corner positions {[v.hex() for v in x]} != written "
                                        f"{[v.hex() for v in w]}: `{op}`")
        return None
    return f


def ply_sel(g):
    pos = first_att(g, G.POSITION)
    if pos is None:
        return None
    nrm = first_att(g, G.NORMAL)
    nrm = nrm if nrm is not None and nrm.ncomp == 3 else None
    tex = first_att(g, G.TEX_COORD)
    tex = tex if tex is not None and tex.ncomp == 2 else None
    return pos, nrm, tex, first_att(g, G.COLOR)


def ply_hyp(g):
    s = ply_sel(g)
    if s is None or g.valid() is not None:
        return False
    pos, nrm, tex, col = s
    if pos.dtype not in (F32, I32) or pos.ncomp != 3:
        return False
    if nrm is not None and nrm.dtype != F32:
        return False
    if col is not None and (col.dtype != U8 or not 1 <= col.ncomp <= 4):
        return False
    if g.is_mesh and tex is not None and tex.dtype not in (F32, U8, I32):
        return False
    return True


def ply_oracle(g, am):
    def f(hout, case):
        if not ply_hyp(g) or am != g.is_mesh:
            return None
        op = case.op[:300]
        parts = hout.split(" | ")
        if len(parts) != 2 or parts[0] == "ERR":
            return ("ply-encode-fails", f"PlyEncoder failed on a supported geometry: `{op}`")
        g2 = parse_decoded(parts[1])
        if g2 is None:
            return ("ply-unreadable", f"PlyDecoder failed on PlyEncoder's output ({parts[1][:40]}): `{op}`")
        pos, nrm, tex, col = ply_sel(g)
        faces = g.faces if g.is_mesh else []
        if g2.valid() or g2.is_mesh != g.is_mesh or len(g2.faces) != len(faces):
            return ("ply-faces", f"PLY round trip: {len(faces)} faces written, result {parts[1][:80]}: `{op}`")
        want = [(pos, "position", G.POSITION, pos.dtype, 3)]
        if nrm is not None:
            want.append((nrm, "normal", G.NORMAL, F32, 3))
        if col is not None:
            want.append((col, "colour", G.COLOR, U8, col.ncomp))
        if len(g2.atts) != len(want):
            return ("ply-attributes", f"PLY round trip: {len(want)} attributes written, {len(g2.atts)} read back: `{op}`")
        for k, (a, name, ty, dt, nc) in enumerate(want):
            a2 = g2.atts[k]
            if (a2.att_type, a2.dtype, a2.ncomp) != (ty, dt, nc):
                return ("ply-attributes", f"PLY round trip: attribute {k} is not the {name} attribute "
                                          f"({a2.att_type},{a2.dtype},{a2.ncomp}): `{op}`")
            w, x = corner_values(a, faces), corner_values(a2, g2.faces)
            for i, (u, v) in enumerate(zip(w, x)):
                if u != v:
                    return ("ply-" + name, f"PLY round trip: face {i} corner {name}s {[t.hex() for t in v]} != written "
                                           f"{[t.hex() for t in u]}: `{op}`")
            if not faces:
                if g2.num_points != g.num_points:
                    return ("ply-points", f"PLY round trip: {g.num_points} points written, {g2.num_points} read back: `{op}`")
                for p in range(g.num_points):
                    if a.point_value(p) != a2.point_value(p):
                        return ("ply-" + name, f"PLY round trip: {name} of point {p} is {a2.point_value(p).hex()}, written "
                                               f"{a.point_value(p).hex()}: `{op}`")
        if faces and not shares_ok(g, g2):
            return ("ply-faces", f"PLY round trip: two corners on the same point in the source are on different points "
                                 f"in the result: `{op}`")
        return None
    return f


def obj_atts(g):
    """(position, tex, normal) as ObjEncoder selects them"""
    pos = first_att(g, G.POSITION)
    tex = first_att(g, G.TEX_COORD)
    nrm = first_att(g, G.NORMAL)
    return (pos, tex if tex is not None and tex.num_values else None, nrm if nrm is not None and nrm.num_values else None)


def obj_hyp(g):
    pos, tex, nrm = obj_atts(g)
    return (pos is not None and pos.num_values > 0 and g.valid() is None
            and all(a is None or a.dtype == F32 for a in (pos, tex, nrm)))


def obj_want(g):
    pos, tex, nrm = obj_atts(g)
    w = [(pos, "position", G.POSITION, 3)]
    if tex is not None:
        w.append((tex, "texture coordinate", G.TEX_COORD, 2))
    if nrm is not None:
        w.append((nrm, "normal", G.NORMAL, 3))
    return w


def obj_check_atts(g2, want, op):
    if len(g2.atts) != len(want):
        return ("obj-attributes", f"OBJ round trip: {len(want)} attributes written, {len(g2.atts)} read back: `{op}`")
    for k, (a, name, ty, nc) in enumerate(want):
        a2 = g2.atts[k]
        if (a2.att_type, a2.dtype, a2.ncomp) != (ty, F32, nc):
            return ("obj-attributes", f"OBJ round trip: attribute {k} is not the float32x{nc} {name} attribute: `{op}`")
    return None


def src_key(want, p):
    """6-decimal text of everything ObjEncoder prints for point p"""
    return tuple(text6(b) for (a, _, _, nc) in want for b in pad(comps_f32(a.point_value(p)), nc))


def res_bits(g2, q):
    return [b for a2 in g2.atts for b in comps_f32(a2.point_value(q))]


def src_bits(want, p):
    return [b for (a, _, _, nc) in want for b in pad(comps_f32(a.point_value(p)), nc)]


def obj_mesh_oracle(g, am):
    def f(hout, case):
        if not (obj_hyp(g) and g.is_mesh and g.faces and am):
            return None
        op = case.op[:300]
        parts = hout.split(" | ")
        if len(parts) != 2 or parts[0] == "ERR":
            return ("obj-encode-fails", f"ObjEncoder failed on a mesh with float32 attributes: `{op}`")
        g2 = parse_decoded(parts[1])
        if g2 is None:
            return ("obj-unreadable", f"ObjDecoder failed on ObjEncoder's output ({parts[1][:40]}): `{op}`")
        want = obj_want(g)
        if g2.valid() or not g2.is_mesh or len(g2.faces) != len(g.faces):
            return ("obj-faces", f"OBJ round trip: {len(g.faces)} faces written, result {parts[1][:80]}: `{op}`")
        v = obj_check_atts(g2, want, op)
        if v:
            return v
        names = [n for (_, n, _, nc) in want for _ in range(nc)]
        key_of_point, point_of_key, exact_of_point = {}, {}, {}
        for fi, (fs, fr) in enumerate(zip(g.faces, g2.faces)):
            for p, q in zip(fs, fr):
                sb, rb = src_bits(want, p), res_bits(g2, q)
                # values: 6-decimal text precision + float32 rounding
                for j, (s, r) in enumerate(zip(sb, rb)):
                    if not close6(s, r):
                        return ("obj-" + names[j].split()[0] + "-precision",
                                f"OBJ round trip: face {fi}: {names[j]} component {G.bits_f32(s)!r} came back as "
                                f"{G.bits_f32(r)!r} (more than 0.5e-6 + 1 ulp away): `{op}`")
                k = src_key(want, p)
                # connectivity and seams: same point of the result <=> same printed values of all attributes
                if key_of_point.setdefault(q, k) != k:
                    return ("obj-connectivity",
                            f"OBJ round trip: face {fi}: two corners with different written values "
                            f"({k} vs {key_of_point[q]}) share point {q} of the result: `{op}`")
                if point_of_key.setdefault(k, q) != q:
                    return ("obj-seam",
                            f"OBJ round trip: face {fi}: two corners with the same written values {k} are on different "
                            f"points ({q}, {point_of_key[k]}) of the result: `{op}`")
                exact_of_point[q] = sb
        # points of the result are pairwise distinguishable
        seen = {}
        for q in range(g2.num_points):
            t = tuple(res_bits(g2, q))
            if t in seen:
                return ("obj-duplicate-points", f"OBJ round trip: points {seen[t]} and {q} of the result carry the same "
                                                f"values: `{op}`")
            seen[t] = q
        return None
    return f


def obj_points_oracle(g, am):
    """point clouds and meshes without faces: the same list of points up to merging of identical points"""
    def f(hout, case):
        if not obj_hyp(g) or (g.is_mesh and g.faces) or am != g.is_mesh or g.num_points == 0:
            return None
        op = case.op[:300]
        sig = "obj-pointcloud"
        parts = hout.split(" | ")
        if len(parts) != 2 or parts[0] == "ERR":
            return ("obj-encode-fails", f"ObjEncoder failed on a point cloud with float32 attributes: `{op}`")
        g2 = parse_decoded(parts[1])
        if g2 is None:
            return (sig, f"OBJ point cloud: ObjDecoder rejects ObjEncoder's output: `{op}`")
        want = obj_want(g)
        v = obj_check_atts(g2, want, op)
        if v:
            return (sig, v[1])
        keys, first = [], {}
        for p in range(g.num_points):
            k = src_key(want, p)
            if k not in first:
                first[k] = p
                keys.append(k)
        if g2.valid() or g2.num_points != len(keys):
            return (sig, f"OBJ point cloud: {g.num_points} points ({len(keys)} different) written, {g2.num_points} read "
                         f"back: `{op}`")
        for q, k in enumerate(keys):
            rb = res_bits(g2, q)
            sb = src_bits(want, first[k])
            if tuple(text6(b) for b in rb) != k or not all(close6(s, r) for s, r in zip(sb, rb)):
                return (sig, f"OBJ point cloud: point {q} of the result carries {[G.bits_f32(b) for b in rb]}, written "
                             f"{[G.bits_f32(b) for b in sb]} (values attached to the wrong point): `{op}`")
        return None
    return f


def nums_oracle(bits):
    def f(hout, case):
        got = hout.split(",")
        if len(got) != len(bits):
            return ("obj-number-codec", f"`{case.op[:200]}`: {len(bits)} numbers written, {len(got)} read back")
        for b, r in zip(bits, got):
            if not finite(b) or abs(G.bits_f32(b)) > 1e7:
                continue
            if r == "?" or not close6(b, int(r)):
                return ("obj-number-precision", f"float32 {G.bits_f32(b)!r} (bits {b}) written by ObjEncoder is read back as "
                                                f"{'unparsable' if r == '?' else repr(G.bits_f32(int(r)))}: more than 0.5e-6 + 1 ulp away")
        return None
    return f


# ---- command line tools

CARRIED = {"ply": (G.POSITION, G.NORMAL, G.COLOR), "obj": (G.POSITION, G.TEX_COORD, G.NORMAL), "stl": (G.POSITION,)}


def soup(g, types, textual):
    """multiset of faces (rotation-normalised triples of per-corner value tuples), or of points; `textual`: float32
    components are compared through their 6-decimal text (what an OBJ file holds)"""
    atts = [first_att(g, t) for t in types]

    def val(a, p):
        v = a.point_value(p)
        return tuple(text6(b) for b in comps_f32(v)) if textual and a.dtype == F32 else v
    tup = lambda p: tuple(val(a, p) for a in atts)
    if g.is_mesh and g.faces:
        out = []
        for f in g.faces:
            c = [tup(p) for p in f]
            out.append(min((c[0], c[1], c[2]), (c[1], c[2], c[0]), (c[2], c[0], c[1])))
        return sorted(out)
    return sorted(tup(p) for p in range(g.num_points))


def tool_oracle(fin, fout, as_pc):
    def f(hout, case):
        op = case.op[:300]
        parts = hout.split(" | ")
        if len(parts) != 3:
            return None
        g1 = parse_decoded(parts[1])
        if g1 is None or g1.num_points == 0 or g1.valid():
            return None         # the input file itself is not readable: the in-process cases report that
        rc = parts[0].split()
        if rc[0] != "0":
            return ("tools-encoder-fails", f"draco_encoder exit code {rc[0]} on a file the library reads: `{op}`")
        if rc[1] != "0":
            if fout == "stl" and not (g1.is_mesh and g1.faces):
                return None     # "Can't store a point cloud as STL"
            return ("tools-decoder-fails", f"draco_decoder exit code {rc[1]} on draco_encoder's output: `{op}`")
        g2 = parse_decoded(parts[2])
        if g2 is None or g2.valid():
            return ("tools-output-unreadable", f"the file written by draco_decoder cannot be read back ({parts[2][:40]}): `{op}`")
        have1 = {a.att_type for a in g1.atts}
        types = [t for t in CARRIED[fout] if t in have1]
        have2 = {a.att_type for a in g2.atts}
        if any(t not in have2 for t in types):
            return ("tools-attribute-lost", f"attribute types {sorted(have1)} in the input, {sorted(have2)} after "
                                            f"draco_encoder | draco_decoder -> .{fout}: `{op}`")
        m1, m2 = bool(g1.is_mesh and g1.faces), bool(g2.is_mesh and g2.faces)
        if m1 != m2 or len(g1.faces) != len(g2.faces) or (not m1 and fout != "obj" and g1.num_points != g2.num_points):
            return ("tools-counts", f"{len(g1.faces)} faces / {g1.num_points} points in the input, {len(g2.faces)} / "
                                    f"{g2.num_points} after the tools: `{op}`")
        s1, s2 = soup(g1, types, fout == "obj"), soup(g2, types, fout == "obj")
        if not m1 and fout == "obj":        # ObjDecoder merges identical points of a point cloud
            s1, s2 = sorted(set(s1)), sorted(set(s2))
        if s1 != s2:
            return ("tools-values", f"with lossless settings (`-qp 0`, or lattice positions with `-qp N`) the geometry read from the tools' output differs from "
                                    f"the geometry read from the input file (attribute types {types}): `{op}`")
        return None
    return f


# ------------------------------------------------------------------ correspondence

def expect_rt(hout, mout, case):
    h = [norm_out(p) for p in hout.split(" | ")]
    m = mout.split(" | ")
    if len(m) != 2:
        return f"model output malformed: {mout[:200]}"
    if m[0].startswith("ERR:") or m[0].startswith("bad"):
        return None                 # outside the writer model
    if len(h) != 2:
        return f"implementation output malformed: {hout[:200]}"
    if h[0] != m[0]:
        i = next((k for k in range(min(len(h[0]), len(m[0]))) if h[0][k] != m[0][k]), min(len(h[0]), len(m[0])))
        return (f"written file differs at char {i}: implementation …{h[0][max(0, i - 60):i + 60]}… model "
                f"…{m[0][max(0, i - 60):i + 60]}…")
    if m[1].startswith("ERR:"):
        return None                 # outside the reader model
    if h[1] != m[1]:
        return f"geometry read back differs: implementation `{h[1][:300]}` model `{m[1][:300]}`"
    return None


def expect_dec(hout, mout, case):
    if mout.startswith("ERR:") or mout.startswith("bad"):
        return None
    if norm_out(hout) != mout:
        return f"reader result differs: implementation `{hout[:300]}` model `{mout[:300]}`"
    return None


def model_tag(mout):
    if mout is None:
        return "model:none"
    m = mout.split(" | ")
    if any(p.startswith("ERR:") for p in m):
        return "model:outside(" + next(p for p in m if p.startswith("ERR:"))[4:] + ")"
    return "model:rejects" if m[-1] == "ERR" else "model:defined"


# ------------------------------------------------------------------ cases from op lines (generation and replay)

def geom_tags(g, fmt):
    t = [fmt, ("mesh:" + getattr(g, "family", "?")) if g.is_mesh else "pc"]
    t.append("atts:" + "".join("PNCTG"[a.att_type] for a in g.atts))
    if any(a.map is not None for a in g.atts):
        t.append("explicit_maps")
    return tuple(t)


def case_from_line(line, flavour="plain", tags=()):
    tok = line.split()
    op = tok[0]
    if op == "stl_rt":
        g, _ = G.parse_geom(tok, 1)
        c = Case(line, expect=expect_rt, oracle=stl_oracle(g), flavour=flavour, tags=tags)
    elif op == "ply_rt":
        g, _ = G.parse_geom(tok, 2)
        c = Case(line, expect=expect_rt, oracle=ply_oracle(g, tok[1] == "1"), flavour=flavour, tags=tags)
    elif op == "obj_rt":
        g, _ = G.parse_geom(tok, 2)
        am = tok[1] == "1"
        o1, o2 = obj_mesh_oracle(g, am), obj_points_oracle(g, am)
        c = Case(line, expect=expect_rt, oracle=lambda h, cs: o1(h, cs) or o2(h, cs), flavour=flavour, tags=tags)
    elif op in ("obj_rth", "ply_rth"):
        # history on ONE encoder object: geometry A first, then geometry B; the result for B is held to the same
        # standard as a fresh encoder's (model line and oracles = the plain op on B)
        sep = tok.index("--")
        btok = [op[:-1], tok[1]] + tok[sep + 1:]
        g, _ = G.parse_geom(btok, 2)
        am = tok[1] == "1"
        if op == "obj_rth":
            o1, o2 = obj_mesh_oracle(g, am), obj_points_oracle(g, am)
            orc = lambda h, cs: o1(h, cs) or o2(h, cs)
        else:
            orc = ply_oracle(g, am)
        c = Case(line, model=" ".join(btok), expect=expect_rt, oracle=orc, flavour=flavour, tags=tags)
    elif op in ("obj_dech", "ply_dech"):
        # ONE decoder object reads another file first; the second read is held to the model's reading of that file alone
        c = Case(line, model=f"{op[:-1]} {tok[1]} {tok[3]}", expect=expect_dec, flavour=flavour, tags=tags)
    elif op in ("stl_dec", "ply_dec", "obj_dec"):
        c = Case(line, expect=expect_dec, flavour=flavour, tags=tags)
    elif op == "obj_nums":
        c = Case(line, oracle=nums_oracle([int(x) for x in tok[1].split(",")]), flavour=flavour, tags=tags)
    elif op == "obj_print":
        c = Case(line, oracle=print_oracle([int(x) for x in tok[1].split(",")]), flavour=flavour, tags=tags)
    elif op == "obj_parse":
        toks = [bytes.fromhex(h).decode("latin1") if h != "-" else "" for h in tok[1].split(",")]
        c = Case(line, oracle=parse_oracle(toks), flavour=flavour, tags=tags)
    elif op == "tool_rt":
        kv = dict(t.split("=", 1) for t in tok[1:tok.index("--")] if "=" in t)
        c = Case(line, model=False, oracle=tool_oracle(kv.get("in", "ply"), kv.get("out", "ply"), kv.get("pc") == "1"),
                 flavour="plain", tags=tags)
    else:
        c = Case(line, flavour=flavour, tags=tags)
    if op != "tool_rt":
        c.mtag = model_tag
    return c


# ------------------------------------------------------------------ hand-written files for the readers

def obj_text(rng, g):
    """an OBJ file for g written differently from ObjEncoder: CRLF, comments, groups, polygons, relative indices,
    other number spellings"""
    pos, tex, nrm = obj_atts(g)
    eol = rng.choice(["\n", "\n", "\r\n"])
    rel = rng.random() < 0.3

    def num(x):
        r = rng.random()
        if r < 0.5:
            return "%.6f" % x
        if r < 0.7:
            return repr(float(int(x))) if abs(x) < 1e6 else "%.1f" % x
        if r < 0.85:
            return "%d" % int(x) if abs(x) < 1e6 else "%.3f" % x
        return ("%.5e" % x).replace("e+", "e") if x != 0 else "0.0"

    out = ["# written by tools/props/C15.py"] if rng.random() < 0.5 else []
    for a, kw, nc in ((pos, "v", 3), (tex, "vt", 2), (nrm, "vn", 3)):
        if a is None:
            continue
        for i in range(a.num_values):
            comps = pad([G.bits_f32(b) for b in comps_f32(a.value_bytes(i))], nc)
            out.append(kw + " " + " ".join(num(x) for x in comps))
        if rng.random() < 0.3:
            out.append("")
    if rng.random() < 0.4:
        out.append("g group1")
    if rng.random() < 0.3:
        out.append("s off")
    if g.is_mesh:
        def corner(p):
            def idx(a):
                i = (p if a.map is None else a.map[p])
                return str(i - a.num_values) if rel else str(i + 1)
            s = idx(pos)
            if tex is not None or nrm is not None:
                s += "/" + (idx(tex) if tex is not None else "")
                if nrm is not None:
                    s += "/" + idx(nrm)
            return s
        fs = list(g.faces)
        i = 0
        while i < len(fs):
            # merge a fan of triangles (p0, a, b), (p0, b, c) … into one polygon line
            poly = list(fs[i])
            j = i + 1
            while j < len(fs) and len(poly) < 8 and rng.random() < 0.4 and fs[j][0] == poly[0] and fs[j][1] == poly[-1]:
                poly.append(fs[j][2])
                j += 1
            out.append("f " + " ".join(corner(p) for p in poly))
            i = j
            if rng.random() < 0.1:
                out.append("# comment")
    return (eol.join(out) + eol).encode()


PLY_NAMES = {F32: ["float", "float32"], U8: ["uchar", "uint8"], I32: ["int", "int32"]}


def ply_bytes(rng, g):
    """a binary PLY file for g written differently from PlyEncoder"""
    pos, nrm, tex, col = ply_sel(g)
    eol = rng.choice(["\n", "\n", "\r\n"])
    tn = lambda dt: rng.choice(PLY_NAMES[dt])
    hdr = ["ply", "format binary_little_endian 1.0"]
    if rng.random() < 0.5:
        hdr.append("comment written by tools/props/C15.py")
    hdr.append(f"element vertex {g.num_points}")
    extra = rng.random() < 0.4
    for n in "xyz":
        hdr.append(f"property {tn(pos.dtype)} {n}")
    if extra:
        hdr.append("property float quality")
    if nrm is not None:
        for n in ("nx", "ny", "nz"):
            hdr.append(f"property {tn(F32)} {n}")
    if col is not None:
        for n in ["red", "green", "blue", "alpha"][:col.ncomp]:
            hdr.append(f"property {tn(U8)} {n}")
    body = b""
    for p in range(g.num_points):
        body += pos.point_value(p)
        if extra:
            body += struct.pack("<f", rng.random())
        if nrm is not None:
            body += nrm.point_value(p)
        if col is not None:
            body += col.point_value(p)
    if g.is_mesh:
        ct, it = rng.choice([("uchar", "B"), ("ushort", "H"), ("uint", "I")]), rng.choice([("int", "i"), ("uint", "I"), ("ushort", "H")])
        if g.num_points > 60000:
            it = ("int", "i")
        elif g.num_points <= 127 and rng.random() < 0.3:
            it = rng.choice([("uchar", "B"), ("char", "b"), ("short", "h"), ("uint8", "B"), ("int16", "h"), ("uint16", "H")])
        polys = []
        fs = list(g.faces)
        i = 0
        while i < len(fs):
            poly = list(fs[i])
            j = i + 1
            while j < len(fs) and len(poly) < 6 and rng.random() < 0.4 and fs[j][0] == poly[0] and fs[j][1] == poly[-1]:
                poly.append(fs[j][2])
                j += 1
            polys.append(poly)
            i = j
        hdr.append(f"element face {len(polys)}")
        hdr.append(f"property list {ct[0]} {it[0]} {rng.choice(['vertex_indices', 'vertex_index'])}")
        for poly in polys:
            body += struct.pack("<" + ct[1], len(poly)) + b"".join(struct.pack("<" + it[1], v) for v in poly)
    hdr.append("end_header")
    return (eol.join(hdr) + eol).encode() + body + (b"\x00\x01" if rng.random() < 0.2 else b"")


# ------------------------------------------------------------------ generation

def witness_cases():
    """the inputs of the theorems `obj_pointcloud_pairing_violation` / `obj_pointcloud_unreadable` / `obj_weld_violation`"""
    f = lambda *xs: struct.pack("<" + "f" * len(xs), *xs)
    pos2 = G.Attr(G.POSITION, F32, 3, False, 0, 2, None, f(1, 0, 0, 0, 1, 0))
    swapped = G.Geom(False, 2, [], [pos2, G.Attr(G.NORMAL, F32, 3, False, 1, 2, [1, 0], f(0, 0, 1, 1, 0, 0))])
    shared = G.Geom(False, 2, [], [pos2, G.Attr(G.NORMAL, F32, 3, False, 1, 1, [0, 0], f(0, 0, 1))])
    shared_m = G.Geom(True, 2, [], shared.atts)
    one = struct.unpack("<f", struct.pack("<I", 0x3f800001))[0]
    nearby = G.Geom(True, 6, [(0, 1, 2), (3, 4, 5)],
                    [G.Attr(G.POSITION, F32, 3, False, 0, 6, None, f(1, 0, 0, 2, 0, 0, 3, 1, 0, one, 0, 0, 2, 1, 0, 3, 3, 0))])
    return [case_from_line("obj_rt 0 " + swapped.to_text(), tags=("witness:pointcloud_pairing",)),
            case_from_line("obj_rt 0 " + shared.to_text(), tags=("witness:pointcloud_unreadable",)),
            case_from_line("obj_rt 1 " + shared_m.to_text(), tags=("witness:pointcloud_unreadable",)),
            case_from_line("obj_rt 1 " + nearby.to_text(), tags=("witness:weld",))]


def special_bits(rng):
    r = rng.random()
    if r < 0.35:
        v = rand_scalar(rng, rand_mag(rng))
    elif r < 0.55:      # 6-decimal ties and their float32 neighbours
        v = rng.randint(-4000, 4000) / 128.0 + rng.choice([0, 1, 3, 5]) / 2 ** rng.choice([7, 8, 10, 13, 17, 20])
    elif r < 0.7:       # around 10^k and 2^k
        v = rng.choice([10.0 ** rng.randint(-6, 6), 2.0 ** rng.randint(-20, 20)]) * rng.choice([1, -1])
    elif r < 0.8:       # n * 1e-6 and half steps
        v = rng.randint(-3000000, 3000000) * 1e-6 + rng.choice([0, 5e-7, -5e-7])
    elif r < 0.9:       # binades where a float32 step is close to 1e-6
        v = rng.uniform(4, 32) * rng.choice([1, -1])
    else:
        v = rng.choice([0.0, -0.0, 1e-6, 5e-7, 4.9999e-7, 5.0000001e-7, 1e-7, 9.9999995, 9.9999995e-7, 1e6, -1e6,
                        999999.9375, 16777216.0, 1.17549435e-38, 1e-45, 0.1, 0.3, 2.5e-6, 1.5e-6, 68719476736.0 * 0.999])
    b = G.f32_bits(G.f32(v))
    if rng.random() < 0.3:
        b = max(0, min(0xff7fffff if b >> 31 else 0x7f7fffff, b + rng.choice([-1, 1])))
    return b


def wide_bits(rng):
    """bit patterns over the whole float32 range: denormals, huge magnitudes (39-digit `%f` texts cut by the 20-byte
    buffer), every binade boundary, non-finite values"""
    r = rng.random()
    if r < 0.25:
        b = rng.getrandbits(32)
    elif r < 0.45:      # denormals and the smallest normals
        b = rng.choice([0, 1, 2, 0x7fffff, 0x800000, 0x800001]) + rng.choice([0, 0, rng.getrandbits(20)])
        b |= rng.getrandbits(1) << 31
    elif r < 0.7:       # binade boundaries and 10^k up to 3.4e38
        if rng.random() < 0.5:
            b = (rng.randint(1, 254) << 23) + rng.choice([0, 1, 0x7fffff, 0x400000])
        else:
            b = G.f32_bits(G.f32(10.0 ** rng.randint(-45, 38))) + rng.choice([-1, 0, 1])
        b = max(0, b) | (rng.getrandbits(1) << 31)
    elif r < 0.9:       # around the limits of the 20-byte buffer: 1e10 .. 1e20
        b = G.f32_bits(G.f32(10.0 ** rng.uniform(10, 20))) | (rng.getrandbits(1) << 31)
    else:
        b = rng.choice([0x7f7fffff, 0xff7fffff, 0x7f800000, 0xff800000, 0x7fc00000, 0xffc00000, 0x7f800001, 0x80000000,
                        0x00000000, 0x7fffffff])
    return b & 0xffffffff


def print_oracle(bits):
    """the text ObjEncoder prints is the exactly rounded 6-decimal expansion, cut after 19 characters"""
    def f(hout, case):
        got = hout.split(",")
        if len(got) != len(bits):
            return ("obj-print", f"`{case.op[:200]}`: {len(bits)} numbers written, {len(got)} tokens found")
        for b, h in zip(bits, got):
            if not finite(b):
                continue
            want = ("%.6f" % G.bits_f32(b))[:19]
            text = bytes.fromhex(h).decode("latin1") if h != "-" else ""
            if text != want:
                return ("obj-print-not-exact", f"ObjEncoder prints float32 bits {b} ({G.bits_f32(b)!r}) as `{text}`, the "
                                               f"exactly rounded 6-decimal text (19 characters) is `{want}`")
        return None
    return f


PLAIN_DECIMAL = re.compile(r"^[+-]?\d{1,15}\.\d{0,17}$")


def parse_oracle(tokens):
    """reader half of the precision claim on the implementation: a plain decimal is read to within the binary64
    accumulation + binary32 conversion slack of its exact value"""
    def f(hout, case):
        got = hout.split(",")
        if len(got) != len(tokens):
            return ("obj-parse", f"`{case.op[:200]}`: {len(tokens)} tokens, {len(got)} results")
        for t, r in zip(tokens, got):
            if not PLAIN_DECIMAL.match(t):
                continue
            exact = Fraction(t)
            if r == "?":
                return ("obj-parse-rejects-decimal", f"parser::ParseFloat rejects the plain decimal `{t}`")
            b, n = r.split(":")
            if int(n) != len(t) or not finite(int(b)):
                return ("obj-parse-decimal", f"parser::ParseFloat on `{t}`: bits {b}, {n} of {len(t)} characters read")
            if abs(exact) < Fraction(1, 2 ** 126):
                continue
            if abs(Fraction(G.bits_f32(int(b))) - exact) > abs(exact) * (Fraction(1, 2 ** 24) + Fraction(1, 2 ** 46)):
                return ("obj-parse-precision", f"parser::ParseFloat reads `{t}` as {G.bits_f32(int(b))!r}: more than "
                                               f"2^-24 + 2^-46 relative error")
        return None
    return f


def rand_token(rng):
    r = rng.random()
    x = G.bits_f32(special_bits(rng))
    if r < 0.3:
        return "%.6f" % x
    if r < 0.4:
        return ("%." + str(rng.randint(0, 17)) + "f") % x
    if r < 0.5:
        return rng.choice(["%.9g", "%e", "%.3E", "%g", "%.17g"]) % x
    if r < 0.6:
        return rng.choice(["+", ""]) + str(rng.randint(0, 10 ** rng.randint(1, 15))) + rng.choice(["", ".", ".0", ".5"])
    if r < 0.7:     # long digit strings
        return "".join(rng.choice("0123456789") for _ in range(rng.randint(16, 45))) + \
            rng.choice(["", "." + "".join(rng.choice("0123456789") for _ in range(rng.randint(1, 30)))])
    if r < 0.8:
        return rng.choice(["%de%d", "%dE%d", "%d.5e%d", "-%de%d"]) % (rng.randint(0, 99), rng.choice(
            [0, 1, -1, 5, -5, 38, 39, -38, -45, -46, 300, 308, 309, -320, -400, 400, 2147483647, 2147483648, 4294967295,
             4294967296, -2147483648]))
    return rng.choice(["inf", "Inf", "-inf", "+Inf", "nan", "NaN", "-nan", "-NaN", "INF", "NAN", "-INF", "infinity", "in",
                       "1e", "1e+", "e5", "-", "+", "", ".", "-.", ".5", "-.5", "5.", "1.2.3", "12abc", "0x10", "1,5", "--1",
                       "+-1", "1e5.5", "0e999", "-0e999", "0.0e-999", "1e-999", "-0", "-0.0", "+0.000000", "00012.5000",
                       "1.e3", "1.5f", "1_000"])


def generate(rng, tier):
    thorough = tier == "thorough"
    cases = witness_cases()
    # ---- 1. in-process round trips of geometries of the property's domain
    n_geom = 6000 if thorough else 1200
    for i in range(n_geom):
        g = refill(rng, rand_geom(rng, tier), boundary_byte=rng.random() < 0.3)
        fl = "asan" if i % 4 == 0 else "plain"
        am = 1 if g.is_mesh else 0
        t = g.to_text()
        if g.is_mesh:
            cases.append(case_from_line("stl_rt " + t, fl, geom_tags(g, "stl")))
        cases.append(case_from_line(f"ply_rt {am} " + t, fl, geom_tags(g, "ply")))
        cases.append(case_from_line(f"obj_rt {am} " + t, fl, geom_tags(g, "obj")))
        if rng.random() < 0.1:      # a mesh file read as a point cloud and vice versa (correspondence only)
            cases.append(case_from_line(f"ply_rt {1 - am} " + t, fl, ("ply", "cross_read")))
            cases.append(case_from_line(f"obj_rt {1 - am} " + t, fl, ("obj", "cross_read")))
    # ---- 1b. histories: one encoder object writes another geometry first (mesh then cloud, cloud then mesh, …)
    for i in range(600 if thorough else 120):
        ga = refill(rng, rand_geom(rng, tier), boundary_byte=False)
        gb = refill(rng, rand_geom(rng, tier), boundary_byte=False)
        failing_first = False
        if i % 5 == 0:
            # the first call FAILS (a mesh without a POSITION attribute is refused by the writers): the object must be
            # as usable afterwards as after a successful call
            ga = G.rand_mesh(rng, rng.choice([4, 12]), specs=[(rng.choice([G.GENERIC, G.TEX_COORD, G.NORMAL]), G.DT["f32"], 3, False, 0)])
            failing_first = True
        am = 1 if gb.is_mesh else 0
        op = "obj_rth" if i % 2 == 0 else "ply_rth"
        cases.append(case_from_line(f"{op} {am} {ga.to_text()} -- {gb.to_text()}", "asan" if i % 4 == 0 else "plain",
                                    (op, "history:" + ("failed-mesh" if failing_first else "mesh" if ga.is_mesh else "pc") + "->" + ("mesh" if gb.is_mesh else "pc"))))
    # ---- 2. geometries outside the property's domain (other types / several attributes of a kind / no position):
    #         correspondence, and the oracles wherever the theorems' hypotheses hold
    for i in range(1500 if thorough else 300):
        specs = G.rand_att_specs(rng, with_position=rng.random() < 0.93)
        specs = [(t, d, 3 if t == G.POSITION else c, nz, u) for (t, d, c, nz, u) in specs]
        # kept inside what the C++ writers handle without undefined behaviour (colours with at most 4 components)
        specs = [(t, d, min(c, 4) if t == G.COLOR else c, nz, u) for (t, d, c, nz, u) in specs]
        if not specs:
            continue
        g = G.rand_mesh(rng, rng.choice([4, 12, 30]), specs=specs) if rng.random() < 0.6 else \
            G.rand_point_cloud(rng, rng.choice([4, 12, 30]), specs=specs)
        am = 1 if g.is_mesh else 0
        t = g.to_text()
        pos = first_att(g, G.POSITION)
        if g.is_mesh and (pos is None or pos.ncomp == 3):
            cases.append(case_from_line("stl_rt " + t, "plain", ("stl", "other_types")))
        cases.append(case_from_line(f"ply_rt {am} " + t, "plain", ("ply", "other_types")))
        cases.append(case_from_line(f"obj_rt {am} " + t, "plain", ("obj", "other_types")))
    # ---- 3. the readers on files not written by the library's writers
    for i in range(2000 if thorough else 400):
        g = refill(rng, rand_geom(rng, "quick"))
        if g.num_points == 0:
            continue
        am = rng.choice([1, 1, 0]) if g.is_mesh else rng.choice([0, 0, 1])
        cases.append(case_from_line(f"obj_dec {am} " + obj_text(rng, g).hex(), "plain", ("obj_dec", "handwritten")))
        cases.append(case_from_line(f"ply_dec {am} " + ply_bytes(rng, g).hex(), "plain", ("ply_dec", "handwritten")))
    for i in range(300 if thorough else 80):
        ga = refill(rng, rand_geom(rng, "quick"))
        gb = None
        # ObjDecoder / PlyDecoder keep the attribute ids of the previous file: on the unchanged tree an object can be
        # reused only for files with the same kinds of attributes (that is what its counter reset is for), so the
        # history uses two files of the same shape — the property itself says nothing about reused reader objects
        kinds = lambda g: (g.is_mesh, tuple(sorted((a.att_type, a.ncomp, a.dtype) for a in g.atts)))
        for _ in range(40):
            cand = refill(rng, rand_geom(rng, "quick"))
            if kinds(cand) == kinds(ga):
                gb = cand
                break
        if gb is None or ga.num_points == 0 or gb.num_points == 0:
            continue
        am = 1 if gb.is_mesh else 0
        if i % 2 == 0:
            cases.append(case_from_line(f"obj_dech {am} {obj_text(rng, ga).hex()} {obj_text(rng, gb).hex()}", "asan" if i % 4 == 0 else "plain", ("obj_dech", "decoder-history")))
        else:
            cases.append(case_from_line(f"ply_dech {am} {ply_bytes(rng, ga).hex()} {ply_bytes(rng, gb).hex()}", "asan" if i % 4 == 1 else "plain", ("ply_dech", "decoder-history")))
    stl = bytes(80) + struct.pack("<I", 1) + struct.pack("<12f", 0, 0, 1, 0, 0, 0, 1, 0, 0, 0, 1, 0) + b"\x00\x00"
    for f in (stl, stl + b"trailing", b"solid " + stl[6:], b"binary header, not ascii".ljust(80, b".") + stl[80:]):
        cases.append(case_from_line("stl_dec " + f.hex(), "plain", ("stl_dec", "handwritten")))
    # ---- 4. the number codec alone
    for i in range(400 if thorough else 80):
        bits = [special_bits(rng) for _ in range(240)]
        if i % 10 == 0:     # correspondence beyond the property's range: huge values (19-character truncation), inf, nan
            bits += [G.f32_bits(G.f32(x)) for x in (1e12, -1e12, 3.4e38, 1e30)] + [0x7f800000, 0xff800000, 0x7fc00000]
        cases.append(case_from_line("obj_nums " + ",".join(map(str, bits)), "plain", ("obj_nums",)))
    # ---- 4b. the two halves of the number codec separately: the printed text (exact 6-decimal rounding, 20-byte
    #          buffer) over the whole float32 range, and parser::ParseFloat on arbitrary tokens
    for i in range(160 if thorough else 40):
        bits = [wide_bits(rng) if rng.random() < 0.5 else special_bits(rng) for _ in range(200)]
        cases.append(case_from_line("obj_print " + ",".join(map(str, bits)), "asan" if i % 4 == 0 else "plain", ("obj_print",)))
        if i % 2 == 0:
            cases.append(case_from_line("obj_nums " + ",".join(map(str, bits)), "plain", ("obj_nums", "wide")))
    for i in range(160 if thorough else 40):
        toks = [rand_token(rng) for _ in range(150)]
        cases.append(case_from_line("obj_parse " + ",".join((t.encode("latin1").hex() or "-") for t in toks),
                                    "asan" if i % 4 == 0 else "plain", ("obj_parse",)))
    # ---- 5. the command line tools on temporary files, quantization disabled
    for i in range(1200 if thorough else 240):
        fin = rng.choice(["ply", "obj", "stl", "ply", "obj"])
        fout = rng.choice(["ply", "obj", "stl", "ply", "obj"])
        if rng.random() < 0.7:
            specs = rand_specs(rng)
            g = rng.choice([lambda: G.rand_wall_mesh(rng), lambda: mesh_family(rng, specs)])()
            g = refill(rng, g, clean=True)
            as_pc = rng.random() < 0.1
        else:
            g = refill(rng, G.rand_point_cloud(rng, rng.choice([3, 10, 40]), specs=rand_specs(rng), dedup_maps=False))
            as_pc = True
            if fin == "stl":
                fin = "ply"
        if fin == "stl":
            as_pc = False       # the point cloud reader of the tools knows OBJ and PLY only
        if g.num_points == 0 or (fin == "stl" and not g.faces):
            continue
        opts = ["-qp", "0", "-qn", "0", "-qt", "0", "-qg", "0"]
        tag = "unquantized"
        if rng.random() < 0.45:
            # quantized positions, lossless by construction: lattice positions spanning exactly 2^N - 1 steps
            nb = rng.randint(3, 14)
            if lattice_positions(rng, g, nb, rng.choice([1.0, 0.5, 0.25, 0.125, 2.0, 8.0])):
                opts[1] = str(nb)
                tag = "lattice_qp"
        if rng.random() < 0.7:
            opts += ["-cl", str(rng.randint(0, 10))]
        line = f"tool_rt in={fin} out={fout} pc={1 if as_pc else 0} opts={','.join(opts)} -- " + g.to_text()
        cases.append(case_from_line(line, "plain", ("tools", f"{fin}->{fout}", "pc" if as_pc else "mesh", tag)))
    return cases


def mesh_family(rng, specs):
    """meshes of the well-behaved families (no degenerate or duplicate faces) for the tools"""
    for _ in range(50):
        g = G.rand_mesh(rng, rng.choice([6, 20, 60]), specs=specs)
        fam = getattr(g, "family", "")
        if fam in ("grid", "closed", "components", "fan_on_edge", "bowtie", "special_one") and g.faces:
            pos = g.atts[0]
            fs = [tuple(sorted(p if pos.map is None else pos.map[p] for p in f)) for f in g.faces]
            if all(len(set(f)) == 3 for f in fs) and len(set(fs)) == len(fs):
                return g
    return G.rand_wall_mesh(rng)


def replay_cases(lines):
    out = []
    for l in lines:
        out.append(case_from_line(l, "plain", ("replay",)))
        if not l.startswith("tool_rt"):
            out.append(case_from_line(l, "asan", ("replay",)))
    return out
