"""Dedicated case family for the kd-tree point cloud codec (POINT_CLOUD_KD_TREE_ENCODING):
`kd_cases(rng, tier, checks) -> [Case]`, each an `encdec` end-to-end case of props/e2e.py whose stream is
decoded by the real decoder (plain / all transforms skipped / subset skipped) and by the Lean model
(lean/DracoModel/KdTree.lean, KdTreeAttr.lean) and compared token for token.

Stressed: all compression levels 0..6 (level = min(10 - encoding speed, 6); level 6 falls back to 5 when the
total dimension exceeds 15), total dimension 1..20 via several attributes, every integer type int8..uint32 and
float32 quantized with 1..30 bits (automatic and explicit range), signed attributes (min_signed_values),
duplicate / constant / all-zero points, 1 and 2 points, point counts around powers of two and around the
64-point axis-selection threshold, values at the type limits, identity and explicit point->value maps."""
import struct

from . import e2e, geomgen as G

DT = G.DT
INT_TYPES = ["i8", "u8", "i16", "u16", "i32", "u32"]
LIMITS = {1: (-128, 127), 2: (0, 255), 3: (-32768, 32767), 4: (0, 65535), 5: (-2 ** 31, 2 ** 31 - 1), 6: (0, 2 ** 32 - 1)}


def _pack(dtype, ncomp, rows):
    fmt = "<" + G.DT_FMT[dtype] * ncomp
    return b"".join(struct.pack(fmt, *r) for r in rows)


def _attr(rng, t, dtype, ncomp, nz, uid, n, style=None, rows=None, mapped=False):
    if rows is not None:
        vals, nv = _pack(dtype, ncomp, rows), len(rows)
    else:
        nv = n
        if mapped and n > 1:
            nv = rng.randint(1, n)
        vals = G.make_values(rng, dtype, ncomp, nv, style)
    if nv == n and not mapped:
        return G.Attr(t, dtype, ncomp, nz, uid, nv, None, vals)
    amap = [rng.randrange(nv) for _ in range(n)] if rows is None else [i % nv for i in range(n)]
    return G.Attr(t, dtype, ncomp, nz, uid, nv, amap, vals)


def _specs_for_dim(rng, dim):
    """attribute layout with total dimension `dim`"""
    specs, left, uid = [], dim, 0
    uids = rng.sample(range(0, 60), 24) if rng.random() < 0.5 else list(range(24))
    while left > 0:
        nc = min(left, rng.choice([1, 1, 2, 3, 3, 4, 5, 7]))
        t = rng.choice([G.POSITION, G.COLOR, G.TEX_COORD, G.GENERIC, G.GENERIC]) if specs else rng.choice([G.POSITION, G.GENERIC])
        dt = rng.choice(INT_TYPES + ["f32", "f32", "f32"])
        specs.append((t, DT[dt], nc, t == G.COLOR and rng.random() < 0.5, uids[uid]))
        uid += 1
        left -= nc
    return specs


def _options(rng, geom, level=None, expert=None, want_skip=True, bits=None):
    """kd-tree is selected explicitly; every float attribute gets quantization bits"""
    expert = (rng.random() < 0.7) if expert is None else expert
    toks = ["expert=1"] if expert else []
    toks.append("method=1")
    info = {"expert": expert, "req": {}, "track": False, "skip": None}
    if level is None:
        level = rng.randint(0, 6)
    es = 10 - level if level < 6 else rng.choice([4, 3, 2, 0])
    # EncoderOptions::GetSpeed() is max(encoding speed, decoding speed)
    toks.append(f"speed={es},{rng.randint(0, es)}" if rng.random() < 0.5 else f"speed={rng.randint(0, es)},{es}")
    by_type = {}
    for i, a in enumerate(geom.atts):
        if a.dtype != DT["f32"]:
            continue
        b = bits if bits is not None else (rng.choice([1, 2, 3, 7, 8, 11, 14, 16, 20, 24, 29, 30]) if rng.random() < 0.7 else rng.randint(1, 30))
        if expert:
            if rng.random() < 0.25:
                comps = [a.components(v) for v in range(a.num_values)] or [(0.0,) * a.ncomp]
                mins = [min(c[k] for c in comps) for k in range(a.ncomp)]
                maxs = [max(c[k] for c in comps) for k in range(a.ncomp)]
                org = [G.f32(m - rng.choice([0.0, 0.5, 1.0]) * (1.0 + abs(m)) * 0.01) for m in mins]
                rngv = G.f32(max([mx - o for mx, o in zip(maxs, org)] + [1e-3]) * rng.choice([1.0, 1.5, 2.0]))
                toks.append(f"x{i}={b},{G.f32_bits(rngv)}," + ",".join(str(G.f32_bits(o)) for o in org))
                info.setdefault("explicit", {})[a.uid] = (b, G.f32_bits(rngv), [G.f32_bits(o) for o in org])
            else:
                toks.append(f"q{i}={b}")
            info["req"][a.uid] = b
        else:
            by_type.setdefault(a.att_type, b)
    if not expert:
        for t, b in by_type.items():
            toks.append(f"q{t}={b}")
        for a in geom.atts:
            if a.dtype == DT["f32"]:
                info["req"][a.uid] = by_type[a.att_type]
    if rng.random() < 0.3:
        toks.append("track=1")
        info["track"] = True
    if want_skip and rng.random() < 0.7:
        present = sorted({a.att_type for a in geom.atts})
        sk = "".join(str(t) for t in present if rng.random() < 0.6) or str(rng.choice(present))
        toks.append(f"skip={sk}")
        info["skip"] = sk
    return toks, info


def make_enc_case(rng, geom, toks, tags=()):
    """`enc` on the real encoder, `kdattrenc` on the Lean model of PointCloudKdTreeEncoder / KdTreeAttributesEncoder
    (lean/DracoModel/KdEncoder.lean): the model must reproduce the C++ stream byte for byte; inside the domain of
    `pointcloud_kd_roundtrip` the driver also evaluates the theorem's conclusion on the model's stream (`rt-ok`)."""
    from vlib.engine import Case
    from . import seqenc_cases
    t = [x for x in toks if not x.startswith("skip=") and not x.startswith("track=")]
    if rng.random() < 0.15:
        t.append("meta=" + seqenc_cases.rand_meta(rng, geom))
    gtext = geom.to_text()
    op = "enc " + " ".join(t) + " -- " + gtext

    def model(hout):
        if hout is None or not hout.startswith("ok "):
            return None
        hx = hout.split()[1]
        b = bytes.fromhex(hx[:24])
        if len(b) < 9 or b[7] != 0 or b[8] != 1:
            return None     # not a kd-tree point cloud stream
        return "kdattrenc " + " ".join(t) + f" hex={hx} -- " + gtext

    def expect(hout, mout, case):
        if mout is None or not hout.startswith("ok "):
            return None
        hx = hout.split()[1]
        mp = mout.split()
        if mp[0] != "ok":
            return f"the kd-tree encoder model fails ({mout[:60]}) where the implementation produced a stream for `{case.op[:300]}`"
        if mp[1] != hx:
            k = next((i for i in range(0, min(len(hx), len(mp[1])), 2) if hx[i:i + 2] != mp[1][i:i + 2]), min(len(hx), len(mp[1])))
            return (f"kd-tree encoder model and implementation differ at byte {k // 2} (impl {len(hx) // 2} bytes, model {len(mp[1]) // 2}): "
                    f"impl …{hx[max(0, k - 8):k + 16]} model …{mp[1][max(0, k - 8):k + 16]} for `{case.op[:300]}`")
        if len(mp) >= 4 and mp[3] == "dom-ok" and mp[2] != "rt-ok":
            return f"model decoder on the model's kd-tree stream does not return a point permutation of `expectedKd g opts` ({mp[2]}) inside the theorem's domain for `{case.op[:300]}`"
        return None

    def mtag(mout):
        if mout is None:
            return "kdattrenc:not-kd-or-failed"
        mp = mout.split()
        return "kdattrenc:" + (mp[0] if mp else "?") + (":" + mp[3] if len(mp) > 3 else "")

    c = Case(op, model=model, expect=expect, tags=("kdattrenc",) + tuple(tags))
    c.mtag = mtag
    if geom.num_points == 0:
        c.sig_override = "empty-geometry"
    return c


def _case(rng, geom, checks, fam, **kw):
    """-> [end-to-end decode case, encoder-model tie case] for one geometry and option set"""
    toks, info = _options(rng, geom, **kw)
    lvl = [t for t in toks if t.startswith("speed=")][0]
    tags = ("pc", "kd", "kdfam:" + fam, "kdlevel:" + str(min(10 - max(int(x) for x in lvl[6:].split(",")), 6)),
            "expert" if info["expert"] else "encoder")
    c = e2e.make_case(geom, toks, info, checks, tags=tags)
    c.mtag = e2e.model_support_tag
    return [c, make_enc_case(rng, geom, toks, tags=tags[2:])]


def _geom(rng, specs, n, style=None, mapped_prob=0.2):
    atts = [_attr(rng, t, d, c, nz, uid, n, style=style, mapped=rng.random() < mapped_prob) for (t, d, c, nz, uid) in specs]
    return G.Geom(False, n, [], atts)


def kd_cases(rng, tier, checks=frozenset({"rt", "valid", "consumed", "corr"})):
    checks = set(checks)
    thorough = tier == "thorough"
    big = 2100 if thorough else 520
    cases = []
    # 1. every level x small / threshold / large point counts, random layouts
    for level in range(7):
        for n in [1, 2, 3, 4, 9, 63, 64, 65, rng.randint(100, big)] + ([rng.randint(66, big) for _ in range(4)] if thorough else []):
            specs = _specs_for_dim(rng, rng.randint(1, 9))
            cases.extend(_case(rng, _geom(rng, specs, n), checks, "levels", level=level))
    # 2. total dimension 1..20 (level 6 is replaced by 5 beyond 15 dimensions)
    for dim in list(range(1, 21)) + ([15, 16, 17, 24] if thorough else []):
        for level in ([6, rng.randint(0, 5)] if not thorough else [6, 5, rng.randint(0, 4)]):
            n = rng.choice([3, 17, 64, 80, 150])
            cases.extend(_case(rng, _geom(rng, _specs_for_dim(rng, dim), n), checks, "dims", level=level))
    # 3. every integer type alone, values over the whole range / at the limits
    for dt in INT_TYPES:
        for style in ["bounds", "full", "small"] + (["mid"] if thorough else []):
            nc = rng.randint(1, 4)
            n = rng.choice([2, 5, 40, 130])
            g = _geom(rng, [(G.GENERIC, DT[dt], nc, False, rng.randint(0, 9))], n, style=style, mapped_prob=0.1)
            cases.extend(_case(rng, g, checks, "types"))
        lo, hi = LIMITS[DT[dt]]
        for rows in ([[lo], [hi]], [[hi], [lo], [hi], [lo], [0 if lo < 0 else 1]], [[lo, hi], [hi, lo], [lo, lo]],
                     [[hi, hi, hi]] * 3, [[lo]], [[hi]]):
            g = G.Geom(False, len(rows), [], [_attr(rng, G.GENERIC, DT[dt], len(rows[0]), False, 3, len(rows), rows=rows)])
            cases.extend(_case(rng, g, checks, "limits"))
    # 4. float32 with every number of quantization bits
    for bits in range(1, 31):
        nc = rng.choice([1, 2, 3, 3, 4])
        n = rng.choice([1, 2, 6, 70, 200])
        t = rng.choice([G.POSITION, G.GENERIC, G.TEX_COORD])
        specs = [(t, DT["f32"], nc, False, 0)]
        if rng.random() < 0.4:
            specs.append((G.GENERIC, DT[rng.choice(INT_TYPES)], rng.randint(1, 3), False, 1))
        cases.extend(_case(rng, _geom(rng, specs, n), checks, "floatbits", bits=bits))
    # 5. duplicates, constant clouds, all-zero values (bit_length 0)
    for k in range(14 if not thorough else 40):
        specs = _specs_for_dim(rng, rng.randint(1, 6))
        n = rng.choice([2, 3, 8, 64, 100, 260])
        kind = ["const", "zero", "few", "half"][k % 4]
        atts = []
        for (t, d, c, nz, uid) in specs:
            pool_n = {"const": 1, "zero": 1, "few": rng.randint(2, 3), "half": max(1, n // 2)}[kind]
            pool = G.make_values(rng, d, c, pool_n)
            if kind == "zero":
                pool = bytes(len(pool))
            stride = G.DT_LEN[d] * c
            if rng.random() < 0.5:
                atts.append(G.Attr(t, d, c, nz, uid, pool_n, [rng.randrange(pool_n) for _ in range(n)], pool))
            else:
                vals = b"".join(pool[stride * j:stride * (j + 1)] for j in (rng.randrange(pool_n) for _ in range(n)))
                atts.append(G.Attr(t, d, c, nz, uid, n, None, vals))
        cases.extend(_case(rng, G.Geom(False, n, [], atts), checks, "dups:" + kind))
    # 6. point counts around powers of two
    ks = range(1, 10) if not thorough else range(1, 12)
    for k in ks:
        for n in (2 ** k - 1, 2 ** k, 2 ** k + 1):
            specs = _specs_for_dim(rng, rng.randint(1, 4))
            cases.extend(_case(rng, _geom(rng, specs, n, mapped_prob=0.0), checks, "pow2"))
    # 7. one coordinate axis carrying all the information (deep one-sided trees), dense small grids
    for k in range(8 if not thorough else 24):
        n = rng.choice([5, 64, 90, 200])
        d = rng.choice(["u32", "u16", "i32", "u8"])
        lo, hi = LIMITS[DT[d]]
        if rng.random() < 0.5:
            rows = [[rng.choice([lo, hi, lo + 1, hi - 1]), 0 if lo < 0 else 1] for _ in range(n)]
        else:
            rows = [[rng.randint(0, 3), rng.randint(0, 3)] for _ in range(n)]
        g = G.Geom(False, n, [], [_attr(rng, G.GENERIC, DT[d], 2, False, 0, n, rows=rows)])
        cases.extend(_case(rng, g, checks, "shapes"))
    # 8. several quantized float attributes of distinct types, the later ones with fewer components; the
    #    transform of an earlier type is skipped but not that of a later one
    for k in range(10 if not thorough else 30):
        types = rng.sample([G.POSITION, G.TEX_COORD, G.GENERIC, G.COLOR], rng.randint(2, 3))
        ncs = sorted((rng.randint(1, 4) for _ in types), reverse=rng.random() < 0.7)
        specs = [(t, DT["f32"], nc, False, uid) for uid, (t, nc) in enumerate(zip(types, ncs))]
        if rng.random() < 0.4:
            specs.insert(rng.randint(0, len(specs)), (G.GENERIC if G.GENERIC not in types else G.NORMAL, DT[rng.choice(INT_TYPES)], rng.randint(1, 2), False, 7))
        g = _geom(rng, specs, rng.choice([1, 4, 30, 100]))
        toks, info = _options(rng, g, want_skip=False)
        sk = "".join(str(t) for t in sorted(types[:rng.randint(1, len(types) - 1)]))
        toks.append(f"skip={sk}")
        info["skip"] = sk
        c = e2e.make_case(g, toks, info, checks, tags=("pc", "kd", "kdfam:floats", "expert" if info["expert"] else "encoder"))
        c.mtag = e2e.model_support_tag
        cases.append(c)
        cases.append(make_enc_case(rng, g, toks, tags=("kdfam:floats",)))
    # 9. a tree node holding exactly 64 points (the boundary of the explicit axis coding of level 6) below the root:
    #    64 points on one side of the first split on axis 0, more than 64 on the other, other axes spread out
    for k in range(8 if not thorough else 24):
        dim = rng.randint(2, 4)
        d = rng.choice(["u16", "u32", "u8"])
        top = LIMITS[DT[d]][1] + 1
        other = rng.randint(90, 180)
        low64 = rng.random() < 0.5
        rows = []
        for i in range(64 + other):
            in64 = i < 64
            x = rng.randrange(0, top // 2) if in64 == low64 else rng.randrange(top // 2, top)
            # the other axes are balanced around their first split so that axis 0 has the largest deviation
            rows.append([x] + [rng.randrange(0, top // 2) + (top // 2) * ((i + j) % 2) for j in range(dim - 1)])
        rng.shuffle(rows)
        g = G.Geom(False, len(rows), [], [_attr(rng, G.GENERIC, DT[d], dim, False, 0, len(rows), rows=rows)])
        cases.extend(_case(rng, g, checks, "node64", level=6))
    return cases


# ------------------------------------------------------------------ the tree coder alone (ops kdrt / kddec)

def _rand_points(rng, n, dim, bl):
    style = rng.choice(["uniform", "uniform", "cluster", "dups", "axis", "const"])
    top = 1 << bl
    if bl == 0:
        return [[0] * dim for _ in range(n)]
    pts = []
    centers = [[rng.randrange(top) for _ in range(dim)] for _ in range(3)]
    for i in range(n):
        if style == "uniform":
            p = [rng.randrange(top) for _ in range(dim)]
        elif style == "cluster":
            c = rng.choice(centers)
            p = [min(top - 1, max(0, x + rng.randint(-3, 3))) for x in c]
        elif style == "dups":
            p = list(rng.choice(centers))
        elif style == "axis":
            p = [rng.randrange(top)] + [centers[0][j] for j in range(1, dim)]
        else:
            p = list(centers[0])
        pts.append(p)
    if rng.random() < 0.3:
        pts[rng.randrange(n)] = [top - 1] * dim
    if rng.random() < 0.3:
        pts[rng.randrange(n)] = [0] * dim
    return pts


def kd_core_cases(rng, tier):
    """`kdrt`: DynamicIntegerPointsKdTreeEncoder<level>::EncodePoints on explicit uint32 points (bytes compared
    with the Lean encoder model, which uses the std::partition of libstdc++), then Decoder::DecodePoints of
    those bytes (+ trailing bytes) compared with the Lean decoder model.
    `kddec`: DecodePoints on corrupted encodings (byte flips, truncation, header edits), real decoder vs model."""
    from vlib.engine import Case
    thorough = tier == "thorough"
    cases = []
    sizes = [1, 2, 3, 4, 5, 8, 31, 63, 64, 65, 100, 129, 300] + ([700, 1500] if thorough else [])
    reps = 3 if thorough else 1
    for level in range(7):
        for n in sizes * reps:
            dim = rng.choice([1, 1, 2, 3, 3, 4, 6, 9, 15, 16 if level < 6 else 15])
            bl = rng.choice([0, 1, 2, 5, 8, 10, 16, 31, 32]) if rng.random() < 0.7 else rng.randint(0, 32)
            pts = _rand_points(rng, n, dim, bl)
            # the declared bit length may exceed what the values need (never less: that is the caller's contract)
            csv = ",".join(str(x) for p in pts for x in p)
            trail = rng.choice(["-", "-", "00", "ffee01"])
            c = Case(f"kdrt {level} {dim} {bl} {csv} {trail}", tags=("kdcore", "kdcore:level" + str(level)))
            c.mtag = "model:kdrt"
            cases.append(c)
    return cases


def kd_corrupt_cases(rng, tier):
    """`kdmut`: the harness encodes explicit points, mutates the bytes (byte edits, truncation, insertions, header
    edits) and runs Decoder::DecodePoints on them; the Lean decoder model gets the mutated bytes (`kddec`) and
    must return the same verdict / points / consumed byte count.  The decoder is limited to about the original
    point count, so a corrupted count cannot blow up the output."""
    from vlib.engine import Case
    thorough = tier == "thorough"
    cases = []
    for level in range(7):
        for n in ([3, 8, 70, 130] if not thorough else [3, 8, 40, 70, 130, 400]):
            dim = rng.choice([1, 2, 3, 5])
            bl = rng.choice([1, 4, 10, 32])
            pts = _rand_points(rng, n, dim, bl)
            csv = ",".join(str(x) for p in pts for x in p)
            for k in range(24 if not thorough else 60):
                muts = []
                r = rng.random()
                if r < 0.5:
                    for _ in range(rng.choice([1, 1, 2, 4])):
                        muts.append(f"e{rng.randrange(1 << 20)}:{rng.choice([rng.randrange(256), 0, 255, 1 << rng.randrange(8)])}")
                elif r < 0.7:
                    muts.append(f"t{rng.randrange(1 << 20)}")
                elif r < 0.85:   # header: bit_length, num_points, first coder's size
                    muts.append(f"e{rng.randrange(24)}:{rng.choice([0, 1, 2, 31, 32, 33, 64, 128, 255])}")
                else:
                    for _ in range(rng.randint(1, 4)):
                        muts.append(f"i{rng.randrange(1 << 20)}:{rng.randrange(256)}")
                lim = rng.choice([n, n, n + 1, max(1, n - 1), 4 * n])
                lv = level if rng.random() < 0.85 else rng.randint(0, 6)
                d2 = dim if rng.random() < 0.85 else rng.choice([1, 2, 3, 4, 17])

                def model(hout, lv=lv, d2=d2, lim=lim):
                    if hout is None or " | " not in hout:
                        return None
                    return f"kddec {lv} {d2} {lim} {hout.split(' | ')[0]}"

                def expect(hout, mout, case):
                    if hout is None or " | " not in hout:
                        return f"malformed harness output {str(hout)[:100]}"
                    h = hout.split(" | ", 1)[1]
                    return None if h == mout else f"DecodePoints on mutated bytes: implementation `{h[:200]}` model `{mout[:200]}`"

                c = Case(f"kdmut {level} {dim} {bl} {csv} {lv} {d2} {lim} {','.join(muts)}", model=model, expect=expect,
                         tags=("kdcorrupt",))
                c.mtag = lambda mout: "model:kddec:" + ("ok" if (mout or "").startswith("ok") else "rejected")
                cases.append(c)
    return cases
