"""Deliberate generators for the Edgebreaker mesh decoder (model: lean/DracoModel/Eb*.lean).

`cases(rng, tier)` returns engine Cases built with the shared end-to-end machinery (props/e2e.py):
the real encoder is driven through every decoder branch on purpose (speeds 0..10 select the
traversal / prediction schemes, `submethod` the standard / valence traversal coder, forced
prediction schemes, split_mesh_on_seams, several attributes with seams on interior and boundary
vertices, holes, handles, components, non-manifold input, degenerate input).  The model line is
`e2et` (= `e2e` + the reached-branch tags of the model's own decode); the tags are added to the
case tags (`eb:<tag>`), so evidence.input_distribution shows which decoder branches the generators
actually reached.  `corrupt_cases` compares accept / reject on corrupted streams (op `dec`)."""
import math
import struct

from vlib.engine import Case
from . import e2e, geomgen as G

DT = G.DT


# ------------------------------------------------------------------ embedded topologies
# every generator returns (num_vertices, faces over vertex ids, xyz per vertex, uv per vertex)

def grid(rng, w, h, diag="rand", bump=0.3):
    faces, xyz, uv = [], [], []
    for y in range(h + 1):
        for x in range(w + 1):
            z = bump * math.sin(0.9 * x) * math.cos(0.7 * y)
            xyz.append((float(x), float(y), z))
            uv.append((x / max(1, w), y / max(1, h)))
    for y in range(h):
        for x in range(w):
            a, b, c, d = y * (w + 1) + x, y * (w + 1) + x + 1, (y + 1) * (w + 1) + x, (y + 1) * (w + 1) + x + 1
            k = rng.random() < 0.5 if diag == "rand" else ((x + y) & 1 == 0 if diag == "alt" else True)
            faces += [(a, b, c), (b, d, c)] if k else [(a, b, d), (a, d, c)]
    return (w + 1) * (h + 1), faces, xyz, uv


def torus(rng, w, h, diag="rand"):
    faces, xyz, uv = [], [], []
    for y in range(h):
        for x in range(w):
            u, v = 2 * math.pi * x / w, 2 * math.pi * y / h
            xyz.append(((3 + math.cos(v)) * math.cos(u), (3 + math.cos(v)) * math.sin(u), math.sin(v)))
            uv.append((x / w, y / h))
    for y in range(h):
        for x in range(w):
            a, b = y * w + x, y * w + (x + 1) % w
            c, d = ((y + 1) % h) * w + x, ((y + 1) % h) * w + (x + 1) % w
            k = rng.random() < 0.5 if diag == "rand" else ((x + y) & 1 == 0 if diag == "alt" else True)
            faces += [(a, b, c), (b, d, c)] if k else [(a, b, d), (a, d, c)]
    return w * h, faces, xyz, uv


def cylinder(rng, w, h, diag="rand"):
    """open at both ends: two boundary loops"""
    faces, xyz, uv = [], [], []
    for y in range(h + 1):
        for x in range(w):
            u = 2 * math.pi * x / w
            xyz.append((math.cos(u), math.sin(u), 0.5 * y))
            uv.append((x / w, y / h))
    for y in range(h):
        for x in range(w):
            a, b = y * w + x, y * w + (x + 1) % w
            c, d = (y + 1) * w + x, (y + 1) * w + (x + 1) % w
            k = rng.random() < 0.5 if diag == "rand" else True
            faces += [(a, b, c), (b, d, c)] if k else [(a, b, d), (a, d, c)]
    return w * (h + 1), faces, xyz, uv


def sphere(rng, level):
    """subdivided octahedron (closed, genus 0)"""
    v = [(1, 0, 0), (-1, 0, 0), (0, 1, 0), (0, -1, 0), (0, 0, 1), (0, 0, -1)]
    f = [(0, 2, 4), (2, 1, 4), (1, 3, 4), (3, 0, 4), (2, 0, 5), (1, 2, 5), (3, 1, 5), (0, 3, 5)]
    v = [tuple(float(c) for c in p) for p in v]
    for _ in range(level):
        mid, nf = {}, []

        def m(a, b):
            k = (min(a, b), max(a, b))
            if k not in mid:
                p = tuple((v[a][i] + v[b][i]) / 2 for i in range(3))
                n = math.sqrt(sum(c * c for c in p))
                v.append(tuple(c / n for c in p))
                mid[k] = len(v) - 1
            return mid[k]
        for (a, b, c) in f:
            ab, bc, ca = m(a, b), m(b, c), m(c, a)
            nf += [(a, ab, ca), (ab, b, bc), (ca, bc, c), (ab, bc, ca)]
        f = nf
    uv = [(0.5 + math.atan2(p[1], p[0]) / (2 * math.pi), 0.5 + math.asin(max(-1, min(1, p[2]))) / math.pi) for p in v]
    return len(v), f, v, uv


def disc(rng, k):
    xyz = [(0.0, 0.0, 0.2)] + [(math.cos(2 * math.pi * i / k), math.sin(2 * math.pi * i / k), 0.0) for i in range(k)]
    uv = [(0.5, 0.5)] + [(0.5 + 0.5 * p[0], 0.5 + 0.5 * p[1]) for p in xyz[1:]]
    closed = rng.random() < 0.5
    faces = [(0, 1 + i, 1 + (i + 1) % k) for i in range(k if closed else k - 1)]
    return k + 1, faces, xyz, uv


def with_holes(rng, topo, frac):
    nv, f, xyz, uv = topo
    keep = [t for t in f if rng.random() >= frac]
    return nv, keep or f[:1], xyz, uv


def random_patch(rng, w, h, nfaces):
    nv, f, xyz, uv = grid(rng, w, h)
    rng.shuffle(f)
    return nv, f[:nfaces], xyz, uv


def union(topos):
    nv, f, xyz, uv = 0, [], [], []
    for k, (n2, f2, x2, u2) in enumerate(topos):
        f += [tuple(i + nv for i in t) for t in f2]
        xyz += [(p[0] + 7.0 * k, p[1], p[2]) for p in x2]
        uv += u2
        nv += n2
    return nv, f, xyz, uv


def abstract(rng, nv, faces):
    """topology without an embedding (soups, bow-ties, …): random coordinates"""
    xyz = [(rng.random() * 4, rng.random() * 4, rng.random() * 4) for _ in range(nv)]
    uv = [(rng.random(), rng.random()) for _ in range(nv)]
    return nv, list(faces), xyz, uv


def reorder(rng, topo, rotate_faces=True, rotate_corners=True, shuffle=False):
    nv, f, xyz, uv = topo
    f = list(f)
    if shuffle:
        rng.shuffle(f)
    elif rotate_faces and f:
        k = rng.randrange(len(f))
        f = f[k:] + f[:k]
    if rotate_corners and f:
        r = rng.randrange(3)
        f[0] = f[0][r:] + f[0][:r]
        if rng.random() < 0.3:
            f = [t[(r2 := rng.randrange(3)):] + t[:r2] for t in f]
    return nv, f, xyz, uv


# ------------------------------------------------------------------ attributes

def vertex_normals(nv, faces, xyz):
    n = [[0.0, 0.0, 0.0] for _ in range(nv)]
    for (a, b, c) in faces:
        if len({a, b, c}) < 3:
            continue
        u = [xyz[b][i] - xyz[a][i] for i in range(3)]
        v = [xyz[c][i] - xyz[a][i] for i in range(3)]
        cr = [u[1] * v[2] - u[2] * v[1], u[2] * v[0] - u[0] * v[2], u[0] * v[1] - u[1] * v[0]]
        for k in (a, b, c):
            for i in range(3):
                n[k][i] += cr[i]
    out = []
    for p in n:
        l = math.sqrt(sum(c * c for c in p))
        out.append(tuple(c / l for c in p) if l > 1e-12 else (0.0, 0.0, 1.0))
    return out


def pack_f32(rows):
    return b"".join(struct.pack("<" + "f" * len(r), *(G.f32(c) for c in r)) for r in rows)


def build(rng, topo, extra=(), pos_dtype="f32", isolated=0, permute=False, no_dedup=False, pos_scale=1.0):
    """extra: list of (kind, layout) with kind in normal|normal_flipped|tex|color|generic|generic_f32|tex_u16 and layout in
    vertex|seam_random|seam_line|face|corner.  Points are the distinct corner tuples."""
    nv, vfaces, xyz, uv = topo
    ncorn = 3 * len(vfaces)
    corner_vertex = [v for f in vfaces for v in f]
    layouts = [(list(corner_vertex), max(nv, 1), list(range(nv)))]      # (corner -> value id, num values, value -> source vertex)
    for (kind, layout) in extra:
        lay, src = list(corner_vertex), list(range(nv))
        if layout == "seam_random":
            for ci in range(ncorn):
                if rng.random() < 0.25:
                    lay[ci] = len(src)
                    src.append(corner_vertex[ci])
        elif layout == "seam_line":
            # all corners of faces in the second half of the face list get their own copy of the vertices they
            # share with the first half: one chart boundary through the mesh
            half = len(vfaces) // 2
            first = {v for f in vfaces[:half] for v in f}
            copy = {}
            for ci in range(3 * half, ncorn):
                v = corner_vertex[ci]
                if v in first:
                    if v not in copy:
                        copy[v] = len(src)
                        src.append(v)
                    lay[ci] = copy[v]
        elif layout == "face":
            lay = [nv + ci // 3 for ci in range(ncorn)]
            src = list(range(nv)) + [vfaces[fi][0] for fi in range(len(vfaces))]
        elif layout == "corner":
            lay = [nv + ci for ci in range(ncorn)]
            src = list(range(nv)) + list(corner_vertex)
        layouts.append((lay, max(len(src), 1), src))
    point_of, tuples, faces = {}, [], []
    for fi in range(len(vfaces)):
        f = []
        for j in range(3):
            ci = 3 * fi + j
            key = tuple(l[0][ci] for l in layouts)
            if no_dedup and rng.random() < 0.3:
                pid = len(tuples)
                tuples.append(key)
            elif key in point_of:
                pid = point_of[key]
            else:
                pid = len(tuples)
                point_of[key] = pid
                tuples.append(key)
            f.append(pid)
        faces.append(tuple(f))
    for _ in range(isolated):
        tuples.append(tuple(rng.randrange(l[1]) for l in layouts))
    npnt = len(tuples)
    if permute and 1 < npnt < 600:
        perm = list(range(npnt))
        rng.shuffle(perm)
        inv = [0] * npnt
        for i, p in enumerate(perm):
            inv[p] = i
        tuples = [tuples[inv[i]] for i in range(npnt)]
        faces = [tuple(perm[i] for i in f) for f in faces]
    normals = vertex_normals(nv, vfaces, xyz) if nv else []
    atts = []
    uid = 0

    def add(t, dtype, ncomp, normalized, nval, k, vals):
        nonlocal uid
        amap = [tp[k] for tp in tuples]
        if amap == list(range(npnt)) and nval == npnt and rng.random() < 0.5:
            amap = None
        atts.append(G.Attr(t, dtype, ncomp, normalized, uid, nval, amap, vals))
        uid += 1

    # positions
    n0 = layouts[0][1]
    pts = [(xyz[v] if v < len(xyz) else (0.0, 0.0, 0.0)) for v in layouts[0][2]] or [(0.0, 0.0, 0.0)]
    if pos_dtype == "f32":
        add(G.POSITION, DT["f32"], 3, False, n0, 0, pack_f32([[c * pos_scale for c in p] for p in pts]))
    else:
        fmt = {"i32": "i", "i16": "h", "u16": "H", "i8": "b"}[pos_dtype]
        sc = {"i32": 100000.0, "i16": 900.0, "u16": 900.0, "i8": 9.0}[pos_dtype] * pos_scale
        off = 5 if pos_dtype == "u16" else 0
        lo, hi = {"i32": (-2 ** 31, 2 ** 31 - 1), "i16": (-32768, 32767), "u16": (0, 65535), "i8": (-128, 127)}[pos_dtype]
        add(G.POSITION, DT[pos_dtype], 3, False, n0, 0,
            b"".join(struct.pack("<" + fmt * 3, *(max(lo, min(hi, int(round(c * sc)) + (off * 1000 if pos_dtype == "u16" else 0))) for c in p)) for p in pts))
    for k, (kind, layout) in enumerate(extra, start=1):
        lay, nval, src = layouts[k]
        nsrc = len(src) or 1
        if kind in ("normal", "normal_flipped"):
            rows = []
            for v in (src or [0]):
                n = normals[v] if v < len(normals) else (0.0, 0.0, 1.0)
                if kind == "normal_flipped" and rng.random() < 0.5:
                    n = tuple(-c for c in n)
                j = [c + rng.gauss(0, 0.15) for c in n]
                l = math.sqrt(sum(c * c for c in j)) or 1.0
                rows.append([c / l for c in j])
            add(G.NORMAL, DT["f32"], 3, False, nsrc, k, pack_f32(rows))
        elif kind == "tex":
            rows = [[uv[v][0] + rng.gauss(0, 0.01), uv[v][1] + rng.gauss(0, 0.01)] if v < len(uv) else [0.0, 0.0] for v in (src or [0])]
            add(G.TEX_COORD, DT["f32"], 2, False, nsrc, k, pack_f32(rows))
        elif kind == "tex_u16":
            rows = [(int(uv[v][0] * 4000) % 65536, int(uv[v][1] * 4000) % 65536) if v < len(uv) else (0, 0) for v in (src or [0])]
            add(G.TEX_COORD, DT["u16"], 2, False, nsrc, k, b"".join(struct.pack("<HH", *r) for r in rows))
        elif kind == "color":
            nc = rng.choice([3, 4])
            add(G.COLOR, DT["u8"], nc, True, nsrc, k, bytes(rng.randrange(256) if rng.random() < 0.3 else (17 * i) % 256
                                                           for i in range(nsrc) for _ in range(nc)))
        elif kind == "generic_f32":
            nc = rng.choice([1, 2, 3, 4])
            add(G.GENERIC, DT["f32"], nc, False, nsrc, k, G.make_values(rng, DT["f32"], nc, nsrc))
        else:
            dt = rng.choice(["i8", "u8", "i16", "u16", "i32", "u32"])
            nc = rng.choice([1, 2, 3, 5])
            add(G.GENERIC, DT[dt], nc, False, nsrc, k, G.make_values(rng, DT[dt], nc, nsrc, style=rng.choice(["small", "mid", "full"])))
    g = G.Geom(True, npnt, faces, atts)
    return g


# ------------------------------------------------------------------ option sets

def options(rng, g, speed=None, submethod=None, quant=True, pred=None, split=None, expert=True, skip=False, pos_bits=None):
    toks = ["method=1"]
    info = {"expert": expert, "req": {}, "track": False, "skip": None}
    if expert:
        toks.insert(0, "expert=1")
    if speed is None:
        speed = rng.randint(0, 10)
    toks.append(f"speed={speed},{speed}")
    by_type = {}
    for i, a in enumerate(g.atts):
        if a.dtype != DT["f32"] or not quant:
            continue
        if a.att_type == G.POSITION:
            bits = pos_bits or rng.choice([8, 10, 11, 12, 14, 16, 20])
        elif a.att_type == G.NORMAL:
            bits = rng.choice([4, 7, 8, 10, 12])
        else:
            bits = rng.choice([6, 8, 10, 12, 16])
        if expert:
            toks.append(f"q{i}={bits}")
            info["req"][a.uid] = bits
        else:
            by_type.setdefault(a.att_type, bits)
    if not expert:
        for t, bits in by_type.items():
            toks.append(f"q{t}={bits}")
        for a in g.atts:
            if a.dtype == DT["f32"] and a.att_type in by_type:
                info["req"][a.uid] = by_type[a.att_type]
    for (i, scheme) in (pred or []):
        if i < len(g.atts):
            toks.append(f"p{i if expert else g.atts[i].att_type}={scheme}")
    if expert and submethod is not None:
        # ExpertEncoder::SetEncodingSubmethod stores "encoding_submethod", which the Edgebreaker encoder never
        # reads; the traversal coder is selected by the global option "edgebreaker_method"
        toks.append(f"g:edgebreaker_method={submethod}")
    if expert and split is not None:
        toks.append(f"g:split_mesh_on_seams={split}")
    if rng.random() < 0.5:
        toks.append("track=1")
        info["track"] = True
    if skip:
        present = sorted({a.att_type for a in g.atts})
        sk = "".join(str(t) for t in present if rng.random() < 0.6) or str(rng.choice(present or [0]))
        toks.append(f"skip={sk}")
        info["skip"] = sk
    return toks, info


def _tame(toks):
    """avoid the encoder's memory blow-up (notes/eb.md finding 3): quantization finer than 24 bits is not combined
    with encoder speed 0/1 (constrained multi-parallelogram + Shannon entropy tracker)"""
    fine = False
    for t in toks:
        k, _, v = t.partition("=")
        if len(k) > 1 and k[0] in "qx" and k[1:].isdigit() and int(v.split(",")[0]) > 24:
            fine = True
    if not fine:
        return toks
    out = []
    for t in toks:
        if t.startswith("speed="):
            e, d = t[6:].split(",")
            t = f"speed={max(2, int(e))},{d}"
        out.append(t)
    if not any(t.startswith("speed=") for t in out):
        out.append("speed=5,5")
    return out


def _split_trace(mout):
    if mout is None or " | trace=" not in mout:
        return mout, None
    body, tr = mout.rsplit(" | trace=", 1)
    return body, tr


def make(g, toks, info, tags, checks=None):
    c = e2e.make_case(g, toks, info, checks or {"rt", "valid", "consumed", "corr", "skip"}, tags=("eb",) + tuple(tags))
    inner_model, inner_expect, inner_spec = c.model, c.expect, c.spec

    def model(hout):
        l = inner_model(hout)
        return None if l is None else "e2et" + l[3:]

    def expect(hout, mout, case):
        body, tr = _split_trace(mout)
        if tr is not None and not getattr(case, "_traced", False):
            case._traced = True
            st, _, tg = tr.partition(" ")
            case.tags = case.tags + tuple("eb:" + t for t in tg.split(",") if t and t != "-" and not t.startswith("at:"))
            if not st.startswith("ok"):
                case.tags = case.tags + ("ebstatus:" + st[:60],)
        return inner_expect(hout, body, case)

    def spec(hout, mout, case):
        return inner_spec(hout, _split_trace(mout)[0], case)

    c.model, c.expect, c.spec = model, expect, spec
    c.mtag = lambda mout: e2e.model_support_tag(_split_trace(mout)[0])
    return c


# ------------------------------------------------------------------ the case list

def topologies(rng, tier):
    """(name, topo) pairs: every family at least once, sizes small in the quick tier"""
    big = tier == "thorough"
    out = []
    out.append(("single_triangle", abstract(rng, 3, [(0, 1, 2)])))
    out.append(("two_triangles", grid(rng, 1, 1)))
    for _ in range(3 if not big else 8):
        out.append(("grid", grid(rng, rng.randint(1, 7), rng.randint(1, 7), rng.choice(["rand", "alt", "same"]))))
    out.append(("grid_large", grid(rng, 24 if not big else 60, 22 if not big else 40)))
    for _ in range(4 if not big else 12):
        out.append(("grid_holes", with_holes(rng, grid(rng, rng.randint(2, 6), rng.randint(2, 6)), rng.choice([0.1, 0.2, 0.35]))))
    for _ in range(4 if not big else 30):
        out.append(("patch", random_patch(rng, 4, 3, rng.randint(6, 14))))
    for _ in range(4 if not big else 16):
        w, h = rng.choice([(7, 5), (4, 3), (3, 6), (3, 3), (5, 4), (6, 3)])
        out.append(("torus", reorder(rng, torus(rng, w, h, rng.choice(["rand", "alt", "alt", "same"])))))
    # tori whose traversal closes two handle loops on one TOPOLOGY_E face: two topology split events with the
    # same source symbol (found by search over face rotations; the alternating diagonals are deterministic)
    for (w, h, rot, cr) in [(3, 6, 0, 2), (3, 6, 5, 0), (3, 6, 12, 2), (3, 3, 2, 0), (3, 3, 3, 1), (3, 3, 5, 2)][:(3 if not big else 6)]:
        nv, f, xyz, uv = torus(rng, w, h, "alt")
        f = f[rot:] + f[:rot]
        f[0] = f[0][cr:] + f[0][:cr]
        out.append(("torus_two_splits", (nv, f, xyz, uv)))
    out.append(("torus_holes", with_holes(rng, torus(rng, 6, 5), 0.15)))
    out.append(("cylinder", cylinder(rng, rng.randint(3, 8), rng.randint(1, 5))))
    out.append(("sphere", sphere(rng, rng.choice([0, 1, 2]))))
    if big:
        out.append(("sphere_large", sphere(rng, 4)))
    out.append(("tetra", abstract(rng, 4, [(0, 1, 2), (0, 3, 1), (1, 3, 2), (2, 3, 0)])))
    out.append(("closed", abstract(rng, *G.topo_closed(rng))))
    out.append(("disc", disc(rng, rng.randint(3, 9))))
    out.append(("components", union([grid(rng, 2, 2), sphere(rng, 0), disc(rng, 5)])))
    out.append(("components_closed", union([sphere(rng, 0), abstract(rng, 4, [(0, 1, 2), (0, 3, 1), (1, 3, 2), (2, 3, 0)]), torus(rng, 3, 3)])))
    out.append(("bowtie", abstract(rng, *G.topo_bowtie(rng))))
    out.append(("fan_on_edge", abstract(rng, *G.topo_fan_on_edge(rng))))
    for _ in range(2 if not big else 8):
        nv = rng.randint(4, 14)
        out.append(("soup", abstract(rng, *G.topo_soup(rng, nv, rng.randint(2, 30)))))
    out.append(("degenerate", abstract(rng, 4, [(0, 1, 2), (1, 1, 3), (2, 2, 2), (0, 2, 3)])))
    out.append(("duplicate", abstract(rng, 4, [(0, 1, 2), (0, 1, 2), (1, 2, 0), (0, 2, 3)])))
    out.append(("flipped", abstract(rng, 4, [(0, 1, 2), (2, 1, 0), (0, 2, 3)])))
    out.append(("grid_dup_flip", (lambda t: (t[0], t[1] + [t[1][0], t[1][1][::-1], (t[1][2][0], t[1][2][0], t[1][2][1])], t[2], t[3]))(grid(rng, 3, 3))))
    return out


ATT_SETS = [
    ("pos", []),
    ("pos+normal", [("normal", "vertex")]),
    ("pos+normal_flipped", [("normal_flipped", "vertex")]),
    ("pos+tex", [("tex", "vertex")]),
    ("pos+tex_seam_line", [("tex", "seam_line")]),
    ("pos+tex_seam_random", [("tex", "seam_random")]),
    ("pos+normal_face", [("normal", "face")]),
    ("pos+normal_seam+tex_seam", [("normal", "seam_random"), ("tex", "seam_line")]),
    ("pos+color+generic", [("color", "vertex"), ("generic", "seam_random")]),
    ("pos+generic_corner", [("generic", "corner")]),
    ("pos+tex_u16+generic_f32", [("tex_u16", "seam_line"), ("generic_f32", "vertex")]),
    ("pos+normal+tex+color", [("normal", "vertex"), ("tex", "seam_random"), ("color", "face")]),
]


def cases(rng, tier="quick"):
    out = []
    topos = topologies(rng, tier)
    # 1. every topology x position only x (standard, valence) x a few speeds
    for name, topo in topos:
        for sub in (0, 2):
            g = build(rng, topo, isolated=rng.choice([0, 0, 1, 2]), permute=rng.random() < 0.3)
            sp = rng.choice([0, 1, 2, 5, 7, 10])
            toks, info = options(rng, g, speed=sp, submethod=sub, quant=rng.random() < 0.8)
            out.append(make(g, toks, info, ("topo:" + name, "atts:pos", f"sub:{sub}", f"speed:{sp}")))
    # 1b. invalid-vertex compaction: tori with holes decoded without attribute connectivity (position only, or one
    #     connectivity for all attributes); fixed generator seeds found by search reach "skip two trailing invalid
    #     vertices" and "swap after a vertex that needed no swap"; the evidence tags eb:compact:* show whether they still do
    import random as _random
    fixed = [1006, 1055, 1059, 1070, 1072, 1075, 1004, 1005, 1008, 1009]
    for k in fixed[:(6 if tier == "quick" else 10)] + [None] * (6 if tier == "quick" else 40):
        r = _random.Random(k) if k is not None else rng
        topo = with_holes(r, torus(r, r.randint(3, 6), r.randint(3, 6)), r.choice([0.1, 0.2]))
        single = k is None and rng.random() < 0.4
        g = build(r, topo, [("tex", "seam_random")] if single else [])
        toks, info = options(rng, g, speed=rng.choice([7, 8, 9]) if single else rng.choice([0, 3, 5, 10]),
                             submethod=rng.choice([0, 2]))
        out.append(make(g, toks, info, ("topo:torus_holes_compaction", "atts:" + ("pos+tex_single_connectivity" if single else "pos"))))
    # 2. attribute sets x seam layouts x split_mesh_on_seams x speeds, on topologies with interior and boundary vertices
    rich = [t for t in topos if t[0] in ("grid", "grid_holes", "torus", "cylinder", "sphere", "components", "patch", "bowtie", "soup", "grid_large", "disc")]
    for aname, extra in ATT_SETS[1:]:
        for k in range(3 if tier == "quick" else 10):
            name, topo = rng.choice(rich)
            pd = rng.choice(["f32", "f32", "f32", "i32", "i16"])
            g = build(rng, topo, extra, pos_dtype=pd, permute=rng.random() < 0.2, no_dedup=rng.random() < 0.1,
                      isolated=rng.choice([0, 0, 1]))
            sp = [0, 1, 3, 5, 6, 9][k % 6] if tier == "quick" else rng.randint(0, 10)
            split = rng.choice([None, None, 0, 1])
            toks, info = options(rng, g, speed=sp, submethod=rng.choice([None, 0, 2]), split=split,
                                 expert=rng.random() < 0.8, skip=rng.random() < 0.5)
            out.append(make(g, toks, info, ("topo:" + name, "atts:" + aname, f"speed:{sp}", f"split:{split}", "pos:" + pd)))
    # 3. forced prediction schemes (0 difference, 1 parallelogram, 4 constrained multi, 5 tex coords, 6 geometric normal, -2 none)
    forced = [("pos", [], [(0, s)]) for s in (-2, 0, 1, 4)]
    forced += [("pos+tex", [("tex", lay)], [(1, s)]) for s in (0, 1, 4, 5) for lay in ("vertex", "seam_line")]
    forced += [("pos+normal", [(nk, lay)], [(1, s)]) for s in (0, 6) for nk in ("normal", "normal_flipped") for lay in ("vertex", "seam_random")]
    forced += [("pos+generic", [("generic", "seam_random")], [(1, s)]) for s in (-2, 0, 1, 4)]
    forced += [("pos_int+tex", [("tex", "vertex")], [(1, 5)])]
    for aname, extra, pred in forced:
        for k in range(2 if tier == "quick" else 6):
            name, topo = rng.choice(rich)
            pd = "i16" if aname.startswith("pos_int") else rng.choice(["f32", "f32", "i32"])
            g = build(rng, topo, extra, pos_dtype=pd)
            sp = rng.choice([0, 2, 5, 7])
            toks, info = options(rng, g, speed=sp, pred=pred, submethod=rng.choice([None, 0, 2]),
                                 split=rng.choice([None, 0, 1]), skip=rng.random() < 0.3)
            out.append(make(g, toks, info, ("topo:" + name, "atts:" + aname, "forced:p%d=%d" % pred[0], f"speed:{sp}")))
    # 4. walls (geometric normal with flips on exactly-zero components), extreme quantization
    for _ in range(4 if tier == "quick" else 20):
        g = G.rand_wall_mesh(rng)
        sp = rng.choice([0, 1, 2, 3])
        toks, info = options(rng, g, speed=sp, submethod=rng.choice([None, 0, 2]))
        out.append(make(g, toks, info, ("topo:wall", "atts:pos+normal", f"speed:{sp}")))
    for bits in (1, 2, 30):
        name, topo = rng.choice(rich)
        g = build(rng, topo, [("tex", "seam_line"), ("normal", "vertex")])
        # speed >= 2 for 30 bits: at speed 0/1 the constrained multi-parallelogram *encoder* allocates a histogram over
        # the whole symbol range (25 GB / 72 s for a 98 face grid, notes/eb.md finding 3)
        toks, info = options(rng, g, speed=rng.choice([0, 3]) if bits < 30 else rng.choice([2, 3]), pos_bits=bits)
        out.append(make(g, toks, info, ("topo:" + name, f"posbits:{bits}")))
    # 5. the generic random meshes of geomgen with the generic random option sets, Edgebreaker forced
    for _ in range(30 if tier == "quick" else 300):
        g = G.rand_mesh(rng, rng.choice([3, 8, 20, 60, 200]))
        if g.num_points == 0:
            continue
        toks, info = e2e.rand_options(rng, g, force_method=1, want_skip=rng.random() < 0.4)
        toks = _tame(toks)
        out.append(make(g, toks, info, ("topo:geomgen_" + g.family, "atts:random")))
    return out


# ------------------------------------------------------------------ concurrent decodes against the (sequential) model

def concurrent_cases(rng, tier="quick", threads=8, flavour="plain"):
    """Edgebreaker encode+decode calls executed by `threads` harness threads at the same time (VH_THREADS); every
    result has to equal the model's decode of the same bytes.  Speed 0/1 on meshes of >= 40 points selects the
    constrained multi-parallelogram scheme, whose decoder keeps per-call scratch arrays."""
    out = []
    for r in range(2 if tier == "quick" else 6):
        for k in range(2 * threads):
            w = rng.randint(24, 36)
            g = build(rng, grid(rng, w, rng.randint(24, 36)), [("generic", "vertex")] if k % 2 else [])
            toks, info = options(rng, g, speed=rng.choice([0, 1]), submethod=rng.choice([0, 2]))
            c = make(g, toks, info, ("concurrent", f"threads:{threads}"), checks={"corr", "valid", "consumed"})
            c.flavour = flavour
            c.env = {"VH_THREADS": str(threads)}
            c.group = 7000 + r
            c.note = f"eb-{threads}-threads"
            out.append(c)
    return out


# ------------------------------------------------------------------ corrupted streams

def seed_streams(rng, n=12):
    """small Edgebreaker streams produced by the real encoder (harness op `enc`, plain flavour)"""
    import os
    from vlib import common as C, implside
    hd = implside.ensure(["plain"])
    ops = []
    topos = [t for t in topologies(rng, "quick") if len(t[1][1]) <= 40]
    for i in range(n):
        name, topo = rng.choice(topos)
        extra = rng.choice([e for _, e in ATT_SETS])
        g = build(rng, topo, extra, pos_dtype=rng.choice(["f32", "f32", "i16"]))
        toks, _ = options(rng, g, speed=rng.choice([0, 1, 3, 5, 7]), submethod=rng.choice([None, 0, 2]),
                          split=rng.choice([None, 0, 1]))
        ops.append("enc " + " ".join(t for t in toks if not t.startswith("track")) + " -- " + g.to_text())
    wd = os.path.join(C.CACHE, "run", f"ebseed-{os.getpid()}")
    outs = implside.run_ops(hd["plain"], ops, wd, "ebseed")
    import shutil
    shutil.rmtree(wd, ignore_errors=True)
    return [o.split()[1] for o in outs if o.startswith("ok ")]


def _same_up_to_nan(hout, mout):
    """equal decode results where float32 values that are NaN on both sides may differ in sign / payload
    (the dequantizer propagates NaN payloads of corrupted parameters; the Lean driver prints the canonical NaN)"""
    ht, mt = hout.split(), mout.split()
    if len(ht) != len(mt) or ht[:1] != ["ok"] or mt[:1] != ["ok"]:
        return False
    try:
        gh, _ = G.parse_geom(ht, 2)
        gm, _ = G.parse_geom(mt, 2)
    except Exception:
        return False
    if gh.num_points != gm.num_points or gh.faces != gm.faces or len(gh.atts) != len(gm.atts) or ht[1] != mt[1]:
        return False
    for a, b in zip(gh.atts, gm.atts):
        if (a.att_type, a.dtype, a.ncomp, a.normalized, a.uid, a.num_values, a.map, a.transform) != \
           (b.att_type, b.dtype, b.ncomp, b.normalized, b.uid, b.num_values, b.map, b.transform):
            return False
        if a.values == b.values:
            continue
        if a.dtype != DT["f32"] or len(a.values) != len(b.values):
            return False
        for i in range(0, len(a.values) - 3, 4):
            x, y = a.values[i:i + 4], b.values[i:i + 4]
            if x != y:
                fx, fy = struct.unpack("<f", x)[0], struct.unpack("<f", y)[0]
                if not (fx != fx and fy != fy):
                    return False
    return True


def corrupt_cases(rng, streams, per_stream=40, flavour="asan"):
    """streams: list of hex strings of small Edgebreaker streams. Single byte corruptions; both sides run
    `dec`; the statuses (ok+geometry / err) have to agree unless the model answers `unsupported`."""
    out = []
    for hx in streams:
        b = bytearray(bytes.fromhex(hx))
        n = len(b)
        for _ in range(per_stream):
            c = bytearray(b)
            kind = rng.random()
            pos = rng.randrange(n) if rng.random() < 0.5 else min(n - 1, 11 + rng.randrange(min(60, max(1, n - 11))))
            if kind < 0.45:
                c[pos] = rng.randrange(256)
            elif kind < 0.6:
                c[pos] ^= 1 << rng.randrange(8)
            elif kind < 0.68:
                c = c[:max(11, rng.randrange(n))]
            elif kind < 0.76:
                c[pos] = rng.choice([0, 1, 0x7f, 0x80, 0xff])
            elif kind < 0.84:          # two bytes
                c[pos] = rng.randrange(256)
                c[rng.randrange(n)] = rng.randrange(256)
            elif kind < 0.9:           # insert a byte
                c.insert(pos, rng.randrange(256))
            elif kind < 0.96:          # delete a byte
                del c[pos]
            else:                      # increment / decrement (counts, ids)
                c[pos] = (c[pos] + rng.choice([1, 255])) % 256
            op = f"dec - {bytes(c).hex()}"

            def expect(hout, mout, case):
                if mout.startswith("unsupported"):
                    return None
                if hout.startswith("CRASH"):
                    return None   # reported by the engine as an implementation crash
                if hout != mout and not _same_up_to_nan(hout, mout):
                    return f"corrupted stream: implementation `{hout[:200]}` model `{mout[:200]}` for `{case.op[:200]}`"
                return None

            cs = Case(op, model=op, expect=expect, flavour=flavour, tags=("eb-corrupt",))
            cs.mtag = lambda mout: "corrupt-model:" + ("none" if mout is None else mout.split(" ")[0] + ("" if not mout.startswith("unsupported") else ":" + mout.split(" ")[1].split(":")[0][:30]))
            out.append(cs)
    return out


# ------------------------------------------------------------------ synthesized connectivity (attribute-less meshes)

_SYM_CODE = {"C": [0], "S": [1, 0, 0], "L": [1, 1, 0], "R": [1, 0, 1], "E": [1, 1, 1]}


def _vint(v):
    out = bytearray()
    while True:
        b = v & 0x7f
        v >>= 7
        if v:
            out.append(b | 0x80)
        else:
            out.append(b)
            return bytes(out)


def _bits(bits):
    out = bytearray((len(bits) + 7) // 8)
    for i, x in enumerate(bits):
        if x:
            out[i // 8] |= 1 << (i % 8)
    return bytes(out)


def synth_stream(symbols, splits, startbits, nev, nfaces, nsplitsym=None):
    """An Edgebreaker mesh stream in the 2.1 layout (standard traversal, start faces as plain bits) written field by
    field from a symbol string in DECODING order, topology split events (source id, split id, edge), start face bits
    and the declared counts; no attribute data, zero attribute decoders."""
    bits = []
    for c in symbols:
        bits += _SYM_CODE[c]
    sym, sf = _bits(bits), _bits(startbits)
    trav = len(sym).to_bytes(8, "little") + sym + len(sf).to_bytes(8, "little") + sf
    ev, last = _vint(len(splits)), 0
    for (src, spl, _) in splits:
        ev += _vint(src - last) + _vint(src - spl)
        last = src
    if splits:
        eb = []
        for (_, _, e) in splits:
            eb += [bool(e & 1), False]
        ev += _bits(eb)
    body = bytes([0]) + _vint(0) + _vint(nev) + _vint(nfaces) + bytes([0]) + _vint(len(symbols)) + \
        _vint(len(splits) if nsplitsym is None else nsplitsym)
    return b"DRACO" + bytes([2, 1, 1, 1, 0, 0]) + body + _vint(len(trav)) + trav + ev + bytes([0])


def synth_connectivity_cases(rng, n=300, maxlen=14, flavour="asan"):
    """Random symbol strings (not derived from any mesh) with random split events, start face bits and counts: the
    connectivity decoder alone, on inputs no encoder produces.  About one in nine is accepted (vertex merges of
    TOPOLOGY_S, split events on either edge, interior start faces, the invalid-vertex compaction with swaps and
    skipped trailing vertices are all reached).  Model == implementation, and an accepted mesh has to be valid
    (C03 for attribute-less Edgebreaker meshes, which no check of the attribute decoders covers)."""
    out = []
    for _ in range(n):
        k = rng.randint(1, maxlen)
        w = rng.choice([(3, 1, 1, 3, 2), (2, 1, 2, 2, 2), (4, 2, 1, 1, 1), (1, 1, 1, 1, 1), (5, 1, 0, 2, 1)])
        syms = ["E"] + [rng.choices("CSLRE", weights=w)[0] for _ in range(k - 1)]
        splits, src = [], 0
        for _ in range(rng.choice([0, 0, 0, 1, 1, 2, 3])):
            src = rng.randint(src, max(src, k - 1))
            splits.append((src, rng.randint(0, src), rng.randint(0, 1)))
        d = 0
        for c in syms:
            d = d + 1 if c == "E" else (max(0, d - 1) if c == "S" else d)
        d = max(1, d + rng.choice([0, 0, 0, 1, -1]) + (len(splits) if rng.random() < 0.5 else 0))
        sb = [rng.random() < 0.3 for _ in range(d)]
        nf = max(1, k + sum(sb) + rng.choice([0, 0, 0, 0, 1, -1]))
        nev = rng.choice([3 * nf + 3, nf + 2, k + 2, rng.randint(3, 3 * nf + 3)])
        b = synth_stream(syms, splits, sb, nev, nf, rng.choice([None, None, None, 0, len(splits) + 1]))
        op = f"dec - {b.hex()}"

        def expect(hout, mout, case):
            if hout.startswith("CRASH"):
                return None
            if mout.startswith("unsupported"):
                return f"synthesized connectivity: the model gives up (`{mout[:120]}`) on `{case.op[:200]}`"
            if hout != mout:
                return f"synthesized connectivity: implementation `{hout[:200]}` model `{mout[:200]}` for `{case.op[:200]}`"
            return None

        def oracle(hout, case):
            t = hout.split()
            case.tags = tuple(case.tags) + (("eb-synth:accepted",) if t[:1] == ["ok"] else ("eb-synth:rejected",))
            if t[:1] != ["ok"]:
                return None
            g, _ = G.parse_geom(t, 2)
            v = g.valid()
            if v is not None:
                return (f"the decoder accepted a synthesized Edgebreaker connectivity and returned an invalid mesh ({v}): "
                        f"`{hout[:200]}` for `{case.op[:300]}`")
            return None

        c = Case(op, model=op, expect=expect, oracle=oracle, flavour=flavour, tags=("eb-synth",))
        out.append(c)
    return out


# ------------------------------------------------------------------ every tiny mesh (encoder / decoder header checks)

_TET = [(0, 1, 2), (0, 3, 1), (1, 3, 2), (2, 3, 0)]
_OCT = [(0, 1, 2), (0, 2, 3), (0, 3, 4), (0, 4, 1), (5, 2, 1), (5, 3, 2), (5, 4, 3), (5, 1, 4)]
_BIP = [(0, 1, 3), (1, 2, 3), (2, 0, 3), (1, 0, 4), (2, 1, 4), (0, 2, 4)]


def tiny_mesh_cases(rng, tier="thorough"):
    """EVERY triangle list of at most 4 faces over at most 5 vertex ids (both orientations, duplicates, every order
    of the vertex set up to relabelling: 8747 meshes) and stacks of small closed components (k tetrahedra / octahedra /
    bipyramids, disjoint or sharing a vertex or an edge non-manifoldly), encoded with the Edgebreaker method and decoded:
    the decoder's header checks (`num_faces <= symbols + symbols/3`: every component whose start face is "interior"
    contributes a face without a symbol, `num_faces >= symbols`, the vertex/edge count test) must never reject what the
    encoder wrote.  The ad-hoc run behind this family (notes/eb.md, follow-up 5) covered every mesh of <= 8 faces over 5
    ids, <= 6 over 6, <= 5 over 7, <= 4 over 8 at three speeds (36 million meshes): none rejected.  quick: a sample."""
    import itertools
    tris = []
    for a, b, c in itertools.combinations(range(5), 3):
        tris += [(a, b, c), (a, c, b)]
    meshes = []
    for nf in range(1, 5):
        for faces in itertools.combinations_with_replacement(range(len(tris)), nf):
            fl = [tris[i] for i in faces]
            used = sorted({v for t in fl for v in t})
            if used == list(range(len(used))):
                meshes.append((len(used), fl, "enumerated"))
    if tier != "thorough":
        meshes = rng.sample(meshes, 150)

    def shift(fs, k, share=()):
        return [tuple(v if v in share else v + k for v in t) for t in fs]
    for k in (1, 2, 3, 5, 9, 17) if tier == "thorough" else (2, 5):
        for share in ((), (0,), (0, 1)):
            fl = list(_TET)
            for i in range(1, k):
                fl += shift(rng.choice([_TET, _TET, _OCT, _BIP]), 10 * i, share)
            used = sorted({v for t in fl for v in t})
            m = {v: i for i, v in enumerate(used)}
            fl = [tuple(m[v] for v in t) for t in fl]
            if rng.random() < 0.5:
                rng.shuffle(fl)
            meshes.append((len(used), fl, f"closed_components:{k}:shared{len(share)}"))
    out = []
    for nv, fl, fam in meshes:
        g = build(rng, abstract(rng, nv, fl), pos_dtype="f32")
        sp = rng.choice([0, 5, 10])
        toks, info = options(rng, g, speed=sp, submethod=rng.choice([0, 0, 2]), quant=rng.random() < 0.5)
        out.append(make(g, toks, info, ("topo:tiny_" + fam.split(":")[0], "tiny:" + fam, f"faces:{len(fl)}", f"speed:{sp}")))
    return out
