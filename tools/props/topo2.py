"""Additional topology families and geometry statistics for the end-to-end properties (C01, C09, C10, C12):
surfaces with handles and irregular triangulations (several topology-split events per Edgebreaker symbol),
vertex fans with attribute seams, patches cut out of grids, and a classifier of the topological features a
generated mesh actually contains (for the evidence histogram).  All randomness comes from the rng passed in."""
from . import geomgen as G


def _finish(rng, faces, shuffle=True):
    """random face order (the Edgebreaker start face) and random corner rotation"""
    faces = [tuple(f[(i + r) % 3] for i in range(3)) for f in faces for r in [rng.randrange(3)]]
    if shuffle:
        if rng.random() < 0.5:
            k = rng.randrange(len(faces)) if faces else 0
            faces = faces[k:] + faces[:k]
        else:
            rng.shuffle(faces)
    return faces


def topo_torus(rng, w=None, h=None, diag=None):
    """closed w x h torus; diag: 'rand' | 'alt' | 'reg'"""
    w = w or rng.randint(3, 7)
    h = h or rng.randint(3, 6)
    diag = diag or rng.choice(["rand", "rand", "alt", "reg"])
    f = []
    for y in range(h):
        for x in range(w):
            a, b = y * w + x, y * w + (x + 1) % w
            c, d = ((y + 1) % h) * w + x, ((y + 1) % h) * w + (x + 1) % w
            flip = {"rand": rng.random() < 0.5, "alt": (x + y) & 1 == 1, "reg": False}[diag]
            f += [(a, b, d), (a, d, c)] if flip else [(a, b, c), (b, d, c)]
    return w * h, _finish(rng, f)


def topo_handles(rng):
    """two tori joined along a removed triangle pair (genus 2), or a torus with some faces removed
    (handles + boundaries)"""
    nv, f = topo_torus(rng)
    if rng.random() < 0.5:
        # remove a few faces: boundaries + handles
        for _ in range(rng.randint(1, 3)):
            if len(f) > 4:
                f.pop(rng.randrange(len(f)))
        return nv, f
    nv2, f2 = topo_torus(rng)
    # connected sum: remove one face of each, identify the two boundary triangles (opposite orientation)
    t1 = f.pop(rng.randrange(len(f)))
    t2 = f2.pop(rng.randrange(len(f2)))
    ren = {t2[0]: t1[0], t2[1]: t1[2], t2[2]: t1[1]}
    f2 = [tuple(ren.get(v, v + nv) for v in t) for t in f2]
    used = sorted({v for t in f + f2 for v in t})
    idx = {v: i for i, v in enumerate(used)}
    return len(used), _finish(rng, [tuple(idx[v] for v in t) for t in f + f2])


def topo_grid_patch(rng, w=None, h=None, keep=None):
    """random subset of the triangles of a (w x h)-quad grid: many boundary loops and split symbols"""
    w = w or rng.randint(2, 5)
    h = h or rng.randint(2, 4)
    nv, f = G.topo_grid(rng, w, h)
    keep = keep or rng.randint(max(1, len(f) // 3), len(f))
    f = rng.sample(f, min(keep, len(f)))
    if rng.random() < 0.5:      # compact vertex ids
        used = sorted({v for t in f for v in t})
        idx = {v: i for i, v in enumerate(used)}
        f = [tuple(idx[v] for v in t) for t in f]
        nv = len(used)
    return nv, _finish(rng, f)


def topo_fan(rng, k=None, closed=None):
    """k triangles around vertex 0; closed = interior vertex, open = boundary vertex"""
    k = k or rng.randint(2, 8)
    closed = rng.random() < 0.5 if closed is None else closed
    if closed:
        k = max(k, 3)
        f = [(0, 1 + i, 1 + (i + 1) % k) for i in range(k)]
        return 1 + k, f
    return 2 + k, [(0, 1 + i, 2 + i) for i in range(k)]


def rand_topology2(rng, size=60):
    fam = rng.choice(["torus", "torus", "handles", "grid_patch", "grid_patch", "fan"])
    if fam == "torus":
        nv, f = topo_torus(rng)
    elif fam == "handles":
        nv, f = topo_handles(rng)
    elif fam == "grid_patch":
        nv, f = topo_grid_patch(rng)
    else:
        nv, f = topo_fan(rng)
        f = _finish(rng, f)
    return fam, nv, f


# ---------------------------------------------------------------------------------------------- statistics

def features(g):
    """topological / layout features present in a geometry (tags for evidence.input_distribution)"""
    t = []
    if g.num_points == 0:
        t.append("topo:no-points")
    if not g.is_mesh:
        return t
    if not g.faces:
        t.append("topo:no-faces")
        if g.num_points:
            t.append("topo:isolated-points")
        return t
    pos = next((a for a in g.atts if a.att_type == G.POSITION), None)
    pv = (lambda p: p) if pos is None or pos.map is None else (lambda p: pos.map[p])
    used = set()
    edges = {}
    dedges = {}
    deg = False
    for fi, f in enumerate(g.faces):
        used.update(f)
        v = [pv(p) for p in f]
        if len(set(f)) < 3 or len(set(v)) < 3:
            deg = True
            continue
        for j in range(3):
            a, b = v[j], v[(j + 1) % 3]
            edges.setdefault((min(a, b), max(a, b)), []).append(fi)
            dedges[(a, b)] = dedges.get((a, b), 0) + 1
    if deg:
        t.append("topo:degenerate-face")
    if len(used) < g.num_points:
        t.append("topo:isolated-points")
    if any(len(v) > 2 for v in edges.values()) or any(c > 1 for c in dedges.values()):
        t.append("topo:non-manifold-edge")
    if any(len(v) == 1 for v in edges.values()):
        t.append("topo:boundary")
    elif not deg:
        t.append("topo:closed")
    # non-manifold vertex: the faces around a position vertex form more than one edge-connected fan
    inc = {}
    for fi, f in enumerate(g.faces):
        for p in f:
            inc.setdefault(pv(p), set()).add(fi)
    nm = False
    for v, fs in inc.items():
        if len(fs) < 2:
            continue
        fs = list(fs)
        parent = {x: x for x in fs}

        def find(x):
            while parent[x] != x:
                parent[x] = parent[parent[x]]
                x = parent[x]
            return x
        for e, efs in edges.items():
            if v in e:
                efs = [x for x in efs if x in parent]
                for x in efs[1:]:
                    parent[find(x)] = find(efs[0])
        if len({find(x) for x in fs}) > 1:
            nm = True
            break
    if nm:
        t.append("topo:non-manifold-vertex")
    # attribute seams: two used points with the same position entry and different entries elsewhere;
    # non-deduplicated points: two used points with identical entries in every attribute
    seen = {}
    seam = nodedup = False
    for p in sorted(used):
        key = tuple(p if a.map is None else a.map[p] for a in g.atts)
        k0 = pv(p)
        for other in seen.get(k0, []):
            if other == key:
                nodedup = True
            else:
                seam = True
        seen.setdefault(k0, []).append(key)
    if seam:
        t.append("topo:attribute-seam")
    if nodedup:
        t.append("topo:non-deduplicated-points")
    # genus of closed manifold pieces is not computed; handles are tagged by family
    return t
