"""Development runner for the legacy-bitstream cases (slice eb follow-up): props/legacycases.py through the engine.
`python3 tools/check.py --property LEGDEV --tier quick|thorough`."""
from vlib.engine import Case
from . import legacycases, meshlegacy

ID = "LEGDEV"
LEVEL = "proof"
LEAN_MODULES = []
RULE = ("props/legacycases.py: legacy files (plain / skip decodes), header rewrites, corruptions, patched legacy schemes; "
        "props/meshlegacy.py: 2.2 mesh streams re-laid out for every version 1.0 .. 2.1 (self-checked), skip decodes, corruptions")
TIMEOUT = 3000


def generate(rng, tier):
    return legacycases.cases(rng, tier) + meshlegacy.cases(rng, tier)


def replay_cases(lines):
    return [Case(l, model=False) for l in lines]
