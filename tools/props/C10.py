"""C10 — skipping the attribute transform exposes data that reproduces the normal decode."""
import itertools
import os

from vlib import common as VC
from vlib.engine import Case
from . import e2e, e2etags, geomgen as G, topo2

ID = "C10"
LEVEL = "proof"
LEAN_MODULES = ["DracoProps.C10", "DracoProps.C10Kd", "DracoProps.C10Eb"]
RULE = ("(a) generated point clouds and meshes with quantized float positions / generic / tex-coord / colour attributes, "
        "octahedral normals and integer attributes, encoded with every method (sequential, kd-tree, Edgebreaker standard / "
        "valence, speeds 0..10, Encoder and ExpertEncoder API) and decoded with SetSkipAttributeTransform for EVERY "
        "non-empty subset of the attribute types present (plus subsets containing absent types), next to the ordinary decode "
        "and the decode with all transforms skipped; (b) every .drc file of the repository's testdata (bitstreams 0.9 .. "
        "2.3, legacy attribute decoders) under every subset of its attribute types; (c) sequential streams whose "
        "octahedral-bits byte is overwritten (ordinary decode rejects, skipped decode accepts: the accept sets differ "
        "exactly as the theorem skip_equiv says); (d) the byte-level witness streams of the theorems. Oracle: the executable Lean specification Spec.skipCheck (described "
        "transform applied to the exposed integers == ordinary decode bit for bit, same unique ids, maps, connectivity) "
        "on the implementation's outputs, plus: skipped decode succeeds whenever the ordinary one does, attributes of "
        "types outside the skip set are token-identical to the ordinary decode, attributes of types inside the skip set "
        "are token-identical to the all-skipped decode (an attribute's result depends only on whether its own type is "
        "skipped), every attribute requested to be quantized comes back with its transform description when skipped. "
        "Correspondence: the model decodes the same streams of every method under the same three skip sets."
        ' Re-laid-out legacy meshes of props/meshlegacy.py (family given:meshlegacy) run the three decodes + '
        'skipapply too.')
THEOREM_BACKED = ('DracoProps.C10 (sequential decoders, every bitstream version, every stream): skip_of_normal / '
                  'skip_unaffected / skip_mono / skip_equiv / skip_accept_iff_legacy / portable_readback, '
                  'skip_of_normal_with; DracoProps.C10Kd (kd-tree body, every version): kd_skipGeomOKU, kd_skipGeomOK_false'
                  ' (the kd-tree decoder exposes DT_UINT32), kd_skip_legacy / kd_skip_legacy_plain (< 2.3: the option has '
                  'no effect, no transform data), kd_skip_accept_iff, skip_of_normal_kd, pointcloud_kd_skip_roundtrip; '
                  'DracoProps.C10Eb (Edgebreaker body, bitstream >= 2.0): eb_skip_of_normal, ebGuarded_skipGeomOK, '
                  'skip_of_normal_v2 (the COMPLETE decoder on every stream whose header announces a version >= 2.0), '
                  'skip_of_normal_eb_stream (see evidence.coverage.theorems)')
CORRESPONDENCE_ONLY = ('Edgebreaker streams of bitstream < 2.0: eb_skip_of_normal is for >= 2.0 and is FALSE of the code below —'
                       ' KNOWN FINDING legacy-eb-parent-scheme-skip (accepted assembled streams whose later attributes decoder '
                       'uses a parent-dependent portable prediction scheme decode the non-skipped attribute differently under '
                       'SetSkipAttributeTransform(POSITION); no released encoder writes them; the model answers unsupported); '
                       "these, and any stream tagged model:unsupported_*, are checked by Spec.skipCheck on the implementation's "
                       'outputs only')
EXPLANATION = ('the theorems are about the complete decoder model (sequential: all versions; kd-tree; Edgebreaker >= '
               '2.0); the model is tied to the code by decoding every generated stream of every method and every '
               'testdata stream under three skip sets on both sides')
TIMEOUT = 900
CHECKS = {"skip", "corr", "valid"}
F32 = G.DT["f32"]


# ------------------------------------------------------------------------------------------ python side of the oracle

def _atts(tokens):
    """attribute token groups of a `ok <consumed> <geometry…>` decode result -> (head tokens, [9-token groups])"""
    g, _ = G.parse_geom(tokens, 2)
    head = tokens[2:7]
    out = []
    pos = 7
    for _ in g.atts:
        out.append(tokens[pos:pos + 9])
        pos += 9
    return head, out, g


def skip_oracle(dec, allsk, sub, S, req, what):
    """dec / allsk / sub: token lists of the ordinary, all-skipped and subset-skipped decodes; S: set of type ints"""
    if not dec or dec[0] != "ok":
        return None     # nothing is promised about streams the ordinary decoder rejects
    for name, t in (("all transforms", allsk), ("types " + "".join(map(str, sorted(S))), sub)):
        if t is not None and (not t or t[0] != "ok"):
            return ("skip-decode-fails", f"ordinary decode succeeds, decode with {name} skipped fails ({' '.join(t)[:40]}) for {what}")
    hd, ad, gd = _atts(dec)
    ha, aa, ga = _atts(allsk)
    if sub is None:
        return None
    hs, as_, gs = _atts(sub)
    if hd != hs:
        return ("skip-connectivity", f"points / faces differ between ordinary and skipped decode: {hd[:3]} vs {hs[:3]} for {what}")
    if not (len(ad) == len(as_) == len(aa)):
        return ("skip-attribute-count", f"attribute count differs under skip for {what}")
    for i, (d, s, a) in enumerate(zip(ad, as_, aa)):
        if d[4] != s[4]:
            return ("skip-unique-id", f"attribute {i}: unique id {d[4]} became {s[4]} under skip for {what}")
        t = int(d[0])
        if t not in S:
            if d != s:
                return ("skip-affects-other-attribute", f"attribute {i} (type {t}, not skipped) differs from the ordinary decode under skip={sorted(S)} for {what}")
        else:
            if s != a:
                return ("skip-depends-on-other-types", f"attribute {i} (type {t}) decoded with skip={sorted(S)} differs from its decode with all types skipped for {what}")
            if req and int(d[4]) in req and s[8] == "none":
                return ("skip-not-honored", f"attribute {i} (uid {d[4]}, quantized to {req[int(d[4])]} bits) has no transform description when its type is skipped for {what}")
    return None


def attach(c, S, req):
    base = c.oracle

    def oracle(hout, case):
        v = base(hout, case)
        if v is not None:
            return v
        r = e2e.parse_encdec(hout)
        if r["status"] != "ok":
            return None
        return skip_oracle(r["dec"], r["skipall"], r["skip"] or None, S, req, f"`{case.op[:300]}`")
    c.oracle = oracle
    return c


# ------------------------------------------------------------------------------------------ generated streams

def subsets(types, rng, extra_absent=True):
    types = sorted(types)
    out = []
    for k in range(1, len(types) + 1):
        out += [set(c) for c in itertools.combinations(types, k)]
    if extra_absent:
        absent = [t for t in range(5) if t not in types]
        if absent and types:
            out.append({rng.choice(absent)})
            out.append({rng.choice(absent), rng.choice(types)})
    return out


def rand_specs(rng, kd=False):
    """attribute layouts rich in transformed attributes; kd: only types the kd-tree encoder takes"""
    specs = [(G.POSITION, F32 if rng.random() < 0.85 else G.DT[rng.choice(["i16", "i32", "u16"])], 3, False)]
    n = rng.randint(1, 4)
    for _ in range(n):
        r = rng.random()
        if r < 0.25:
            specs.append((G.NORMAL, F32, 3, False))
        elif r < 0.45:
            specs.append((G.TEX_COORD, F32, 2, False))
        elif r < 0.65:
            specs.append((G.GENERIC, F32, rng.randint(1, 4), False))
        elif r < 0.75:
            specs.append((G.COLOR, F32, rng.choice([1, 3, 4]), False))
        elif r < 0.85:
            specs.append((G.COLOR, G.DT["u8"], rng.choice([3, 4]), True))
        else:
            specs.append((rng.choice([G.GENERIC, G.TEX_COORD]), G.DT[rng.choice(["i8", "u8", "i16", "u16", "i32", "u32"])], rng.randint(1, 3), False))
    if rng.random() < 0.5:
        rng.shuffle(specs)
    uids = list(range(len(specs))) if rng.random() < 0.5 else rng.sample(range(0, 40), len(specs))
    return [(t, d, c, nz, u) for (t, d, c, nz), u in zip(specs, uids)]


def gen_cases(rng, kind, method, sub, es, cases, tag, max_subsets=None):
    specs = rand_specs(rng, kd=(kind == "pc" and method == 1))
    if kind == "pc":
        g = G.rand_point_cloud(rng, rng.choice([5, 30, 120]), specs=specs)
    else:
        g = G.rand_mesh(rng, rng.choice([8, 30, 80]), specs=specs, topo=topo2.rand_topology2(rng) if rng.random() < 0.3 else None)
    if g.num_points == 0:
        return
    while True:
        toks, info = e2e.rand_options(rng, g, force_method=method, quant_prob=1.0 if rng.random() < 0.8 or (kind == "pc" and method == 1) else 0.6)
        if sub is None or info["expert"]:
            break
    toks = [t for t in toks if not t.startswith(("speed=", "submethod="))]
    toks.append(f"speed={es},{rng.randint(0, 10)}")
    if sub is not None:
        toks.append(f"submethod={sub}")
    ss = subsets({a.att_type for a in g.atts}, rng)
    if max_subsets and len(ss) > max_subsets:
        ss = rng.sample(ss, max_subsets)
    for S in ss:
        sk = "".join(str(t) for t in sorted(S))
        tk = toks + [f"skip={sk}"]
        inf = dict(info)
        inf["skip"] = sk
        c = e2e.make_case(g, tk, inf, CHECKS, tags=tuple(e2etags.option_tags(g, tk, inf)) + (tag, f"skip-set-size:{len(S)}"))
        c.mtag = e2etags.result_tag(c)
        cases.append(attach(c, S, info["req"]))


# ------------------------------------------------------------------------------------------ given streams

def stream_case(hexs, S, name, tags):
    sk = "".join(str(t) for t in sorted(S)) or "-"
    op = f"decskip {sk} {hexs}"
    return _given(op, S, name, tags, lambda hout: hexs, lambda hout: hout.split(" | "))


def poke_case(g, toks, poke, S, tags):
    sk = "".join(str(t) for t in sorted(S)) or "-"
    op = f"encpoke poke={poke} skip={sk} " + " ".join(toks) + " -- " + g.to_text()

    def parts(hout):
        return hout.split(" | ")[1:]
    return _given(op, S, "generated stream with overwritten bytes", tags, lambda hout: hout.split()[1], parts, need_ok=True)


def _given(op, S, name, tags, hex_of, parts_of, need_ok=False):
    sk = "".join(str(t) for t in sorted(S)) or "-"

    def model(hout):
        if need_ok and not hout.startswith("ok "):
            return None
        p = parts_of(hout)
        if len(p) != 3:
            return None
        return f"skipchk skip={sk} hex={hex_of(hout)} -- {p[0]} -- {p[1]} -- {p[2]}"

    def oracle(hout, case):
        if need_ok and not hout.startswith("ok "):
            return None
        p = [x.split() for x in parts_of(hout)]
        if len(p) != 3:
            return ("malformed", f"malformed harness output for {name}")
        return skip_oracle(p[0], p[1], p[2], S, None, f"{name} skip={sk} (`{case.op[:200]}`)")

    def expect(hout, mout, case):
        if mout is None or (need_ok and not hout.startswith("ok ")):
            return None
        mp = mout.split(" | ")
        p = parts_of(hout)
        if len(mp) != 6 or len(p) != 3:
            return f"model output malformed: {mout[:200]}"
        for k, lab in ((0, "ordinary"), (1, "all-skipped"), (2, "subset-skipped")):
            if not mp[k].startswith("unsupported") and mp[k] != p[k]:
                return f"{lab} decode of {name} differs: implementation `{p[k][:300]}` model `{mp[k][:300]}`"
        return None

    def spec(hout, mout, case):
        if mout is None:
            return None
        mp = mout.split(" | ")
        if len(mp) != 6:
            return None
        for k in (4, 5):
            if mp[k].startswith("violation"):
                return ("skip:" + mp[k].split(":", 1)[1].strip()[:40],
                        f"skip-transform check (Lean spec, {'all types' if k == 4 else 'skip=' + sk}) fails on the implementation's output: {mp[k]} for {name} (`{case.op[:200]}`)")
        return None

    c = Case(op, model=model, expect=expect, oracle=oracle, tags=tags)
    c.spec = spec

    def mtag(mout):
        h = c.hout or ""
        p = parts_of(h) if (h and (not need_ok or h.startswith("ok "))) else []
        st = "/".join((x.split() or ["?"])[0] for x in p) if len(p) == 3 else "encoder-failed"
        return f"given-stream:{st}:" + e2e.model_support_tag(mout)
    c.mtag = mtag
    return c


def testdata_streams():
    d = os.path.join(VC.REPO, "testdata")
    out = []
    if os.path.isdir(d):
        for f in sorted(os.listdir(d)):
            if f.endswith(".drc"):
                out.append((f, open(os.path.join(d, f), "rb").read()))
    return out


def generate(rng, tier):
    cases = []
    thorough = tier == "thorough"
    # ---- (a) generated streams: every method class x speeds, every subset of the types present
    combos = [("pc", 0, None), ("pc", 1, None), ("mesh", 0, None), ("mesh", 1, 0), ("mesh", 1, 2)]
    for rep in range(6 if thorough else 1):
        for kind, method, sub in combos:
            speeds = list(range(11)) if (thorough or kind == "mesh" and method == 1 and sub == 0 or kind == "pc" and method == 1) else rng.sample(range(11), 5)
            for es in speeds:
                gen_cases(rng, kind, method, sub, es, cases, "gen:method-x-speed", max_subsets=None if thorough else 8)
        # kd-tree clouds with several quantized float attributes of decreasing / mixed component counts
        for _ in range(10):
            ncs = [rng.randint(1, 4) for _ in range(rng.randint(2, 4))]
            if rng.random() < 0.6:
                ncs.sort(reverse=True)
            types = [G.POSITION] + [rng.choice([G.GENERIC, G.TEX_COORD, G.COLOR, G.NORMAL]) for _ in ncs[1:]]
            specs = [(t, F32, 3 if t in (G.POSITION, G.NORMAL) else nc, False, i) for i, (t, nc) in enumerate(zip(types, ncs))]
            g = G.rand_point_cloud(rng, rng.choice([6, 40]), specs=specs)
            if g.num_points == 0:
                continue    # 0-point geometries are the subject of C01 (known finding empty-geometry)
            toks, info = e2e.rand_options(rng, g, force_method=1, quant_prob=1.0, explicit=0)
            for S in subsets({a.att_type for a in g.atts}, rng, extra_absent=False):
                sk = "".join(str(t) for t in sorted(S))
                inf = dict(info)
                inf["skip"] = sk
                tk = toks + [f"skip={sk}"]
                c = e2e.make_case(g, tk, inf, CHECKS, tags=tuple(e2etags.option_tags(g, tk, inf)) + ("gen:kd-multi-float", f"skip-set-size:{len(S)}"))
                c.mtag = e2etags.result_tag(c)
                cases.append(attach(c, S, info["req"]))
    # ---- (b) the repository's .drc files (incl. legacy bitstreams)
    for name, data in testdata_streams():
        small = len(data) <= 4096
        # types present are not known before decoding: all 31 non-empty subsets for small files, a sample otherwise
        all_sub = [set(c) for k in range(1, 6) for c in itertools.combinations(range(5), k)]
        ss = all_sub if (small and thorough) else ([{0}, {1}, {0, 1}, {3}, {0, 1, 2, 3, 4}] + rng.sample(all_sub, 3 if small else 1))
        if not small and not thorough:
            ss = [{0, 1}, {1}]
        for S in ss:
            cases.append(stream_case(data.hex(), S, "testdata/" + name, ("given:testdata", "given:" + name)))
    # ---- (c) overwritten octahedral-bits byte of a sequential point cloud whose only transformed attribute is a normal
    for bits_byte in (0, 1, 31, 200, 2, 30):
        n = rng.randint(1, 6)
        g = G.Geom(False, n, [], [G.Attr(G.NORMAL, F32, 3, False, 3, n, None, G.make_normals(rng, n))])
        q = rng.randint(2, 20)
        toks = ["method=0", f"q{G.NORMAL}={q}"]
        for S in ({1}, {0}):
            cases.append(poke_case(g, toks, f"-1:{bits_byte}", S, ("given:overwritten-octahedral-bits", f"octahedral-bits-byte:{bits_byte}")))
    # ---- (d) the byte-level witnesses of DracoProps.C10 (bs1: accepted; bs2 / bs3: the skipped decode accepts, the
    #          ordinary one rejects) replayed on the real decoder: both sides must agree on all three decodes
    for name, bs in WITNESSES.items():
        for S in ({0}, {1}, {0, 1, 2, 3, 4}):
            cases.append(stream_case(bytes(bs).hex(), S, "theorem witness " + name, ("given:theorem-witness", "given:" + name)))
    # ---- (e) legacy mesh streams (bitstream 1.0 .. 2.1) re-laid out from 2.2 streams of the real encoder
    #          (props/meshlegacy.py): the three decodes and the consumer side on every version's layout
    try:
        from . import meshlegacy
        vs, _ = meshlegacy.variants(rng, tier, n_bases=6 if not thorough else 40)
        for kind, ver, b, v, d in vs:
            for S in ({0}, {1, 3}, {0, 1, 2, 3, 4}):
                cases.append(stream_case(v.hex(), S, f"{kind} mesh re-laid out as {ver[0]}.{ver[1]}",
                                         ("given:meshlegacy", f"given:meshlegacy:v{ver[0]}.{ver[1]}")))
    except Exception as ex:       # noqa: BLE001 - optional family
        from vlib import common as C
        C.log(f"[C10] meshlegacy not used: {ex}")
    cases += apply_cases(cases)
    # ---- (f) KNOWN FINDING (known_findings.json, signature legacy-eb-parent-scheme-skip): a bitstream 1.0 Edgebreaker
    #          stream whose SECOND attributes decoder uses a parent-dependent prediction scheme; below 2.0 that scheme
    #          reads its parent through point_cloud()->attribute(pos), which a decode with POSITION skipped has
    #          already replaced by the portable integers: the (unskipped) TEX_COORD values differ from the ordinary decode
    c = stream_case(LEGACY_PARENT_SCHEME_WITNESS, {0}, "legacy Edgebreaker stream with a parent-dependent scheme in a later decoder",
                    ("given:known-finding", "given:legacy-parent-scheme"))
    inner = c.oracle

    def known(hout, case, inner=inner):
        v = inner(hout, case)
        if v is None:
            return None
        return ("legacy-eb-parent-scheme-skip", v[1])
    c.oracle = known
    c.model = False
    c.spec = None
    c.expect = lambda h, m, cs: None
    cases.append(c)
    return cases


LEGACY_PARENT_SCHEME_WITNESS = (
    "445241434f010001010000000000000004000000020000000102000000000000001800000001000000000000001f010000000000000000ff01"
    "00000022000000000000000002ff0000000100000000090300000002010000000309020001000201014876393f682bec3ea79c1b3d2d595e40"
    "100100110000003f0140010000000000000000c9f800005ae7ce65b0fb531afc92b1fb05cd229e0258409b00000000ffff000005014bbf0b3e"
    "6b26253e54f2443f080100090000001f014001000000000000000099609886a890fce7020000008002000000007100000000ff000000")


def apply_oracle(hout, case):
    """the consumer side on the real classes: InitFromAttribute + InverseTransformAttribute (one reused transform object
    per kind) on every skipped attribute must reproduce the ordinary decode bit for bit"""
    if hout.startswith(("mismatch", "no-such-attribute", "transform-failed")):
        return ("skip-apply:" + hout.split()[0],
                f"applying the described transform to the skipped attribute does not reproduce the ordinary decode: {hout} for `{case.op[:300]}`")
    return None


def apply_cases(cases):
    """for every generated / given stream case of this run one `skipapply` case with the same skip set"""
    out = []
    seen = set()
    for c in cases:
        op = c.op
        if op.startswith("encdec "):
            head, gt = op.split(" -- ", 1)
            toks = [t for t in head.split()[1:] if not t.startswith("trail=")]
            line = "encskipapply " + " ".join(toks) + " -- " + gt
        elif op.startswith("decskip "):
            t = op.split()
            line = f"skipapply {t[1]} {t[2]}"
        else:
            continue
        if line in seen:
            continue
        seen.add(line)
        out.append(Case(line, model=False, oracle=apply_oracle, tags=("skip-apply-real-transform",)))
    return out


WITNESSES = {
    "bs1": [68, 82, 65, 67, 79, 2, 3, 0, 0, 0, 0, 1, 0, 0, 0, 1, 1, 0, 2, 1, 0, 0, 1, 254, 0, 1, 6],
    "bs2": [68, 82, 65, 67, 79, 2, 3, 0, 0, 0, 0, 1, 0, 0, 0, 1, 1, 0, 9, 1, 0, 0, 1, 254, 0, 1, 6],
    "bs3": [68, 82, 65, 67, 79, 2, 3, 0, 0, 0, 0, 1, 0, 0, 0, 1, 1, 1, 9, 3, 0, 0, 3, 254, 0, 1, 0, 0, 1],
}


def replay_cases(lines):
    from . import e2ereplay
    out = []
    for l in lines:
        if l.startswith("encdec "):
            c = e2ereplay.case_from_op(l, CHECKS)
            sk = [t for t in l.split(" -- ")[0].split() if t.startswith("skip=")]
            S = {int(ch) for ch in sk[0][5:] if ch.isdigit()} if sk else set()
            info = e2ereplay.info_from_tokens(l.split(" -- ")[0].split()[1:], G.parse_geom(l.split(" -- ", 1)[1].split())[0])
            out.append(attach(c, S, info["req"]))
        elif l.startswith(("skipapply ", "encskipapply ")):
            out.append(Case(l, model=False, oracle=apply_oracle))
        elif l.startswith("decskip "):
            t = l.split()
            out.append(stream_case(t[2], {int(ch) for ch in t[1] if ch.isdigit()}, "replayed stream", ()))
        elif l.startswith("encpoke "):
            head, gt = l.split(" -- ", 1)
            ht = head.split()[1:]
            poke = [x for x in ht if x.startswith("poke=")][0][5:]
            sk = [x for x in ht if x.startswith("skip=")][0][5:]
            toks = [x for x in ht if not x.startswith(("poke=", "skip="))]
            out.append(poke_case(G.parse_geom(gt.split())[0], toks, poke, {int(ch) for ch in sk if ch.isdigit()}, ()))
        else:
            out.append(Case(l, model=False))
    return out
