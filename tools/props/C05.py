"""C05 — existing bitstreams keep decoding to the same geometry, in the same order."""
from vlib.engine import Case
from . import corpus as K
from . import legacycases

ID = "C05"
LEVEL = "proof"
LEAN_MODULES = ["DracoProps.C05"]
RULE = ("every stream of the committed corpus (corpus/: the 25 legacy .drc files of testdata written by Draco 0.9.0 … "
        "1.1.0 / bitstreams 1.1 … 2.3, and 427 streams frozen from the encoder at freeze time over sequential / kd-tree "
        "(all levels, nodes of 63/64/65/128/256 points) / Edgebreaker standard + valence, speeds 0..10, prediction "
        "schemes, attribute layouts, quantization settings, metadata, sequential meshes of 255/256/257 and "
        "65535/65536/65537 points) is decoded by the CURRENT decoder and compared token by token with the frozen "
        "ordered decode (consumed bytes, points, faces, attribute order, per-value bytes, transforms, metadata) AND "
        "with the decode of the Lean decoder model (all methods, bitstreams 1.1 .. 2.3); the headers of 20 streams "
        "(every geometry type x method, every legacy writer version) and of the six small size-boundary streams are "
        "rewritten to every (major, minor) of [0..4]x[0..9] and six far values (the six 197 kB boundary streams to the "
        "four versions next to the gate), 300 random (stream, version) pairs with minor up to 255: versions newer "
        "than mesh 2.2 / point cloud 2.3 must give UNKNOWN_VERSION, the accept/reject decision must equal the gate "
        "table proved about the model (driver op vgate), rewritten streams <= 4000 bytes are decoded by the model "
        "too, and a relabelled stream that decoded at freeze time must not silently decode to something else; "
        "legacy decode paths driven on purpose (props/legacycases.py); non-trivial = distinct stream bytes"
        '; as built the corpus holds 751 streams: the 25 testdata files, 39 assembled legacy kd-tree streams '
        '(versions 1.0 .. 2.2, integer and float method; tools/freeze_kdlegacy.py), 260 split-rich Edgebreaker '
        'streams (tools/freeze_splitrich.py) and the 427 frozen encoder streams; legacy kd-tree payloads re-laid-'
        'out for every version 1.0 .. 2.2 with rewritten descriptor blocks, and their corruptions, against the '
        'Lean decoder model (props/kdlegacy.py)'
        '; plus 40 frozen re-laid-out legacy mesh streams (791 streams in all) and the legacy re-layout '
        'transcoder props/meshlegacy.py: 2.2 sequential / Edgebreaker meshes of the real encoder re-laid-out '
        'field by field as 2.1 .. 1.0 (self-check: the real decoder must return the geometry of the 2.2 '
        'original), against the Lean decoder model, with corruptions')
THEOREM_BACKED = ('unknown_version_rejected / newer_version_stream_rejected (version gate of the decoder model, whatever '
                  'follows the header), gate_table_mesh / gate_table_point_cloud (decision tables), '
                  'format_constants_frozen* and version_gates_frozen (constants regenerated from the source == frozen '
                  'copy); source_seqDecIndexWidth_is_model / source_seqEncIndexWidth_is_model (the version-gated '
                  "index-width chains of the sequential mesh coders, translated from clang's AST on every run, are the "
                  "model's)")
CORRESPONDENCE_ONLY = ('nothing in the corpus: every one of the 791 streams (bitstreams 1.0 .. 2.3, sequential, kd-tree of every'
                       ' version, Edgebreaker) is decoded by the Lean decoder model and agrees token for token with the real '
                       'decoder (evidence.input_distribution `model:decoded`; a `model:unsupported_*` tag would name a branch '
                       'that is checked against the frozen decode only). That the model reads OLD bytes the way the decoder of '
                       'that time did is not provable — it is what the frozen decodes record; the 39 legacy kd-tree streams are '
                       "assembled from the library's own tree encoders (no legacy kd writer exists), so they record the CURRENT "
                       'reading of those layouts')
EXPLANATION = ("history property: what is provable is the gate and the constancy of format constants; that the decoder "
               "still reads old bytes the old way is observed on the frozen corpus (exact replay: file + first "
               "differing element). Encoder bytes of the frozen inputs are re-produced and tagged encoder:same/changed "
               "(informational, never a violation)")
ASSUMPTIONS = ["the committed corpus is the history (corpus/index.json hashes are verified on every run)",
               "the frozen decodes were produced by the decoder of the tree at freeze time (see index.json "
               "frozen_at_source_digest), legacy files are trusted to have decoded correctly then"]
TRUSTED_EXTRA = ["corpus/ (frozen streams + frozen ordered decodes, SHA-256 in corpus/index.json)",
                 "lean/Frozen/*.lean (frozen format constants)"]
TIMEOUT = 3000

MAXV = {True: (2, 2), False: (2, 3)}      # newest supported version per geometry type, from the property text


def newer(is_mesh, ma, mi):
    return (ma, mi) > MAXV[is_mesh]


_LOADED = None


def loaded():
    global _LOADED
    if _LOADED is None:
        _LOADED = K.load()
    return _LOADED


def frozen_oracle(name, frozen):
    def f(hout, case):
        if hout == frozen:
            return None
        return ("frozen-decode-changed:" + name,
                f"stream {name} no longer decodes to its frozen result — {K.first_difference(frozen, hout)} "
                f"(frozen sha256 {K.sha(frozen)[:16]}, now {K.sha(hout)[:16]})")
    return f


def model_expect(hout, mout, case):
    if mout is None or mout.startswith("unsupported"):
        return None
    if mout != hout:
        return f"model decode differs from the implementation: {K.first_difference(mout, hout)}"
    return None


def rewrite_oracle(name, is_mesh, ma, mi, frozen):
    def f(hout, case):
        st = hout.split(" ", 1)[0]
        if newer(is_mesh, ma, mi) and st != "err-version":
            return (f"unknown-version-not-rejected:{'mesh' if is_mesh else 'pc'}-{ma}.{mi}",
                    f"{name} with its header rewritten to the unknown newer version {ma}.{mi} "
                    f"({'mesh' if is_mesh else 'point cloud'}, newest supported {MAXV[is_mesh][0]}.{MAXV[is_mesh][1]}) "
                    f"was not rejected with UNKNOWN_VERSION: decoder returned `{hout[:60]}`")
        if frozen and frozen["status"] == "ok" and st == "ok" and K.sha(hout) != frozen["sha256"]:
            return (f"relabelled-decode-changed:{name}@{ma}.{mi}",
                    f"{name} relabelled as version {ma}.{mi} decoded without error at freeze time and still does, but to "
                    f"a different result (frozen sha256 {frozen['sha256'][:16]}, now {K.sha(hout)[:16]}): a "
                    f"version-gated decode path changed silently")
        return None
    return f


def gate_expect(hout, mout, case):
    if mout not in ("reject", "pass"):
        return f"vgate gave `{mout}`"
    rej = hout.split(" ", 1)[0] == "err-version"
    if rej != (mout == "reject"):
        return (f"version gate differs from the proved table: decoder `{hout[:40]}`, table says {mout} for "
                f"`{case.note}`")
    return None


def stream_cases(idx, streams, decodes, names=None):
    cases = []
    for e in idx["entries"]:
        n = e["name"]
        if names is not None and n not in names:
            continue
        b = streams[n]
        ma, mi = (int(x) for x in e["version"].split("."))
        # every stream goes to the Lean decoder model as well; what the model does not cover (legacy versions,
        # kd-tree until modelled) comes back as `unsupported …` and is then checked by the frozen-decode oracle only
        in_model = e["size"] <= 400000
        c = Case("dec - " + b.hex(), model=None if in_model else False, expect=model_expect,
                 oracle=frozen_oracle(n, decodes[n]),
                 tags=(e["kind"], "class:" + e["class"], "v" + e["version"], "model" if in_model else "impl-only"),
                 note=n)
        if in_model:
            c.mtag = model_tag
        cases.append(c)
    return cases


def model_tag(mout):
    """what the Lean decoder model said about a corpus stream (evidence.input_distribution)"""
    if mout is None:
        return "model:none"
    if mout.startswith("unsupported"):
        return "model:" + mout.replace(" ", "_")[:60]
    return "model:decoded"


def rewrite_cases(idx, streams, names, versions, with_model=True):
    cases = []
    for n in names:
        b = streams[n]
        h = K.header_of(b)
        is_mesh = h[2] == 1
        table = idx["version_rewrites"].get(n, {})
        for (ma, mi) in versions:
            rb = K.rewrite_version(b, ma, mi)
            c = Case("dec - " + rb.hex(), model=f"vgate {1 if is_mesh else 0} {ma} {mi}", expect=gate_expect,
                     oracle=rewrite_oracle(n, is_mesh, ma, mi, table.get(f"{ma}.{mi}")),
                     tags=("rewrite", "rewrite:newer" if newer(is_mesh, ma, mi) else "rewrite:older-or-equal"),
                     note=f"{n} relabelled {ma}.{mi}", nontrivial=(ma, mi) != (h[0], h[1]))
            cases.append(c)
            if with_model and len(b) <= 4000:
                cases.append(Case("dec - " + rb.hex(), expect=model_expect, tags=("rewrite-model",),
                                  note=f"{n} relabelled {ma}.{mi} (model decode)", nontrivial=False))
    return cases


def encoder_cases(idx, inputs):
    cases = []
    for e in idx["entries"]:
        if e["kind"] != "frozen":
            continue
        c = Case("enc " + inputs[e["name"]], model=False, tags=("encoder-informational",), note=e["name"], nontrivial=False)

        def tag(mout, c=c, want=e["sha256"]):
            t = (c.hout or "").split()
            if len(t) >= 2 and t[0] == "ok":
                return "encoder:same-bytes" if K.sha(bytes.fromhex(t[1])) == want else "encoder:changed-bytes(informational)"
            return "encoder:no-longer-encodes(informational)"
        c.mtag = tag
        cases.append(c)
    return cases


def generate(rng, tier):
    ld = loaded()
    idx, streams, decodes, inputs = ld
    problems = K.verify(ld)
    if problems:
        def bad(hout, case, problems=problems):
            return ("corpus-integrity", "the committed corpus does not match its index: " + "; ".join(problems[:5]))
        return [Case("dec - 00", model=False, oracle=bad, tags=("corpus-integrity",))]
    cases = stream_cases(idx, streams, decodes)
    rw_names = sorted(idx["version_rewrites"].keys())
    cases += rewrite_cases(idx, streams, rw_names, K.REWRITE_VERSIONS)
    # the size-boundary streams (raw index width switches at 256 / 65536 points; appended to the corpus after the first
    # freeze, no frozen rewrite table): gate oracle + gate table + model decode; the six 197 kB streams only at the
    # versions next to the gate
    bnd = [e for e in idx["entries"] if "_boundary_" in e["name"]]
    cases += rewrite_cases(idx, streams, [e["name"] for e in bnd if e["size"] <= 4000], K.REWRITE_VERSIONS)
    cases += rewrite_cases(idx, streams, [e["name"] for e in bnd if e["size"] > 4000], [(2, 1), (2, 3), (3, 0), (0, 9)],
                           with_model=False)
    # seeded: random streams of the corpus relabelled with random versions (minor up to 255)
    small = [e["name"] for e in idx["entries"] if e["size"] <= 8000]
    for _ in range(1500 if tier == "thorough" else 300):
        n = rng.choice(small)
        v = (rng.choice([0, 1, 2, 2, 2, 3, 4, 5, 6, 127, 128, 255]), rng.choice([0, 1, 2, 3, 4, 5, 9, 10, 127, 255, rng.randrange(256)]))
        cases += rewrite_cases(idx, streams, [n], [v], with_model=False)
    if tier == "thorough":
        # every stream against the gate at every version, and the corpus once more under ASan+UBSan
        others = [e["name"] for e in idx["entries"] if e["name"] not in idx["version_rewrites"] and e["size"] <= 8000]
        cases += rewrite_cases(idx, streams, others, K.REWRITE_VERSIONS, with_model=False)
        for c in stream_cases(idx, streams, decodes):
            c.flavour = "asan"
            c.model = False
            c.nontrivial = False
            cases.append(c)
    # histories: ONE DecoderBuffer and ONE Decoder object decode a stream of ANOTHER bitstream version first; the frozen
    # decode of the second stream must still come out (a reused buffer must not remember the previous stream's version)
    by_ver = {}
    for e in idx["entries"]:
        if e["size"] <= 8000 and e.get("decode_status") == "ok":
            by_ver.setdefault(e["version"], []).append(e["name"])
    names = [e["name"] for e in idx["entries"] if e["size"] <= 8000 and e.get("decode_status") == "ok"]
    legacy = [e["name"] for e in idx["entries"] if e["kind"] == "legacy" and e["size"] <= 8000 and e.get("decode_status") == "ok"]
    pool = legacy + rng.sample(names, min(len(names), 400 if tier == "thorough" else 60))
    ver_of = {e["name"]: e["version"] for e in idx["entries"]}
    for nb in pool:
        others = [v for v in by_ver if v != ver_of[nb]]
        for va in (others if tier == "thorough" else rng.sample(others, min(2, len(others)))):
            na = rng.choice(by_ver[va])
            cases.append(Case(f"decseq - {streams[na].hex()} {streams[nb].hex()}", model=False,
                              oracle=frozen_oracle(nb, decodes[nb]), tags=("history:reused-decoder-buffer", f"then-v{ver_of[nb]}"),
                              note=f"{nb} after {na}"))
    cases += encoder_cases(idx, inputs)
    # legacy decode paths driven on purpose: the legacy files under every skip set, current streams re-labelled with the
    # legacy prediction scheme ids, and 2.2 streams transcoded to valid 2.1 streams (each verified to decode like
    # its 2.2 original by the real decoder) — all compared token for token with the Lean decoder model
    cases += legacycases.stream_cases()
    cases += legacycases.patched_scheme_cases(rng, n=24 if tier == "quick" else 120)
    cases += legacycases.transcoded_cases(rng, n=40 if tier == "quick" else 300)
    # legacy (< 2.3) kd-tree decode paths (integer / float method): streams assembled from the library's own tree
    # encoders, re-laid-out for every version 1.0 .. 2.2, and their corruptions, against the Lean decoder model
    # (props/kdlegacy.py); 39 such streams are part of the frozen corpus (legacy/kdlegacy_*.drc, tools/freeze_kdlegacy.py)
    from . import kdlegacy
    cases += kdlegacy.cases(rng, tier)
    # legacy (1.0 .. 2.1) MESH decode paths: 2.2 Edgebreaker / sequential mesh streams of the real encoder re-laid out for
    # every older version (props/meshlegacy.py: generator self check = accepted with the geometry of the 2.2 original), their
    # skip decodes and corruptions against the Lean decoder model; a sample is frozen (legacy/meshlegacy_*.drc)
    from . import meshlegacy
    cases += meshlegacy.cases(rng, tier)
    return cases


def replay_cases(lines):
    """a replay is an op line `dec - <hex>`: the frozen expectation is found by the bytes"""
    idx, streams, decodes, inputs = loaded()
    by_hex = {}
    for c in stream_cases(idx, streams, decodes) + rewrite_cases(idx, streams, sorted(idx["version_rewrites"]), K.REWRITE_VERSIONS):
        by_hex.setdefault(c.op, c)
    out = []
    for l in lines:
        if l in by_hex:
            out.append(by_hex[l])
        else:
            # a stream outside the quick set (thorough rewrites): rebuild from the header-normalised bytes
            t = l.split()
            found = None
            if len(t) == 3 and t[0] == "dec":
                b = bytes.fromhex(t[2])
                for e in idx["entries"]:
                    s = streams[e["name"]]
                    if len(s) == len(b) and s[:5] == b[:5] and s[7:] == b[7:]:
                        found = rewrite_cases(idx, streams, [e["name"]], [(b[5], b[6])], with_model=False)[0]
                        break
            out.append(found or Case(l, model=False))
    return out
