"""Geometry generator and the python mirror of the canonical text form (harness/geom_text.h,
lean/DracoModel/Geometry.lean).  All randomness comes from the rng passed in."""
import struct

DT = {"i8": 1, "u8": 2, "i16": 3, "u16": 4, "i32": 5, "u32": 6, "i64": 7, "u64": 8, "f32": 9, "f64": 10, "bool": 11}
DT_LEN = {1: 1, 2: 1, 3: 2, 4: 2, 5: 4, 6: 4, 7: 8, 8: 8, 9: 4, 10: 8, 11: 1}
DT_FMT = {1: "b", 2: "B", 3: "h", 4: "H", 5: "i", 6: "I", 7: "q", 8: "Q", 9: "f", 10: "d", 11: "B"}
POSITION, NORMAL, COLOR, TEX_COORD, GENERIC = 0, 1, 2, 3, 4


def f32_bits(x):
    return struct.unpack("<I", struct.pack("<f", x))[0]


def bits_f32(b):
    return struct.unpack("<f", struct.pack("<I", b & 0xffffffff))[0]


def f32(x):
    """round a python float to float32"""
    return struct.unpack("<f", struct.pack("<f", x))[0]


class Attr:
    def __init__(self, att_type, dtype, ncomp, normalized, uid, num_values, amap, values, transform="none"):
        self.att_type, self.dtype, self.ncomp, self.normalized, self.uid = att_type, dtype, ncomp, normalized, uid
        self.num_values, self.map, self.values, self.transform = num_values, amap, values, transform

    @property
    def stride(self):
        return DT_LEN.get(self.dtype, 0) * self.ncomp

    def value_bytes(self, vi):
        s = self.stride
        return self.values[vi * s:(vi + 1) * s]

    def point_value(self, p):
        return self.value_bytes(p if self.map is None else self.map[p])

    def components(self, vi):
        fmt = "<" + DT_FMT[self.dtype] * self.ncomp
        return struct.unpack(fmt, self.value_bytes(vi))

    def to_text(self):
        m = "id" if self.map is None else (",".join(map(str, self.map)) if self.map else "-")
        v = self.values.hex() if self.values else "-"
        return f"{self.att_type} {self.dtype} {self.ncomp} {1 if self.normalized else 0} {self.uid} {self.num_values} {m} {v} {self.transform}"


class Geom:
    def __init__(self, is_mesh, num_points, faces, atts):
        self.is_mesh, self.num_points, self.faces, self.atts = is_mesh, num_points, faces, atts

    def to_text(self):
        fl = ",".join(str(i) for f in self.faces for i in f) if self.faces else "-"
        s = f"{'mesh' if self.is_mesh else 'pc'} {self.num_points} {len(self.faces)} {fl} {len(self.atts)}"
        for a in self.atts:
            s += " " + a.to_text()
        return s

    def valid(self):
        """C03 structural validity"""
        for f in self.faces:
            if any(i >= self.num_points for i in f):
                return "face index out of range"
        for a in self.atts:
            if a.ncomp < 1 or DT_LEN.get(a.dtype, 0) < 1:
                return "bad attribute descriptor"
            if len(a.values) < a.num_values * a.stride:
                return "attribute storage too small"
            if a.map is None:
                if a.num_values < self.num_points:
                    return "identity-mapped attribute with fewer values than points"
            else:
                if len(a.map) != self.num_points or any(i >= a.num_values for i in a.map):
                    return "point maps to a missing value"
        return None


def parse_geom(tokens, pos=0):
    """returns (Geom, next position); tokens as produced by to_text().split()"""
    kind, np_, nf, fl, na = tokens[pos:pos + 5]
    pos += 5
    flat = [] if fl == "-" else [int(x) for x in fl.split(",")]
    faces = [tuple(flat[i:i + 3]) for i in range(0, len(flat) - 2, 3)]
    atts = []
    for _ in range(int(na)):
        t, d, c, nz, u, nv, m, v, tr = tokens[pos:pos + 9]
        pos += 9
        amap = None if m == "id" else ([] if m == "-" else [int(x) for x in m.split(",")])
        vals = b"" if v in ("-", "SHORTBUFFER") else bytes.fromhex(v)
        a = Attr(int(t), int(d), int(c), nz == "1", int(u), int(nv), amap, vals, tr)
        a.short = v == "SHORTBUFFER"
        atts.append(a)
    return Geom(kind == "mesh", int(np_), faces, atts), pos


# ------------------------------------------------------------------ value generators

def rand_int_value(rng, dtype, style):
    lo, hi = {1: (-128, 127), 2: (0, 255), 3: (-32768, 32767), 4: (0, 65535),
              5: (-2 ** 31, 2 ** 31 - 1), 6: (0, 2 ** 32 - 1)}[dtype]
    if style == "small":
        return max(lo, min(hi, rng.randint(-20, 20) if lo < 0 else rng.randint(0, 40)))
    if style == "bounds":
        return rng.choice([lo, hi, lo + 1, hi - 1, 0, (lo + hi) // 2, rng.randint(lo, hi)])
    if style == "mid":
        return max(lo, min(hi, rng.randint(-3000, 3000) if lo < 0 else rng.randint(0, 6000)))
    return rng.randint(lo, hi)


def rand_float_value(rng, style, scale, offset):
    if style == "const":
        return f32(offset)
    if style == "grid":
        return f32(offset + scale * rng.randint(-8, 8) / 8.0)
    return f32(offset + scale * (rng.random() * 2 - 1))


def make_values(rng, dtype, ncomp, n, style=None):
    """n value tuples -> bytes; duplicate-heavy pools with probability"""
    if dtype == 9:
        style = style or rng.choice(["rand", "rand", "grid", "const"])
        scale = 10.0 ** rng.randint(-3, 4)
        offset = rng.choice([0.0, 0.0, 1.0, -5.0, 1000.0, 1e6, -1e5]) if rng.random() < 0.6 else 0.0
        vals = [[rand_float_value(rng, style, scale, offset) for _ in range(ncomp)] for _ in range(n)]
        if rng.random() < 0.15:
            for v in vals:      # one constant component
                v[0] = f32(offset)
    elif dtype in (7, 8, 10, 11):
        lim = {7: (-2 ** 63, 2 ** 63 - 1), 8: (0, 2 ** 64 - 1), 11: (0, 1)}
        if dtype == 10:
            vals = [[rng.random() * 100 for _ in range(ncomp)] for _ in range(n)]
        else:
            vals = [[rng.randint(*lim[dtype]) for _ in range(ncomp)] for _ in range(n)]
    else:
        style = style or rng.choice(["small", "mid", "bounds", "full"])
        vals = [[rand_int_value(rng, dtype, style) for _ in range(ncomp)] for _ in range(n)]
    if n > 2 and rng.random() < 0.3:
        for i in range(n):      # duplicates
            if rng.random() < 0.3:
                vals[i] = list(vals[rng.randrange(n)])
    fmt = "<" + DT_FMT[dtype] * ncomp
    return b"".join(struct.pack(fmt, *v) for v in vals)


def make_normals(rng, n):
    out = []
    for _ in range(n):
        r = rng.random()
        if r < 0.1:
            v = rng.choice([(1, 0, 0), (0, 1, 0), (0, 0, 1), (-1, 0, 0), (0, -1, 0), (0, 0, -1), (1, 1, 0), (1, 1, 1), (-1, 1, -1)])
            v = tuple(float(x) + (rng.random() - 0.5) * 1e-3 * (rng.random() < 0.5) for x in v)
        else:
            v = (rng.gauss(0, 1), rng.gauss(0, 1), rng.gauss(0, 1))
        s = 10.0 ** rng.choice([0, 0, 0, -3, 3]) if rng.random() < 0.2 else 1.0
        nrm = sum(x * x for x in v) ** 0.5 or 1.0
        out.append(struct.pack("<fff", *(f32(x / nrm * s) for x in v)))
    return b"".join(out)


# ------------------------------------------------------------------ topologies (over vertex ids)

def topo_grid(rng, w, h):
    faces = []
    for y in range(h):
        for x in range(w):
            a, b, c, d = y * (w + 1) + x, y * (w + 1) + x + 1, (y + 1) * (w + 1) + x, (y + 1) * (w + 1) + x + 1
            if rng.random() < 0.5:
                faces += [(a, b, c), (b, d, c)]
            else:
                faces += [(a, b, d), (a, d, c)]
    return (w + 1) * (h + 1), faces


def topo_closed(rng):
    k = rng.choice(["tetra", "octa", "cube", "torus"])
    if k == "tetra":
        return 4, [(0, 1, 2), (0, 3, 1), (1, 3, 2), (2, 3, 0)]
    if k == "octa":
        return 6, [(0, 2, 4), (2, 1, 4), (1, 3, 4), (3, 0, 4), (2, 0, 5), (1, 2, 5), (3, 1, 5), (0, 3, 5)]
    if k == "cube":
        q = [(0, 1, 3, 2), (4, 6, 7, 5), (0, 4, 5, 1), (2, 3, 7, 6), (0, 2, 6, 4), (1, 5, 7, 3)]
        f = []
        for a, b, c, d in q:
            f += [(a, b, c), (a, c, d)]
        return 8, f
    w, h = rng.randint(3, 6), rng.randint(3, 6)
    f = []
    for y in range(h):
        for x in range(w):
            a, b = y * w + x, y * w + (x + 1) % w
            c, d = ((y + 1) % h) * w + x, ((y + 1) % h) * w + (x + 1) % w
            f += [(a, b, c), (b, d, c)]
    return w * h, f


def topo_fan_on_edge(rng):
    k = rng.randint(3, 6)       # k faces sharing edge (0,1)
    return 2 + k, [(0, 1, 2 + i) if i % 2 == 0 or rng.random() < 0.5 else (1, 0, 2 + i) for i in range(k)]


def topo_bowtie(rng):
    # two fans sharing vertex 0
    f = []
    n = 1
    for _ in range(rng.randint(2, 3)):
        k = rng.randint(1, 4)
        ring = list(range(n, n + k + 1))
        n += k + 1
        for i in range(k):
            f.append((0, ring[i], ring[i + 1]))
    return n, f


def topo_soup(rng, nv, nf):
    faces = []
    for _ in range(nf):
        if faces and rng.random() < 0.6:
            a, b, c = rng.choice(faces)
            e = rng.choice([(a, b), (b, c), (c, a)])
            faces.append((e[1], e[0], rng.randrange(nv)) if rng.random() < 0.8 else (e[0], e[1], rng.randrange(nv)))
        else:
            faces.append((rng.randrange(nv), rng.randrange(nv), rng.randrange(nv)))
    return nv, faces


def rand_topology(rng, size):
    """returns (family, num_vertices, faces over vertex ids)"""
    fam = rng.choice(["grid", "grid", "closed", "fan_on_edge", "bowtie", "soup", "soup", "components", "special"])
    if fam == "grid":
        w = rng.randint(1, max(1, int(size ** 0.5)))
        h = rng.randint(1, max(1, size // (2 * w)))
        nv, f = topo_grid(rng, w, h)
    elif fam == "closed":
        nv, f = topo_closed(rng)
    elif fam == "fan_on_edge":
        nv, f = topo_fan_on_edge(rng)
    elif fam == "bowtie":
        nv, f = topo_bowtie(rng)
    elif fam == "soup":
        nv = rng.randint(3, max(3, size // 2))
        nv, f = topo_soup(rng, nv, rng.randint(1, max(1, size)))
    elif fam == "components":
        nv, f = 0, []
        for _ in range(rng.randint(2, 4)):
            n2, f2 = rand_topology(rng, max(2, size // 3))[1:]
            f += [tuple(i + nv for i in t) for t in f2]
            nv += n2
    else:
        k = rng.choice(["empty", "one", "degenerate", "dup", "flipped"])
        if k == "empty":
            nv, f = rng.randint(0, 3), []
        elif k == "one":
            nv, f = 3, [(0, 1, 2)]
        elif k == "degenerate":
            nv, f = 4, [(0, 1, 2), (1, 1, 3), (2, 2, 2), (0, 2, 3)]
        elif k == "dup":
            nv, f = 4, [(0, 1, 2), (0, 1, 2), (1, 2, 0), (0, 2, 3)]
        else:
            nv, f = 4, [(0, 1, 2), (2, 1, 0), (0, 2, 3)]
        fam = "special_" + k
    # sprinkle duplicates / flips / degenerate faces
    if f and rng.random() < 0.15:
        f = f + [rng.choice(f)]
    if f and rng.random() < 0.1:
        a, b, c = rng.choice(f)
        f = f + [(c, b, a)]
    if f and rng.random() < 0.1:
        a, b, c = rng.choice(f)
        f = f + [(a, a, b)]
    if f and rng.random() < 0.3:
        f = list(f)
        rng.shuffle(f)
    return fam, nv, f


# ------------------------------------------------------------------ attributes on top of a topology

ATT_CHOICES = [
    # (att_type, dtype choices, ncomp choices, normalized?)
    (POSITION, ["f32", "f32", "f32", "i32", "i16", "u16"], [3, 3, 3, 2], False),
    (NORMAL, ["f32"], [3], False),
    (COLOR, ["u8", "u8", "u16", "f32"], [3, 4, 1], True),
    (TEX_COORD, ["f32", "f32", "u16"], [2], False),
    (GENERIC, ["i8", "u8", "i16", "u16", "i32", "u32", "f32"], [1, 2, 3, 4, 5], False),
]


def rand_att_specs(rng, with_position=True, max_atts=4, allow_wide=False):
    specs = []
    uid_pool = rng.sample(range(0, 40), 8)
    if with_position:
        dt = rng.choice(ATT_CHOICES[0][1])
        specs.append((POSITION, DT[dt], rng.choice(ATT_CHOICES[0][2]), False))
    for _ in range(rng.randint(0, max_atts - 1)):
        t, dts, ncs, nz = rng.choice(ATT_CHOICES[1:])
        dt = rng.choice(dts)
        if allow_wide and rng.random() < 0.1:
            dt = rng.choice(["i64", "u64", "f64", "bool"])
        specs.append((t, DT[dt], rng.choice(ncs), nz and rng.random() < 0.7))
    sequential_uid = rng.random() < 0.5
    return [(t, d, c, nz, (i if sequential_uid else uid_pool[i])) for i, (t, d, c, nz) in enumerate(specs)]


def make_attr_values(rng, t, dtype, ncomp, n):
    if t == NORMAL and dtype == 9 and ncomp == 3:
        return make_normals(rng, n)
    return make_values(rng, dtype, ncomp, n)


def rand_point_cloud(rng, size, specs=None, dedup_maps=True):
    n = rng.randint(0, size) if rng.random() < 0.05 else rng.randint(1, max(1, size))
    specs = specs or rand_att_specs(rng)
    atts = []
    for (t, d, c, nz, uid) in specs:
        if dedup_maps and n > 0 and rng.random() < 0.3:
            nv = rng.randint(1, n)
            amap = [rng.randrange(nv) for _ in range(n)]
            atts.append(Attr(t, d, c, nz, uid, nv, amap, make_attr_values(rng, t, d, c, nv)))
        else:
            atts.append(Attr(t, d, c, nz, uid, n, None, make_attr_values(rng, t, d, c, n)))
    return Geom(False, n, [], atts)


def rand_mesh(rng, size, specs=None, topo=None, no_dedup=None, isolated=None):
    """mesh whose point ids are distinct corner tuples (position index, per-attribute value index);
    topo = (family, num_vertices, faces) overrides the random topology"""
    fam, nv, vfaces = topo if topo is not None else rand_topology(rng, size)
    specs = specs or rand_att_specs(rng)
    ncorn = 3 * len(vfaces)
    # per attribute: corner -> value index
    layouts = []
    corner_vertex = [v for f in vfaces for v in f]
    for k, (t, d, c, nz, uid) in enumerate(specs):
        if k == 0:
            lay, nval = list(corner_vertex), nv
        else:
            r = rng.random()
            if r < 0.45:        # per vertex
                lay, nval = list(corner_vertex), nv
            elif r < 0.8:       # seams: some corners get their own value
                lay, nval = list(corner_vertex), nv
                for ci in range(ncorn):
                    if rng.random() < 0.25:
                        lay[ci] = nval
                        nval += 1
            elif r < 0.9:       # per face
                lay = [ci // 3 for ci in range(ncorn)]
                nval = max(1, len(vfaces))
            else:               # per corner
                lay, nval = list(range(ncorn)), max(1, ncorn)
        layouts.append((lay, max(nval, 1)))
    # points = distinct tuples (optionally not deduplicated)
    no_dedup = rng.random() < 0.1 if no_dedup is None else no_dedup
    point_of = {}
    tuples = []
    faces = []
    for fi in range(len(vfaces)):
        f = []
        for j in range(3):
            ci = 3 * fi + j
            key = tuple(l[0][ci] for l in layouts)
            if no_dedup and rng.random() < 0.3:
                pid = len(tuples)
                tuples.append(key)
            elif key in point_of:
                pid = point_of[key]
            else:
                pid = len(tuples)
                point_of[key] = pid
                tuples.append(key)
            f.append(pid)
        faces.append(tuple(f))
    # isolated points
    for _ in range(rng.randint(1, 3) if (rng.random() < 0.15 if isolated is None else isolated) else 0):
        tuples.append(tuple(rng.randrange(l[1]) for l in layouts))
    # vertices never referenced stay as unused values
    npnt = len(tuples)
    if rng.random() < 0.3 and npnt > 1:
        perm = list(range(npnt))
        rng.shuffle(perm)
        tuples = [tuples[perm.index(i)] for i in range(npnt)] if npnt < 400 else tuples
        if npnt < 400:
            faces = [tuple(perm[i] for i in f) for f in faces]
    atts = []
    for k, (t, d, c, nz, uid) in enumerate(specs):
        nval = layouts[k][1]
        amap = [tp[k] for tp in tuples]
        vals = make_attr_values(rng, t, d, c, nval)
        if amap == list(range(npnt)) and nval == npnt and rng.random() < 0.7:
            atts.append(Attr(t, d, c, nz, uid, nval, None, vals))
        else:
            atts.append(Attr(t, d, c, nz, uid, nval, amap, vals))
    g = Geom(True, npnt, faces, atts)
    g.family = fam
    return g


def rand_wall_mesh(rng, n=None):
    """extrusion along z of a polyline in the xy plane (faces parallel to the z axis) with per-vertex
    normals tilted off the face normal and optionally facing the back side of the winding"""
    n = n or rng.randint(2, 8)
    ang = rng.random() * 6.283
    import math
    pts = []
    x, y = 0.0, 0.0
    for i in range(n + 1):
        pts.append((x, y))
        ang += rng.choice([0.0, 0.0, 0.3, -0.4])
        x += math.cos(ang)
        y += math.sin(ang)
    h = rng.randint(1, 3)
    pos, faces = [], []
    for j in range(h + 1):
        for (px, py) in pts:
            pos.append((px, py, float(j)))
    w = n + 1
    back = rng.random() < 0.5
    for j in range(h):
        for i in range(n):
            a, b, c, d = j * w + i, j * w + i + 1, (j + 1) * w + i, (j + 1) * w + i + 1
            faces += [(a, b, c), (b, d, c)]
    nv = len(pos)
    normals = []
    tilt = rng.choice([0.0, 0.2, 0.35])
    for k in range(nv):
        i = min(k % w, n - 1)
        dx, dy = pts[i + 1][0] - pts[i][0], pts[i + 1][1] - pts[i][1]
        nx, ny, nz = dy, -dx, tilt * rng.choice([1.0, -1.0])
        if back:
            nx, ny, nz = -nx, -ny, -nz
        l = math.sqrt(nx * nx + ny * ny + nz * nz) or 1.0
        normals.append((nx / l, ny / l, nz / l))
    scale = rng.choice([1.0, 10.0, 0.37])
    pv = b"".join(struct.pack("<fff", *(f32(c * scale) for c in p)) for p in pos)
    nvb = b"".join(struct.pack("<fff", *(f32(c) for c in nrm)) for nrm in normals)
    g = Geom(True, nv, faces, [Attr(POSITION, DT["f32"], 3, False, 0, nv, None, pv),
                               Attr(NORMAL, DT["f32"], 3, False, 1, nv, None, nvb)])
    g.family = "wall"
    return g
