#!/usr/bin/env python3
"""Appends legacy (bitstream < 2.3) kd-tree point cloud streams to the frozen C05 corpus (run ONCE, slice kd).

No shipped .drc file uses the legacy kd-tree layouts and the current encoder only writes 2.3, so the streams are
assembled the way props/kdlegacy.py does it: the harness op `legacykd` wraps the payload of the library's own
DynamicIntegerPointsKdTreeEncoder / FloatPointsTreeEncoder of the tree at freeze time into a 2.x header, and
`kdlegacy.variants` re-lays the same payload out for older versions (u32 attribute count < 2.0, u16 unique id < 1.3,
fixed 32-bit rANS section sizes < 2.2) with other descriptor blocks.  Only streams that the decoder of the tree at freeze
time accepts are kept.  They are stored as corpus/legacy/kdlegacy_*.drc (kind "legacy": a file, no encoder input) with
the same index fields as the testdata files; corpus/decodes.txt.xz gets their ordered decodes appended.

usage: VERIF_REPO=… tools/freeze_kdlegacy.py      refuses to run when kdlegacy_* entries already exist"""
import json
import os
import random
import sys

sys.path.insert(0, os.path.dirname(os.path.abspath(__file__)))
from vlib import common as C  # noqa: E402
from vlib import implside  # noqa: E402
from props import corpus as K  # noqa: E402
from props import kdlegacy as L  # noqa: E402
from props import geomgen as G  # noqa: E402
from freeze_corpus import sha  # noqa: E402

SEED = "draco-c05-kdlegacy-v1"


def main():
    idx = json.load(open(K.INDEX))
    if any(e["name"].startswith("legacy/kdlegacy_") for e in idx["entries"]):
        print("legacy kd-tree streams are already frozen; frozen history is never regenerated")
        return 2
    rng = random.Random(SEED)
    hd = implside.ensure(["plain"])["plain"]
    work = os.path.join(C.CACHE, "freeze-kdlegacy")
    lines = []
    for level, minor, dim, bl, n in ((0, 0, 3, 10, 40), (1, 1, 2, 16, 70), (2, 2, 3, 8, 100), (3, 2, 1, 16, 30),
                                     (4, 2, 4, 4, 65), (5, 2, 3, 12, 130), (6, 2, 5, 8, 90), (6, 2, 3, 0, 4)):
        coords = ",".join(str(rng.randrange(1 << bl) if bl else 0) for _ in range(n * dim))
        lines.append(f"legacykd int {minor} {level} {dim} {bl} {coords}")
    for q, n, scale in ((4, 3, 1.0), (11, 40, 10.0), (14, 100, 1000.0)):
        bits = ",".join(str(G.f32_bits(G.f32(rng.random() * scale - scale / 3))) for _ in range(3 * n))
        lines.append(f"legacykd float 2 {q} {bits}")
    outs = implside.run_ops(hd, lines, work, "legacykd")
    cand = []
    for l, o in zip(lines, outs):
        if not o.startswith("ok "):
            raise SystemExit(f"legacykd failed: {l[:60]} -> {o[:60]}")
        b = bytes.fromhex(o.split()[1])
        t = l.split()
        cand.append((f"{t[1]}_v2.{t[2]}_" + (f"l{t[3]}_d{t[4]}" if t[1] == "int" else f"q{t[3]}"), b))
        for tags, note, v in L.variants(rng, b, 3):
            if "variant:ok" in tags:
                cand.append((f"{t[1]}_{tags[1]}_" + (f"l{t[3]}" if t[1] == "int" else f"q{t[3]}") + f"_a{note.split(', ')[1].split()[0]}", v))
    ops = []
    for _, b in cand:
        ops += ["dec - " + b.hex(), "dec 01234 " + b.hex()]
    outs = implside.run_ops(hd, ops, work, "dec")
    seen, kept, dec_lines = set(), [], []
    for i, (name, b) in enumerate(cand):
        d, ds = outs[2 * i], outs[2 * i + 1]
        if not d.startswith("ok ") or b in seen:
            continue
        seen.add(b)
        f = f"kdlegacy_{len(kept):02d}_{name}.drc"
        with open(os.path.join(K.ROOT, "legacy", f), "wb") as fh:
            fh.write(b)
        hdr = K.header_of(b)
        e = {"name": "legacy/" + f, "kind": "legacy", "file": "legacy/" + f, "size": len(b), "sha256": sha(b),
             "decode_sha256": sha(d), "decode_status": "ok", "decode_head": [t[:48] for t in d.split()[:8]],
             "decode_skip_sha256": sha(ds), "version": f"{hdr[0]}.{hdr[1]}", "class": K.stream_class(b),
             "origin": "assembled by tools/freeze_kdlegacy.py (harness op legacykd + props/kdlegacy.variants)"}
        kept.append(e)
        dec_lines.append(f"{e['name']} {d}")
    idx["entries"] += kept
    idx.setdefault("appended", []).append({"seed": SEED, "entries": len(kept),
                                           "source_digest": implside.ensure(["plain"]).get("digest")})
    C.write_json(K.INDEX, idx)
    p = os.path.join(K.ROOT, "decodes.txt.xz")
    K.write_xz(p, K.read_xz(p).rstrip("\n") + "\n" + "\n".join(dec_lines) + "\n")
    print(f"appended {len(kept)} legacy kd-tree streams ({sum(e['size'] for e in kept)} bytes)")
    problems = K.verify()
    for pr in problems:
        print("CORPUS-PROBLEM", pr)
    return 1 if problems else 0


if __name__ == "__main__":
    sys.exit(main())
