#!/bin/bash
# usage: mut_prepare.sh <name>  — scratch worktree /tmp/mut_<name> of /repo, configured with tests
set -e
d=/tmp/mut_$1
/verif/tools/mkworktree.sh "$d" >/dev/null
cd "$d"
cmake -G Ninja -S . -B _build -DCMAKE_BUILD_TYPE=RelWithDebInfo -DDRACO_TESTS=ON -DDRACO_BACKWARDS_COMPATIBILITY=ON -DCMAKE_CXX_FLAGS=-Wno-error > _build_cfg.log 2>&1
echo "$d"
