#!/usr/bin/env python3
"""prints the prompt for a mutation-seeding sub-agent: only the property's text + its worktree"""
import json, sys
pid = sys.argv[1]
n = sys.argv[2] if len(sys.argv) > 2 else "two"
tag = sys.argv[3] if len(sys.argv) > 3 else pid
for l in open('/verif/properties.jsonl'):
    p = json.loads(l)
    if p['id'] == pid:
        break
print(f"""You are working in a scratch git worktree of the open-source google/draco library (3D mesh / point-cloud compression, C++) at /tmp/mut_{tag}. It has a configured CMake/Ninja build directory `_build` (build: `cd /tmp/mut_{tag} && cmake --build _build -j6`; run the test suite: `./_build/draco_tests` and `./_build/draco_factory_tests` from /tmp/mut_{tag}). On the UNMODIFIED tree every test passes except exactly two that always fail for lack of test data in this sandbox: ObjDecoderTest.TestObjDecodingAll and ObjEncoderTest.TestObjEncodingAll. The sandbox has no network. Work only inside /tmp/mut_{tag}; do not read or touch /verif, /repo or any other /tmp/mut_* directory.

Here is a semantic property that the library is supposed to satisfy:

  Title: {p['title']}
  Statement: {p['statement']}
  Quantified over: {p['quantifier']['text']}
  Code it is anchored in: {', '.join(p['anchors']['files'])}

YOUR TASK: produce {n} independent, realistic source changes ("mutants") to the library (files under src/draco, not the tests), EACH of which on its own BREAKS this property while the library still compiles and the existing test suite gives exactly the same results as on the unmodified tree (all pass except the two named above). Think of changes a developer could plausibly make: a refactoring slip, an "optimisation", an off-by-one, a dropped or weakened check, a changed constant, a reordered step, a member that is no longer reset, two cooperating sites that each look fine alone. IMPORTANT: prefer changes that need something SPECIFIC to manifest — an unusual input, a particular value range or size, a multi-step sequence of operations, a particular option combination, a boundary case — not changes that any ordinary use of the library would expose at once (the existing tests must not notice them). The two mutants should be in different functions/mechanisms.

For each mutant k (1, 2, …) deliver in /tmp/mut_{tag}/out/k/ :
  - patch.diff : `git diff` against HEAD, must apply cleanly with `git apply` on the unmodified tree;
  - demo.cc    : a small standalone C++17 program using the library's API (compile: `g++ -std=c++17 -O1 -I/tmp/mut_{tag}/src -I/tmp/mut_{tag}/_build demo.cc /tmp/mut_{tag}/_build/libdraco.a -o demo`) that exits 0 and prints PASS when the property holds on its input(s) and exits non-zero printing what went wrong when the property is violated;
  - meta.json  : {{"property": "{pid}", "summary": "...what the change is...", "needs_to_manifest": "...what specific input/sequence/options are needed...", "files_changed": [...], "demo_compile": "...", "verified": {{"tests_same_as_baseline": true/false, "demo_fails_with_patch": true/false, "demo_passes_without_patch": true/false}}}}.
You MUST verify all of this yourself: (a) with the patch applied: the library builds, `./_build/draco_tests` and `./_build/draco_factory_tests` give the same pass/fail set as the unmodified tree, and the demo FAILS; (b) without the patch: the demo PASSES. Rebuild the library and re-link the demo for each state. If a candidate mutant is caught by the existing tests or does not actually violate the property, discard it and find another. At the end leave the worktree with NO patch applied (`git checkout -- src`) and remove any stray build products outside `_build` and `out`. Final answer: for each mutant a 3-line description (what, why it breaks the property, what it needs to manifest) and the verification results.""")
