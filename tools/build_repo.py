#!/usr/bin/env python3
"""Out-of-tree build of /repo's *current working tree* plus the C++ harness.

The sources are mirrored (content-compared, so that mtimes in /repo do not matter) into
/verif/.cache/mirror and built per flavour in /verif/.cache/build-<flavour> with -DDRACO_VERIF.
Nothing is read from /repo/_build and nothing is written to /repo.

  flavours:  plain  (-O1)                         correspondence runs
             asan   (-O1 -fsanitize=address,undefined -fno-sanitize-recover=all)
             tsan   (-O1 -fsanitize=thread)

usage: build_repo.py [flavour ...]      prints the harness path per flavour
"""
import fcntl
import hashlib
import os
import shutil
import subprocess
import sys
import time

VERIF = os.path.dirname(os.path.dirname(os.path.abspath(__file__)))
REPO = os.environ.get("VERIF_REPO", "/repo")
CACHE = os.path.join(VERIF, ".cache")
MIRROR = os.path.join(CACHE, "mirror")
HARNESS_SRC = os.path.join(VERIF, "harness")

FLAVOURS = {
    "plain": "-O1 -g0",
    "asan": "-O1 -g -fsanitize=address,undefined -fno-sanitize-recover=all -fno-omit-frame-pointer",
    "tsan": "-O1 -g -fsanitize=thread",
}
GUARD = "-DDRACO_VERIF"
MIRRORED = ["src", "cmake", "CMakeLists.txt"]


def log(*a):
    print("[build_repo]", *a, file=sys.stderr, flush=True)


def sync_mirror():
    """rsync by checksum, without preserving times: a changed file gets a fresh mtime."""
    os.makedirs(MIRROR, exist_ok=True)
    for item in MIRRORED:
        src = os.path.join(REPO, item)
        if os.path.isdir(src):
            os.makedirs(os.path.join(MIRROR, item), exist_ok=True)
            cmd = ["rsync", "-rc", "--delete", src + "/", os.path.join(MIRROR, item) + "/"]
        else:
            cmd = ["rsync", "-c", src, os.path.join(MIRROR, item)]
        subprocess.run(cmd, check=True)


def source_digest():
    h = hashlib.sha256()
    for item in MIRRORED:
        p = os.path.join(MIRROR, item)
        if os.path.isdir(p):
            for root, dirs, files in os.walk(p):
                dirs.sort()
                for f in sorted(files):
                    fp = os.path.join(root, f)
                    h.update(os.path.relpath(fp, MIRROR).encode())
                    with open(fp, "rb") as fh:
                        h.update(hashlib.sha256(fh.read()).digest())
        else:
            with open(p, "rb") as fh:
                h.update(fh.read())
    return h.hexdigest()


def run(cmd, cwd=None, logfile=None):
    p = subprocess.run(cmd, cwd=cwd, stdout=subprocess.PIPE, stderr=subprocess.STDOUT, text=True)
    if logfile:
        with open(logfile, "w") as f:
            f.write(p.stdout)
    return p.returncode, p.stdout


def write_harness_ninja(bdir, flags):
    hdir = os.path.join(bdir, "harness")
    os.makedirs(hdir, exist_ok=True)
    srcs = sorted(f for f in os.listdir(HARNESS_SRC) if f.endswith(".cc"))
    mains = [s for s in srcs if s.endswith("_main.cc")]
    common = [s for s in srcs if not s.endswith("_main.cc") and not s.startswith("probe_")]
    probes = [s for s in srcs if s.startswith("probe_")]
    inc = f"-I{MIRROR}/src -I{bdir} -I{HARNESS_SRC}"
    lines = [
        f"cxxflags = -std=c++17 {flags} {GUARD} {inc} -Wno-deprecated-declarations",
        "rule cxx",
        "  command = g++ $cxxflags -MD -MF $out.d -c $in -o $out",
        "  depfile = $out.d",
        "  deps = gcc",
        "rule link",
        f"  command = g++ {flags} $in -o $out -lpthread",
    ]
    lib = os.path.join(bdir, "libdraco.a")
    lines += ["rule linkwhole",
              f"  command = g++ {flags} $in -Wl,--whole-archive {lib} -Wl,--no-whole-archive -o $out -lpthread"]
    for s in srcs:
        lines.append(f"build {s}.o: cxx {os.path.join(HARNESS_SRC, s)}")
    cobjs = " ".join(c + ".o" for c in common)
    outs = []
    for m in mains + probes:
        exe = m[:-3]
        objs = cobjs if m in mains else ""
        lines.append(f"build {exe}: link {m}.o {objs} {lib}")
        outs.append(exe)
    # C15: the command line tools, compiled from the mirrored tree and linked against the same library
    for tool in ("draco_encoder", "draco_decoder"):
        src = os.path.join(MIRROR, "src", "draco", "tools", tool + ".cc")
        if os.path.exists(src):
            lines.append(f"build {tool}.tool.o: cxx {src}")
            # whole archive: the file reader / writer factories are filled by static initialisers of
            # stdio_file_reader.o / stdio_file_writer.o, which a plain archive link would drop
            lines.append(f"build {tool}: linkwhole {tool}.tool.o | {lib}")
            outs.append(tool)
    lines.append("default " + " ".join(outs))
    content = "\n".join(lines) + "\n"
    path = os.path.join(hdir, "build.ninja")
    old = open(path).read() if os.path.exists(path) else None
    if old != content:
        with open(path, "w") as f:
            f.write(content)
    return hdir


def build(flavour):
    flags = FLAVOURS[flavour]
    bdir = os.path.join(CACHE, "build-" + flavour)
    os.makedirs(bdir, exist_ok=True)
    t0 = time.time()
    if not os.path.exists(os.path.join(bdir, "build.ninja")):
        rc, out = run(["cmake", "-G", "Ninja", "-S", MIRROR, "-B", bdir,
                       "-DCMAKE_BUILD_TYPE=None",
                       f"-DCMAKE_CXX_FLAGS={flags} {GUARD} -Wno-error",
                       "-DDRACO_TESTS=OFF", "-DDRACO_BACKWARDS_COMPATIBILITY=ON",
                       "-DDRACO_TRANSCODER_SUPPORTED=OFF"],
                      logfile=os.path.join(bdir, "configure.log"))
        if rc != 0:
            log(out[-3000:])
            raise SystemExit(f"cmake configure failed for {flavour}")
    rc, out = run(["cmake", "--build", bdir, "--target", "draco_static", "-j", str(os.cpu_count() or 8)],
                  logfile=os.path.join(bdir, "build.log"))
    if rc != 0:
        log(out[-4000:])
        raise SystemExit(f"BUILD-FAILED flavour={flavour}: /repo does not compile")
    hdir = write_harness_ninja(bdir, flags)
    rc, out = run(["ninja", "-C", hdir], logfile=os.path.join(hdir, "build.log"))
    if rc != 0:
        log(out[-6000:])
        raise SystemExit(f"HARNESS-BUILD-FAILED flavour={flavour}")
    log(f"{flavour}: ok in {time.time() - t0:.1f}s")
    return hdir


def ensure(flavours):
    os.makedirs(CACHE, exist_ok=True)
    with open(os.path.join(CACHE, "build.lock"), "w") as lock:
        fcntl.flock(lock, fcntl.LOCK_EX)
        sync_mirror()
        res = {}
        for fl in flavours:
            res[fl] = build(fl)
        res["digest"] = source_digest()
        return res


if __name__ == "__main__":
    fl = sys.argv[1:] or ["plain"]
    r = ensure(fl)
    for k, v in r.items():
        print(k, v)
