#!/usr/bin/env python3
"""Appends legacy (bitstream 1.0 … 2.1) MESH streams to the frozen C05 corpus (run ONCE, slice eb follow-up 4).

The current encoder only writes 2.2 and the shipped legacy files are a dozen small meshes, so the streams are assembled
the way props/meshlegacy.py does it: a 2.2 Edgebreaker (standard traversal) or sequential mesh stream of the encoder of
the tree at freeze time is re-laid out field by field for an older bitstream version (`meshlegacy.relayout_eb` /
`relayout_seq`).  Only streams that the decoder of the tree at freeze time accepts WITH THE GEOMETRY OF THE 2.2 ORIGINAL
are kept.  They are stored as corpus/legacy/meshlegacy_*.drc (kind "legacy": a file, no encoder input) with the same
index fields as the testdata files; corpus/decodes.txt.xz gets their ordered decodes appended.

usage: VERIF_REPO=… tools/freeze_meshlegacy.py      refuses to run when meshlegacy_* entries already exist"""
import json
import os
import random
import sys

sys.path.insert(0, os.path.dirname(os.path.abspath(__file__)))
from vlib import common as C  # noqa: E402
from vlib import implside  # noqa: E402
from props import corpus as K  # noqa: E402
from props import meshlegacy as L  # noqa: E402
from freeze_corpus import sha  # noqa: E402

SEED = "draco-c05-meshlegacy-v1"
TARGET = 40


def main():
    idx = json.load(open(K.INDEX))
    if any(e["name"].startswith("legacy/meshlegacy_") for e in idx["entries"]):
        print("legacy mesh streams are already frozen; frozen history is never regenerated")
        return 2
    rng = random.Random(SEED)
    hd = implside.ensure(["plain"])["plain"]
    work = os.path.join(C.CACHE, "freeze-meshlegacy")
    vs, skipped = L.variants(rng, "quick", n_bases=48)
    # one stream per (kind, version) round robin, small ones first
    buckets = {}
    for kind, ver, b, v, d in vs:
        buckets.setdefault((kind, ver), []).append((len(v), v, d))
    cand = []
    keys = sorted(buckets)
    for k in keys:
        buckets[k].sort(key=lambda t: t[0])
    r = 0
    while len(cand) < TARGET and any(buckets.values()):
        for k in keys:
            if buckets[k] and len(cand) < TARGET:
                # alternate small and larger streams of the bucket
                _, v, d = buckets[k].pop(0 if r % 2 == 0 else len(buckets[k]) // 2)
                cand.append((k, v, d))
        r += 1
    ops = []
    for _, v, _ in cand:
        ops += ["dec - " + v.hex(), "dec 01234 " + v.hex()]
    outs = implside.run_ops(hd, ops, work, "dec")
    seen, kept, dec_lines = set(), [], []
    for i, ((kind, ver), v, d22) in enumerate(cand):
        d, ds = outs[2 * i], outs[2 * i + 1]
        if not d.startswith("ok ") or v in seen or d.split(" ", 2)[2] != d22.split(" ", 2)[2]:
            continue
        seen.add(v)
        f = f"meshlegacy_{len(kept):02d}_{kind}_v{ver[0]}.{ver[1]}.drc"
        with open(os.path.join(K.ROOT, "legacy", f), "wb") as fh:
            fh.write(v)
        hdr = K.header_of(v)
        e = {"name": "legacy/" + f, "kind": "legacy", "file": "legacy/" + f, "size": len(v), "sha256": sha(v),
             "decode_sha256": sha(d), "decode_status": "ok", "decode_head": [t[:48] for t in d.split()[:8]],
             "decode_skip_sha256": sha(ds), "version": f"{hdr[0]}.{hdr[1]}", "class": K.stream_class(v),
             "origin": "assembled by tools/freeze_meshlegacy.py (2.2 encoder stream + props/meshlegacy.relayout_*)"}
        kept.append(e)
        dec_lines.append(f"{e['name']} {d}")
    idx["entries"] += kept
    idx.setdefault("appended", []).append({"seed": SEED, "entries": len(kept),
                                           "source_digest": implside.ensure(["plain"]).get("digest")})
    C.write_json(K.INDEX, idx)
    p = os.path.join(K.ROOT, "decodes.txt.xz")
    K.write_xz(p, K.read_xz(p).rstrip("\n") + "\n" + "\n".join(dec_lines) + "\n")
    print(f"appended {len(kept)} legacy mesh streams ({sum(e['size'] for e in kept)} bytes); not produced: {skipped}")
    problems = K.verify()
    for pr in problems:
        print("CORPUS-PROBLEM", pr)
    return 1 if problems else 0


if __name__ == "__main__":
    sys.exit(main())
