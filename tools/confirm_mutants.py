#!/usr/bin/env python3
"""Confirms seeded changes in a scratch worktree of /repo (never in /repo itself):
   for each <staging>/<k>/ with patch.diff + demo.cc:
     baseline: demo passes;  patched: library builds, test suite gives the baseline result, demo fails.
   usage: confirm_mutants.py <name> <staging dir> [<staging dir> ...]
   writes <staging dir>/<k>/confirm.json; removes the worktree at the end."""
import json
import os
import re
import subprocess
import sys


def sh(cmd, cwd=None, timeout=3600):
    p = subprocess.run(cmd, shell=True, cwd=cwd, stdout=subprocess.PIPE, stderr=subprocess.STDOUT, text=True, errors="replace", timeout=timeout)
    return p.returncode, p.stdout


def test_result(wt):
    rc1, o1 = sh("./_build/draco_tests --gtest_brief=1 2>&1 | tail -40", cwd=wt)
    rc2, o2 = sh("./_build/draco_factory_tests --gtest_brief=1 2>&1 | tail -10", cwd=wt)
    failed = sorted(set(re.findall(r"\[  FAILED  \] ([A-Za-z0-9_/.]+)", o1 + o2)))
    passed = re.findall(r"\[  PASSED  \] (\d+) tests", o1 + o2)
    return {"failed": failed, "passed": [int(x) for x in passed]}


def main():
    name = sys.argv[1]
    dirs = sys.argv[2:]
    wt = f"/tmp/confirm_{name}"
    sh(f"git -C /repo worktree remove --force {wt}")
    rc, o = sh(f"/verif/tools/mkworktree.sh {wt}")
    assert rc == 0, o
    try:
        rc, o = sh("cmake -G Ninja -S . -B _build -DCMAKE_BUILD_TYPE=RelWithDebInfo -DDRACO_TESTS=ON "
                   "-DDRACO_BACKWARDS_COMPATIBILITY=ON -DCMAKE_CXX_FLAGS=-Wno-error > cfg.log 2>&1 && "
                   "cmake --build _build -j12 > build.log 2>&1", cwd=wt)
        assert rc == 0, "baseline build failed"
        base = test_result(wt)
        print("baseline tests:", base, flush=True)
        for d in dirs:
            for k in sorted(os.listdir(d)):
                md = os.path.abspath(os.path.join(d, k))
                patch = os.path.join(md, "patch.diff")
                demo = os.path.join(md, "demo.cc")
                if not (os.path.isfile(patch) and os.path.isfile(demo)):
                    continue
                rep = {"patch": patch}
                comp = f"g++ -std=c++17 -O1 -I{wt}/src -I{wt}/_build {demo} {wt}/_build/libdraco.a -lpthread -o {wt}/demo_bin"
                rc, o = sh(comp)
                rep["demo_compiles"] = rc == 0
                rc, o = sh(f"timeout 900 {wt}/demo_bin", cwd=wt)
                rep["demo_passes_without_patch"] = rc == 0
                rep["demo_base_tail"] = o[-300:]
                rc, o = sh(f"git apply {patch}", cwd=wt)
                rep["patch_applies"] = rc == 0
                if rc == 0:
                    rc, o = sh("cmake --build _build -j12 > build2.log 2>&1", cwd=wt)
                    rep["builds_with_patch"] = rc == 0
                    if rc == 0:
                        t = test_result(wt)
                        rep["tests_same_as_baseline"] = t == base
                        rep["tests_with_patch"] = t
                        sh(comp)
                        rc, o = sh(f"timeout 900 {wt}/demo_bin", cwd=wt)
                        rep["demo_fails_with_patch"] = rc != 0
                        rep["demo_patched_tail"] = o[-400:]
                    sh("git checkout -- src", cwd=wt)
                    sh("cmake --build _build -j12 > build3.log 2>&1", cwd=wt)
                rep["confirmed"] = bool(rep.get("demo_passes_without_patch") and rep.get("builds_with_patch")
                                        and rep.get("tests_same_as_baseline") and rep.get("demo_fails_with_patch"))
                with open(os.path.join(md, "confirm.json"), "w") as f:
                    json.dump(rep, f, indent=1)
                print(md, "confirmed" if rep["confirmed"] else "NOT CONFIRMED", flush=True)
    finally:
        sh(f"git -C /repo worktree remove --force {wt}")


if __name__ == "__main__":
    main()
