#!/usr/bin/env python3
"""stage_batch.py <Pxx> <out dir>: copies confirmed mutants of a sub-agent's out/ dir into .cache/staging/<Pxx>/<n>
with numbers continuing after the existing seeded/<Pxx>-<k> entries; then run tools/install_seeded.py."""
import os, shutil, sys
V = os.path.dirname(os.path.dirname(os.path.abspath(__file__)))
P, out = sys.argv[1], sys.argv[2]
st = os.path.join(V, ".cache", "staging")
nums = [int(d.split("-")[1]) for d in os.listdir(os.path.join(V, "seeded")) if d.startswith(P + "-")]
if os.path.isdir(os.path.join(st, P)):
    nums += [int(k) for k in os.listdir(os.path.join(st, P))]
n = max(nums or [0])
for k in sorted(os.listdir(out)):
    src = os.path.join(out, k)
    if not os.path.isfile(os.path.join(src, "confirm.json")):
        continue
    n += 1
    dst = os.path.join(st, P, str(n))
    os.makedirs(os.path.dirname(dst), exist_ok=True)
    shutil.copytree(src, dst)
    print("staged", dst)
