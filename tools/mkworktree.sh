#!/bin/bash
# usage: mkworktree.sh <dir>   — scratch git worktree of /repo with googletest available
set -e
d=$1
git -C /repo worktree add --detach "$d" HEAD >/dev/null 2>&1
rmdir "$d/third_party/googletest" 2>/dev/null || true
ln -s /repo/third_party/googletest "$d/third_party/googletest"
echo "$d"
