#!/usr/bin/env python3
"""rewrites the last column of DESIGN.md §0.2 (seeded changes caught) from seeded/*/meta.json"""
import json, os, re, collections
V = os.path.dirname(os.path.dirname(os.path.abspath(__file__)))
by = collections.defaultdict(lambda: [0, 0, [], []])
for d in sorted(os.listdir(os.path.join(V, "seeded"))):
    f = os.path.join(V, "seeded", d, "meta.json")
    if not os.path.isfile(f):
        continue
    m = json.load(open(f)); p = d.split("-")[0]
    b = by[p]; b[0] += 1
    det = m.get("detection", {}).get(p) or {}
    if m.get("retired"):
        b[3].append(d + " retired")
    elif det.get("verdict") == "caught":
        b[1] += 1
        if det.get("no_failing_input_found"):
            b[2].append(d)
    else:
        b[3].append(d + " " + str(det.get("verdict") or "not run"))
p = os.path.join(V, "DESIGN.md")
s = open(p).read()
a = s.index("### 0.2 Properties"); z = s.index("### 0.3")
sec = s[a:z].split("\n")
for i, l in enumerate(sec):
    m = re.match(r"\| (C\d\d) \|", l)
    if not m:
        continue
    cells = l.rstrip().rstrip("|").split(" | ")
    b = by[m.group(1)]
    txt = f"{b[1]} of {b[0]} caught" + (f" ({', '.join(b[2])}: no failing input found)" if b[2] else "") + (f"; {', '.join(b[3])}" if b[3] else "") + " — §14"
    cells[-1] = txt
    sec[i] = " | ".join(cells) + " |"
s = s[:a] + "\n".join(sec) + s[z:]
open(p, "w").write(s)
