#!/usr/bin/env python3
"""prints the markdown table of seeded changes and the recorded detection verdicts (seeded/*/meta.json)"""
import json, os
V = os.path.dirname(os.path.dirname(os.path.abspath(__file__)))
rows = []
for d in sorted(os.listdir(os.path.join(V, "seeded")), key=lambda x: (x.split("-")[0], int(x.split("-")[1]))):
    m = json.load(open(os.path.join(V, "seeded", d, "meta.json")))
    det = m.get("detection", {})
    v = []
    for p, r in sorted(det.items()):
        if not isinstance(r, dict):
            continue
        v.append(f"{p}: {r.get('verdict')}" + (f" ({r.get('replay_kind')})" if r.get("replay_kind") else "") + (" no-failing-input-found" if r.get("no_failing_input_found") else ""))
    what = (m.get("summary") or "")[:150].replace("|", "/").replace("\n", " ")
    need = (m.get("needs_to_manifest") or "")[:110].replace("|", "/").replace("\n", " ")
    if m.get("retired"):
        v = ["retired — " + m["retired"][:160]]
    rows.append(f"| {d} | {what}… | {need}… | {'; '.join(v) or 'not run'} |")
print("| id | change | needs | verdict of the property's quick check |")
print("|---|---|---|---|")
print("\n".join(rows))
