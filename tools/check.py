#!/usr/bin/env python3
"""Single entry point:  check.py --property C17 [--tier quick|thorough]
                        check.py --replay <replay.json>
Exit 0 = property held on everything explored; exit 1 + `VIOLATION property=<id> replay=<path>`."""
import argparse
import importlib
import json
import os
import sys

sys.path.insert(0, os.path.dirname(os.path.abspath(__file__)))
from vlib import common as C  # noqa: E402
from vlib import engine  # noqa: E402


def main():
    ap = argparse.ArgumentParser()
    ap.add_argument("--property")
    ap.add_argument("--tier", default=os.environ.get("VERIF_TIER", "quick"))
    ap.add_argument("--replay")
    a = ap.parse_args()
    seed = C.seed_from_env()
    if a.replay:
        obj = json.load(open(a.replay))
        pid = obj["property"]
        P = importlib.import_module(f"props.{pid}")
        ops = obj.get("batch_ops") or ([obj["op"]] if obj.get("op") else [])
        if obj.get("env"):
            os.environ["VERIF_REPLAY_ENV"] = json.dumps(obj["env"])
            os.environ["VERIF_REPLAY_FLAVOUR"] = obj.get("flavour") or "plain"
        return engine.run_property(P, "quick", obj.get("seed", seed), replay_lines=ops)
    P = importlib.import_module(f"props.{a.property}")
    return engine.run_property(P, a.tier, seed)


if __name__ == "__main__":
    sys.exit(main())
