#!/usr/bin/env python3
"""MANIFEST.setup_cmd: build the framework from files on disk (offline).
   1. out-of-tree builds of /repo's working tree (plain, asan, tsan) + harness
   2. translator -> lean/Generated
   3. lake build of model, proofs, property theorems and the driver executable"""
import os
import sys

sys.path.insert(0, os.path.dirname(os.path.abspath(__file__)))
from vlib import common as C  # noqa: E402
from vlib import implside, leanside, translate  # noqa: E402


def main():
    t = C.Timer()
    hd = implside.ensure(["plain", "asan", "tsan"])
    print("repo builds ready", t.s(), flush=True)
    print(translate.run(hd["plain"]), flush=True)
    rc, text = leanside.lake_build([])
    print(text[-3000:])
    print("lake build rc", rc, t.s(), flush=True)
    return 0 if rc == 0 else 1


if __name__ == "__main__":
    sys.exit(main())
