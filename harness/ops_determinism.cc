// C06 — determinism of the public API: the same geometry + options encoded / decoded several times
// with fresh objects and with REUSED Encoder / ExpertEncoder / EncoderBuffer / Decoder / DecoderBuffer
// objects that carry a history of earlier calls, decode with trailing bytes, and process-level
// perturbations (ASLR off, pre-fragmented heap, valgrind) selected by environment variables.
#include <sys/personality.h>
#include <unistd.h>

#include <algorithm>
#include <random>

#include "common.h"
#include "draco/compression/decode.h"
#include "draco/compression/encode.h"
#include "draco/compression/expert_encode.h"
#include "geom_text.h"
#include "meta_text.h"

using namespace draco;

// ---------------------------------------------------------------------------------------------
// process-level perturbation, applied before main() (glibc passes argc/argv/envp to constructors)
//   VH_NO_ASLR=1        re-exec with personality(ADDR_NO_RANDOMIZE)
//   VH_VALGRIND=1       re-exec under valgrind memcheck (first error ends the run with exit code 97)
//   VH_HEAP_FRAG=<seed> allocate / free random blocks so that later allocations land in a
//                       fragmented heap with dirty (non-zero) recycled memory
static std::vector<void *> *g_keep = nullptr;

__attribute__((constructor)) static void vh_perturb(int argc, char **argv, char **) {
  (void)argc;
  if (getenv("VH_NO_ASLR") && !getenv("VH_NO_ASLR_DONE")) {
    setenv("VH_NO_ASLR_DONE", "1", 1);
    const int cur = personality(0xffffffff);
    if (cur != -1 && personality(cur | ADDR_NO_RANDOMIZE) != -1) {
      execv("/proc/self/exe", argv);
    }
    fprintf(stderr, "VH_NO_ASLR: personality/exec not permitted, continuing with ASLR\n");
  }
  if (getenv("VH_VALGRIND") && !getenv("VH_VALGRIND_DONE")) {
    setenv("VH_VALGRIND_DONE", "1", 1);
    std::vector<char *> av;
    static char a0[] = "valgrind", a1[] = "-q", a2[] = "--error-exitcode=97", a3[] = "--exit-on-first-error=yes",
                a4[] = "--track-origins=yes", a5[] = "--undef-value-errors=yes", a6[] = "--leak-check=no",
                a7[] = "--main-stacksize=268435456", a8[] = "/proc/self/exe";
    char self[4096];
    ssize_t n = readlink("/proc/self/exe", self, sizeof(self) - 1);
    if (n > 0) {
      self[n] = 0;
      for (char *x : {a0, a1, a2, a3, a4, a5, a6, a7}) av.push_back(x);
      av.push_back(self);
      for (int i = 1; argv[i]; ++i) av.push_back(argv[i]);
      av.push_back(nullptr);
      (void)a8;
      execvp("valgrind", av.data());
    }
    fprintf(stderr, "VH_VALGRIND: cannot exec valgrind\n");
    _exit(98);
  }
  if (const char *s = getenv("VH_HEAP_FRAG")) {
    std::mt19937 rng(static_cast<uint32_t>(strtoul(s, nullptr, 10)) * 2654435761u + 17u);
    std::vector<void *> blocks;
    g_keep = new std::vector<void *>();
    for (int i = 0; i < 20000; ++i) {
      size_t sz;
      switch (rng() % 6) {
        case 0: sz = 1 + rng() % 64; break;
        case 1: sz = 1 + rng() % 512; break;
        case 2: sz = 1 + rng() % 4096; break;
        case 3: sz = 1 + rng() % 65536; break;
        case 4: sz = 8 * (1 + rng() % 32); break;
        default: sz = 1 + rng() % (1 << 20); break;
      }
      if (sz > (1 << 16) && rng() % 8) sz &= 0xffff;
      void *p = malloc(sz);
      if (!p) continue;
      memset(p, 0xA5 ^ (rng() & 0xff), sz);  // dirty: recycled chunks are not zero
      blocks.push_back(p);
      if (blocks.size() > 64 && rng() % 3) {
        size_t k = rng() % blocks.size();
        free(blocks[k]);
        blocks[k] = blocks.back();
        blocks.pop_back();
      }
    }
    // free most blocks in random order, keep a sprinkling so that the holes stay separated
    std::shuffle(blocks.begin(), blocks.end(), rng);
    for (size_t i = 0; i < blocks.size(); ++i) {
      if (rng() % 7 == 0)
        g_keep->push_back(blocks[i]);
      else
        free(blocks[i]);
    }
  }
}

// det_env -> effective perturbation state of this process (not compared across environments)
VH_OP(det_env) {
  (void)a;
  const int cur = personality(0xffffffff);
  std::string s = std::string("aslr=") + ((cur != -1 && (cur & ADDR_NO_RANDOMIZE)) ? "off" : "on");
  s += std::string(" valgrind=") + (getenv("VH_VALGRIND_DONE") ? "1" : "0");
  s += std::string(" frag=") + (g_keep ? std::to_string(g_keep->size()) : "0");
  for (const char *k : {"MALLOC_PERTURB_", "MALLOC_ARENA_MAX", "MALLOC_MMAP_THRESHOLD_", "MALLOC_TOP_PAD_"})
    if (const char *v = getenv(k)) s += std::string(" ") + k + "=" + v;
  return s;
}

// det_control -> positive control of the perturbation machinery: a value computed from UNINITIALISED heap memory
//   and from an object ADDRESS, i.e. exactly what a deterministic codec must never print. The check requires that
//   this line differs between environments (else the perturbation is ineffective) and that valgrind stops on it.
VH_OP(det_control) {
  (void)a;
  volatile unsigned char *p = static_cast<unsigned char *>(malloc(600));
  unsigned sum = 0;
  for (int i = 0; i < 600; ++i) sum = sum * 31u + p[i];
  std::string r = (sum % 7u == 3u) ? "u=a" : "u=b";  // branch on uninitialised data
  r += std::to_string(sum) + " addr=" + std::to_string((reinterpret_cast<uintptr_t>(p) >> 12) & 0xfffff);
  free(const_cast<unsigned char *>(p));
  return r;
}

// ---------------------------------------------------------------------------------------------
namespace {

typedef std::map<std::string, std::string> Opts;

Opts kvs(const vh::Args &a, size_t from, size_t to) {
  Opts m;
  for (size_t i = from; i < to; ++i) {
    size_t e = a[i].find('=');
    if (e != std::string::npos) m[a[i].substr(0, e)] = a[i].substr(e + 1);
  }
  return m;
}
float f_of_bits(uint32_t b) {
  float f;
  memcpy(&f, &b, 4);
  return f;
}

// same option tokens as the `enc` op of ops_codec.cc; a rejected prediction scheme is skipped
// (identically for every object that receives this option set)
template <class EncT, class KeyFn>
void apply_opts(EncT &enc, const Opts &o, KeyFn key) {
  for (auto &kv : o) {
    const std::string &k = kv.first, &v = kv.second;
    if (k == "method") {
      enc.SetEncodingMethod(atoi(v.c_str()));
    } else if (k == "speed") {
      auto l = vh::ilist(v);
      enc.SetSpeedOptions(static_cast<int>(l[0]), static_cast<int>(l[1]));
    } else if (k == "track") {
      enc.SetTrackEncodedProperties(v == "1");
    } else if (k.size() > 1 && k[0] == 'q' && isdigit(k[1])) {
      enc.SetAttributeQuantization(key(atoi(k.c_str() + 1)), atoi(v.c_str()));
    } else if (k.size() > 1 && k[0] == 'x' && isdigit(k[1])) {
      auto l = vh::ilist(v);
      std::vector<float> org;
      for (size_t i = 2; i < l.size(); ++i) org.push_back(f_of_bits(static_cast<uint32_t>(l[i])));
      enc.SetAttributeExplicitQuantization(key(atoi(k.c_str() + 1)), static_cast<int>(l[0]),
                                           static_cast<int>(org.size()), org.data(),
                                           f_of_bits(static_cast<uint32_t>(l[1])));
    } else if (k.size() > 1 && k[0] == 'p' && isdigit(k[1])) {
      (void)enc.SetAttributePredictionScheme(key(atoi(k.c_str() + 1)), atoi(v.c_str()));
    }
  }
}
void apply_expert_only(ExpertEncoder &ee, const Opts &o) {
  auto it = o.find("submethod");
  if (it != o.end()) ee.SetEncodingSubmethod(atoi(it->second.c_str()));
  it = o.find("builtin");
  if (it != o.end()) ee.SetUseBuiltInAttributeCompression(it->second == "1");
}

struct Job {
  Opts o;
  std::unique_ptr<PointCloud> pc;
  bool is_mesh = false;
};

struct EncOut {
  bool ok = false;
  std::vector<uint8_t> bytes;
  size_t nep = 0, nef = 0;
  // the OUTPUT of an encode call: status + bytes (the point / face counters are compared separately)
  bool operator==(const EncOut &b) const { return ok == b.ok && bytes == b.bytes; }
  bool same_counts(const EncOut &b) const { return !ok || !b.ok || (nep == b.nep && nef == b.nef); }
  std::string brief() const { return ok ? std::to_string(bytes.size()) + "B" : "err"; }
};

std::string diff_of(const EncOut &ref, const EncOut &x) {
  if (ref == x) return "1";
  if (ref.ok != x.ok) return "0:status(" + ref.brief() + "/" + x.brief() + ")";
  size_t i = 0;
  while (i < ref.bytes.size() && i < x.bytes.size() && ref.bytes[i] == x.bytes[i]) ++i;
  return "0:byte" + std::to_string(i) + "(" + ref.brief() + "/" + x.brief() + ")";
}

EncOut take(const Status &st, const EncoderBuffer &buf, size_t from, size_t nep, size_t nef) {
  EncOut r;
  r.ok = st.ok();
  if (r.ok && buf.size() >= from) r.bytes.assign(buf.data() + from, buf.data() + buf.size());
  r.nep = nep;
  r.nef = nef;
  return r;
}

// per-type API
EncOut encode_with(Encoder &e, const Job &j, EncoderBuffer *buf) {
  const size_t from = buf->size();
  Status st = j.is_mesh ? e.EncodeMeshToBuffer(*static_cast<const Mesh *>(j.pc.get()), buf)
                        : e.EncodePointCloudToBuffer(*j.pc, buf);
  return take(st, *buf, from, e.num_encoded_points(), e.num_encoded_faces());
}
EncOut encode_with(ExpertEncoder &e, EncoderBuffer *buf) {
  const size_t from = buf->size();
  Status st = e.EncodeToBuffer(buf);
  return take(st, *buf, from, e.num_encoded_points(), e.num_encoded_faces());
}

// the caller's own use of an EncoderBuffer through its PUBLIC API before it is handed to an encoder:
// scalars, byte blocks, bit sequences with and without stored size, Resize, Clear (always left outside bit mode)
void exercise_buffer(EncoderBuffer &b, uint32_t seed) {
  std::mt19937 rng(seed * 2246822519u + 3u);
  const int steps = 1 + static_cast<int>(rng() % 6);
  for (int i = 0; i < steps; ++i) {
    unsigned kind = rng() % 7;
    if (i == 0 && (rng() & 1)) kind = 2;
    switch (kind) {
      case 0: {
        const uint32_t v = rng();
        b.Encode(v);
        break;
      }
      case 1: {
        char blk[40];
        const size_t n = rng() % sizeof(blk);
        for (size_t k = 0; k < n; ++k) blk[k] = static_cast<char>(rng());
        b.Encode(blk, n);
        break;
      }
      case 2:
      case 3: {
        const int64_t nbits = 1 + static_cast<int64_t>(rng() % 300);
        if (b.StartBitEncoding(nbits, kind == 2)) {
          int64_t left = rng() % (nbits + 1);
          while (left > 0) {
            const int k = static_cast<int>(std::min<int64_t>(left, 1 + rng() % 32));
            b.EncodeLeastSignificantBits32(k, rng());
            left -= k;
          }
          b.EndBitEncoding();
        }
        break;
      }
      case 4:
        b.Clear();
        break;
      case 5:
        b.Resize(static_cast<int64_t>(rng() % (b.size() + 1)));
        break;
      default: {
        const uint8_t v = static_cast<uint8_t>(rng());
        b.Encode(v);
        break;
      }
    }
  }
}

std::unique_ptr<ExpertEncoder> new_expert(const Job &main) {
  std::unique_ptr<ExpertEncoder> ee(main.is_mesh ? new ExpertEncoder(*static_cast<const Mesh *>(main.pc.get()))
                                                 : new ExpertEncoder(*main.pc));
  EncoderOptions eo = EncoderOptions::CreateDefaultOptions();
  for (auto &kv : main.o)
    if (kv.first.rfind("g:", 0) == 0) eo.SetGlobalInt(kv.first.substr(2), atoi(kv.second.c_str()));
  ee->Reset(eo);
  return ee;
}

// the decode result as text (same form as the `dec` op) through the given objects
std::string decode_via(Decoder &dec, DecoderBuffer &b, size_t stream_size_for_consumed) {
  const int64_t before = b.remaining_size();
  (void)stream_size_for_consumed;
  auto t = Decoder::GetEncodedGeometryType(&b);
  if (!t.ok()) return "err";
  if (t.value() == TRIANGULAR_MESH) {
    auto r = dec.DecodeMeshFromBuffer(&b);
    if (!r.ok()) return r.status().code() == Status::UNKNOWN_VERSION ? "err-version" : "err";
    std::unique_ptr<Mesh> m = std::move(r).value();
    return "ok " + std::to_string(before - b.remaining_size()) + " " + vh::dump_geometry(m.get(), m.get()) +
           (m->GetMetadata() ? " meta " + vh::dump_geometry_metadata(*m->GetMetadata()) : std::string());
  }
  if (t.value() == POINT_CLOUD) {
    auto r = dec.DecodePointCloudFromBuffer(&b);
    if (!r.ok()) return r.status().code() == Status::UNKNOWN_VERSION ? "err-version" : "err";
    std::unique_ptr<PointCloud> p = std::move(r).value();
    return "ok " + std::to_string(before - b.remaining_size()) + " " + vh::dump_geometry(p.get(), nullptr) +
           (p->GetMetadata() ? " meta " + vh::dump_geometry_metadata(*p->GetMetadata()) : std::string());
  }
  return "err";
}
std::string decode_fresh(const std::vector<uint8_t> &d) {
  DecoderBuffer b;
  b.Init(reinterpret_cast<const char *>(d.data()), d.size());
  Decoder dec;
  return decode_via(dec, b, d.size());
}
std::string sdiff(const std::string &ref, const std::string &x) {
  if (ref == x) return "1";
  // first differing token
  std::istringstream s1(ref), s2(x);
  std::string t1, t2;
  int i = 0;
  while (true) {
    const bool g1 = static_cast<bool>(s1 >> t1), g2 = static_cast<bool>(s2 >> t2);
    if (!g1 && !g2) break;
    if (!g1 || !g2 || t1 != t2)
      return "0:token" + std::to_string(i) + "(" + (g1 ? t1.substr(0, 24) : std::string("<end>")) + "/" +
             (g2 ? t2.substr(0, 24) : std::string("<end>")) + ")";
    ++i;
  }
  return "0:spacing";
}

}  // namespace

// det reps=<k> [trail=<len>:<seed>,…] [bufhist=<seed>] <enc option tokens> -- <geometry>  { -- <option tokens> -- <geometry> }*
//   bufhist: the shared EncoderBuffer of the rbufclear / rbufappend disciplines is first used by the "application"
//   through its public API (scalars, blocks, bit sequences with / without size, Resize, Clear).
//   the first (options, geometry) pair is the MAIN job, the following pairs are the HISTORY that the
//   reused objects go through before the main job (in the order given).
// Reference R: a fresh Encoder / ExpertEncoder that receives every setter call of the history and of
// the main job (in order) but performs no earlier encode, writing into a fresh EncoderBuffer.
// -> ok <hex of R> <nep> <nef> | <decode of R, fresh objects> | E fresh=.. renc=.. rbufclear=.. rbufappend=.. rcounts=..
//    (rcounts: num_encoded_points()/num_encoded_faces() after a successful encode, of the fresh repeats and of the
//     reused encoder object in all three buffer disciplines, vs the reference)
//    | D fresh=.. rdec=.. rbuf=.. concat=.. trail=..
//    every flag is 1 (identical to the reference) or 0:<where it differs>; `-` = variant not applicable
VH_OP(det) {
  // split at "--"
  std::vector<std::pair<size_t, size_t>> seg;
  size_t s = 1;
  for (size_t i = 1; i <= a.size(); ++i) {
    if (i == a.size() || a[i] == "--") {
      seg.push_back({s, i});
      s = i + 1;
    }
  }
  if (seg.size() < 2 || seg.size() % 2) return "bad-op";
  std::vector<Job> jobs;
  for (size_t k = 0; k + 1 < seg.size(); k += 2) {
    Job j;
    j.o = kvs(a, seg[k].first, seg[k].second);
    size_t pos = seg[k + 1].first;
    if (seg[k + 1].second - pos < 5) return "bad-op";
    j.pc = vh::parse_geometry(a, pos, &j.is_mesh);
    if (j.o.count("meta")) {
      auto gm = vh::parse_geometry_metadata(j.o["meta"]);
      if (!gm) return "bad-op";
      j.pc->AddMetadata(std::move(gm));
    }
    jobs.push_back(std::move(j));
  }
  const Job &main = jobs[0];
  const int reps = main.o.count("reps") ? atoi(main.o.at("reps").c_str()) : 2;
  const bool expert = main.o.count("expert") > 0;
  const size_t nh = jobs.size() - 1;
  const bool reset_main = !expert && main.o.count("reset") > 0;

  // ---- reference
  EncOut R;
  {
    EncoderBuffer buf;
    if (expert) {
      auto ee = new_expert(main);
      for (size_t h = 1; h <= nh; ++h) {
        apply_opts(*ee, jobs[h].o, [](int k) { return k; });
        apply_expert_only(*ee, jobs[h].o);
      }
      apply_opts(*ee, main.o, [](int k) { return k; });
      apply_expert_only(*ee, main.o);
      R = encode_with(*ee, &buf);
    } else {
      Encoder e;
      // reset=1: the reused object calls Encoder::Reset() before the main job; the reference is then a fresh
      // Encoder that receives the main job's setters only (Reset() restores the default option set)
      if (!reset_main)
        for (size_t h = 1; h <= nh; ++h)
          apply_opts(e, jobs[h].o, [](int k) { return static_cast<GeometryAttribute::Type>(k); });
      apply_opts(e, main.o, [](int k) { return static_cast<GeometryAttribute::Type>(k); });
      R = encode_with(e, main, &buf);
    }
  }
  // ---- the same once more, `reps` times, all objects fresh
  std::string e_fresh = "1", e_counts = "1";
  auto counts_flag = [&](const EncOut &x, const char *where) {
    if (e_counts == "1" && !R.same_counts(x))
      e_counts = "0:" + std::to_string(R.nep) + "," + std::to_string(R.nef) + "/" + std::to_string(x.nep) + "," +
                 std::to_string(x.nef) + "@" + where;
  };
  for (int r = 0; r < reps && e_fresh == "1"; ++r) {
    EncoderBuffer buf;
    EncOut x;
    if (expert) {
      auto ee = new_expert(main);
      for (size_t h = 1; h <= nh; ++h) {
        apply_opts(*ee, jobs[h].o, [](int k) { return k; });
        apply_expert_only(*ee, jobs[h].o);
      }
      apply_opts(*ee, main.o, [](int k) { return k; });
      apply_expert_only(*ee, main.o);
      x = encode_with(*ee, &buf);
    } else {
      Encoder e;
      if (!reset_main)
        for (size_t h = 1; h <= nh; ++h)
          apply_opts(e, jobs[h].o, [](int k) { return static_cast<GeometryAttribute::Type>(k); });
      apply_opts(e, main.o, [](int k) { return static_cast<GeometryAttribute::Type>(k); });
      x = encode_with(e, main, &buf);
    }
    e_fresh = diff_of(R, x);
    counts_flag(x, "fresh");
  }
  // ---- reused encoder object with a history of encode calls; three buffer disciplines:
  //      0 fresh EncoderBuffer per call, 1 one EncoderBuffer + Clear(), 2 one EncoderBuffer, appended
  std::string e_flag[3];
  std::vector<std::vector<uint8_t>> hist_streams;  // outputs of the history encodes (discipline 0)
  for (int mode = 0; mode < 3; ++mode) {
    EncoderBuffer shared;
    EncOut x;
    if (mode == 2) {
      const char pre[3] = {1, 2, 3};
      shared.Encode(pre, 3);  // the buffer already holds data of the application
    }
    if (mode != 0 && main.o.count("bufhist"))
      exercise_buffer(shared, static_cast<uint32_t>(strtoul(main.o.at("bufhist").c_str(), nullptr, 10)));
    auto run = [&](auto &&encode_job) {
      for (size_t h = 1; h <= nh + 1; ++h) {
        const Job &j = h <= nh ? jobs[h] : main;
        EncoderBuffer local;
        EncoderBuffer *buf = mode == 0 ? &local : &shared;
        if (mode == 1) shared.Clear();
        EncOut y = encode_job(j, buf);
        if (h <= nh) {
          if (mode == 0 && y.ok) hist_streams.push_back(y.bytes);
        } else {
          x = y;
        }
      }
    };
    if (expert) {
      auto ee = new_expert(main);
      run([&](const Job &j, EncoderBuffer *buf) {
        apply_opts(*ee, j.o, [](int k) { return k; });
        apply_expert_only(*ee, j.o);
        return encode_with(*ee, buf);
      });
    } else {
      Encoder e;
      run([&](const Job &j, EncoderBuffer *buf) {
        if (reset_main && &j == &main) e.Reset();
        apply_opts(e, j.o, [](int k) { return static_cast<GeometryAttribute::Type>(k); });
        return encode_with(e, j, buf);
      });
    }
    e_flag[mode] = diff_of(R, x);
    counts_flag(x, mode == 0 ? "renc" : mode == 1 ? "rbufclear" : "rbufappend");
  }
  std::string out = R.ok ? "ok " + vh::hex(R.bytes) + " " + std::to_string(R.nep) + " " + std::to_string(R.nef)
                         : std::string("err-encode");
  const std::string eflags =
      " | E fresh=" + e_fresh + " renc=" + e_flag[0] + " rbufclear=" + e_flag[1] + " rbufappend=" + e_flag[2] + " rcounts=" + e_counts;
  if (!R.ok) return out + " | - " + eflags + " | D -";

  // ---- decoding
  const std::string D = decode_fresh(R.bytes);
  std::string d_fresh = "1";
  for (int r = 0; r < reps && d_fresh == "1"; ++r) d_fresh = sdiff(D, decode_fresh(R.bytes));
  // reused Decoder object / reused DecoderBuffer object after decoding the history streams
  std::string d_rdec, d_rbuf, d_concat = "-";
  {
    Decoder dec;
    for (auto &hs : hist_streams) {
      DecoderBuffer b;
      b.Init(reinterpret_cast<const char *>(hs.data()), hs.size());
      (void)decode_via(dec, b, hs.size());
    }
    DecoderBuffer b;
    b.Init(reinterpret_cast<const char *>(R.bytes.data()), R.bytes.size());
    d_rdec = sdiff(D, decode_via(dec, b, R.bytes.size()));
  }
  {
    DecoderBuffer b;
    for (auto &hs : hist_streams) {
      b.Init(reinterpret_cast<const char *>(hs.data()), hs.size());
      Decoder dec;
      (void)decode_via(dec, b, hs.size());
    }
    b.Init(reinterpret_cast<const char *>(R.bytes.data()), R.bytes.size());
    Decoder dec;
    d_rbuf = sdiff(D, decode_via(dec, b, R.bytes.size()));
  }
  // streams stored back to back in one DecoderBuffer (each successful decode must leave the read
  // position at the start of the next stream)
  {
    std::vector<uint8_t> cat;
    for (auto &hs : hist_streams) cat.insert(cat.end(), hs.begin(), hs.end());
    cat.insert(cat.end(), R.bytes.begin(), R.bytes.end());
    DecoderBuffer b;
    b.Init(reinterpret_cast<const char *>(cat.data()), cat.size());
    Decoder dec;
    bool in_sync = true;
    size_t expect_pos = 0;
    for (auto &hs : hist_streams) {
      std::string r = decode_via(dec, b, hs.size());
      expect_pos += hs.size();
      if (r.rfind("ok ", 0) != 0 ||
          static_cast<int64_t>(cat.size()) - b.remaining_size() != static_cast<int64_t>(expect_pos)) {
        in_sync = false;  // reported by the history stream's own case; nothing to compare here
        break;
      }
    }
    if (in_sync) {
      d_concat = sdiff(D, decode_via(dec, b, R.bytes.size()));
      if (d_concat == "1" && D.rfind("ok ", 0) == 0 && b.remaining_size() != 0)
        d_concat = "0:remaining" + std::to_string(b.remaining_size());
    }
  }
  // trailing bytes
  std::string d_trail = "-";
  if (main.o.count("trail")) {
    d_trail = "1";
    std::string spec = main.o.at("trail");
    size_t p = 0;
    while (p < spec.size() && d_trail == "1") {
      size_t q = spec.find(',', p);
      if (q == std::string::npos) q = spec.size();
      const std::string item = spec.substr(p, q - p);
      p = q + 1;
      const size_t c = item.find(':');
      const size_t len = static_cast<size_t>(atoi(item.c_str()));
      const uint32_t seed = c == std::string::npos ? 0u : static_cast<uint32_t>(strtoul(item.c_str() + c + 1, nullptr, 10));
      std::vector<uint8_t> d = R.bytes;
      std::mt19937 rng(seed);
      for (size_t i = 0; i < len; ++i) {
        // seed 0: zeros, seed 1: 0xff, otherwise pseudo-random
        d.push_back(seed == 0 ? 0 : seed == 1 ? 0xff : static_cast<uint8_t>(rng()));
      }
      DecoderBuffer b;
      b.Init(reinterpret_cast<const char *>(d.data()), d.size());
      Decoder dec;
      const std::string r = decode_via(dec, b, R.bytes.size());
      d_trail = sdiff(D, r);
      if (d_trail == "1" && D.rfind("ok ", 0) == 0 && b.remaining_size() != static_cast<int64_t>(len))
        d_trail = "0:remaining" + std::to_string(b.remaining_size());
      if (d_trail != "1") d_trail += "@trail" + item;
    }
  }
  return out + " | " + D + eflags + " | D fresh=" + d_fresh + " rdec=" + d_rdec + " rbuf=" + d_rbuf +
         " concat=" + d_concat + " trail=" + d_trail;
}

// det_dec reps=<k> [trail=…] [skip=<types>] <hex> [<history hex> …]
//   decode determinism on given bytes (corpus streams, damaged streams): fresh / reused Decoder /
//   reused DecoderBuffer; trailing bytes are compared only when the plain decode succeeds
// -> <decode text> | D fresh=.. rdec=.. rbuf=.. trail=..
VH_OP(det_dec) {
  Opts o;
  std::vector<std::vector<uint8_t>> streams;
  for (size_t i = 1; i < a.size(); ++i) {
    if (a[i].find('=') != std::string::npos)
      o[a[i].substr(0, a[i].find('='))] = a[i].substr(a[i].find('=') + 1);
    else
      streams.push_back(vh::unhex(a[i]));
  }
  if (streams.empty()) return "bad-op";
  const int reps = o.count("reps") ? atoi(o["reps"].c_str()) : 2;
  const std::string skip = o.count("skip") ? o["skip"] : "";
  auto mk = [&](Decoder &dec) {
    for (char c : skip)
      if (c >= '0' && c <= '4') dec.SetSkipAttributeTransform(static_cast<GeometryAttribute::Type>(c - '0'));
  };
  auto fresh = [&](const std::vector<uint8_t> &d, int64_t *rem) {
    DecoderBuffer b;
    b.Init(reinterpret_cast<const char *>(d.data()), d.size());
    Decoder dec;
    mk(dec);
    std::string r = decode_via(dec, b, d.size());
    if (rem) *rem = b.remaining_size();
    return r;
  };
  const std::vector<uint8_t> &M = streams[0];
  const std::string D = fresh(M, nullptr);
  std::string d_fresh = "1";
  for (int r = 0; r < reps && d_fresh == "1"; ++r) d_fresh = sdiff(D, fresh(M, nullptr));
  std::string d_rdec, d_rbuf;
  {
    Decoder dec;
    mk(dec);
    for (size_t h = 1; h < streams.size(); ++h) {
      DecoderBuffer b;
      b.Init(reinterpret_cast<const char *>(streams[h].data()), streams[h].size());
      (void)decode_via(dec, b, 0);
    }
    DecoderBuffer b;
    b.Init(reinterpret_cast<const char *>(M.data()), M.size());
    d_rdec = sdiff(D, decode_via(dec, b, 0));
  }
  {
    DecoderBuffer b;
    for (size_t h = 1; h < streams.size(); ++h) {
      b.Init(reinterpret_cast<const char *>(streams[h].data()), streams[h].size());
      Decoder dec;
      (void)decode_via(dec, b, 0);
    }
    b.Init(reinterpret_cast<const char *>(M.data()), M.size());
    Decoder dec;
    mk(dec);
    d_rbuf = sdiff(D, decode_via(dec, b, 0));
  }
  std::string d_trail = "-";
  if (o.count("trail") && D.rfind("ok ", 0) == 0) {
    d_trail = "1";
    std::string spec = o["trail"];
    size_t p = 0;
    while (p < spec.size() && d_trail == "1") {
      size_t q = spec.find(',', p);
      if (q == std::string::npos) q = spec.size();
      const std::string item = spec.substr(p, q - p);
      p = q + 1;
      const size_t c = item.find(':');
      const size_t len = static_cast<size_t>(atoi(item.c_str()));
      const uint32_t seed = c == std::string::npos ? 0u : static_cast<uint32_t>(strtoul(item.c_str() + c + 1, nullptr, 10));
      std::vector<uint8_t> d = M;
      std::mt19937 rng(seed);
      for (size_t i = 0; i < len; ++i) d.push_back(seed == 0 ? 0 : seed == 1 ? 0xff : static_cast<uint8_t>(rng()));
      int64_t rem = 0;
      const std::string r = fresh(d, &rem);
      d_trail = sdiff(D, r);
      if (d_trail != "1") d_trail += "@trail" + item;
    }
  }
  return D + " | D fresh=" + d_fresh + " rdec=" + d_rdec + " rbuf=" + d_rbuf + " trail=" + d_trail;
}
