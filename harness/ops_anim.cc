// C20: keyframe animations through KeyframeAnimation / KeyframeAnimationEncoder / Decoder.
#include <algorithm>

#include "common.h"
#include "draco/animation/keyframe_animation.h"
#include "draco/animation/keyframe_animation_decoder.h"
#include "draco/animation/keyframe_animation_encoder.h"
#include "draco/compression/config/decoder_options.h"
#include "draco/compression/config/encoder_options.h"
#include "geom_text.h"

using namespace draco;

template <class T>
static int32_t add_track(KeyframeAnimation *anim, DataType dt, int nc, const std::vector<uint8_t> &bytes) {
  std::vector<T> data(bytes.size() / sizeof(T));
  if (!data.empty()) memcpy(data.data(), bytes.data(), data.size() * sizeof(T));
  return anim->AddKeyframes(dt, nc, data);
}
static int32_t add_track_dt(KeyframeAnimation *anim, int dt, int nc, const std::vector<uint8_t> &b) {
  switch (dt) {
    case DT_INT8: return add_track<int8_t>(anim, DT_INT8, nc, b);
    case DT_UINT8: return add_track<uint8_t>(anim, DT_UINT8, nc, b);
    case DT_INT16: return add_track<int16_t>(anim, DT_INT16, nc, b);
    case DT_UINT16: return add_track<uint16_t>(anim, DT_UINT16, nc, b);
    case DT_INT32: return add_track<int32_t>(anim, DT_INT32, nc, b);
    case DT_UINT32: return add_track<uint32_t>(anim, DT_UINT32, nc, b);
    case DT_FLOAT32: return add_track<float>(anim, DT_FLOAT32, nc, b);
    default: return -2;
  }
}
// anim order=<0 timestamps first | 1 tracks first> [speed=e,d] [q<track id>=bits] [del=<track ids>] [builtin=0|1]
//      [g:<global int option>=<v>] [trail=<hex>] -- <pc text>
//   attribute 0 of the pc = timestamps (float32 x1), further attributes = tracks in order
//   builtin = EncoderOptions global bool use_built_in_attribute_compression; g:symbol_encoding_method etc. as the
//   KeyframeAnimationEncoder takes them through EncoderOptions
// -> ok <hex> 0 0 | <decode> | <decode with transforms skipped> | <dump of the animation as built> | <ids returned by AddKeyframes>
static std::string run_anim(const vh::Args &a, size_t from, size_t to, KeyframeAnimationEncoder &enc,
                            KeyframeAnimationDecoder &dec) {
  size_t sep = from;
  while (sep < to && a[sep] != "--") ++sep;
  if (sep >= to) return "bad-op";
  std::map<std::string, std::string> o;
  for (size_t i = from; i < sep; ++i) {
    size_t e = a[i].find('=');
    if (e != std::string::npos) o[a[i].substr(0, e)] = a[i].substr(e + 1);
  }
  size_t pos = sep + 1;
  bool is_mesh = false;
  std::unique_ptr<PointCloud> g = vh::parse_geometry(a, pos, &is_mesh);
  if (g->num_attributes() < 1) return "bad-op";
  KeyframeAnimation anim;
  auto bytes_of = [&](int i) {
    const PointAttribute *at = g->attribute(i);
    return std::vector<uint8_t>(at->buffer()->data(), at->buffer()->data() + at->size() * at->byte_stride());
  };
  auto set_ts = [&]() {
    auto b = bytes_of(0);
    std::vector<float> ts(b.size() / 4);
    if (!ts.empty()) memcpy(ts.data(), b.data(), ts.size() * 4);
    return anim.SetTimestamps(ts);
  };
  std::vector<int32_t> ids;
  const bool tracks_first = o.count("order") && o["order"] == "1";
  if (!tracks_first && !set_ts()) return "err-timestamps";
  for (int i = 1; i < g->num_attributes(); ++i) {
    const PointAttribute *at = g->attribute(i);
    int32_t id = add_track_dt(&anim, at->data_type(), at->num_components(), bytes_of(i));
    if (id < 0) return "err-addkeyframes";
    ids.push_back(id);
  }
  if (tracks_first && !set_ts()) return "err-timestamps";
  // del=<track id>[,<track id>…]: PointCloud::DeleteAttribute on the built animation (the remaining tracks keep their ids)
  if (o.count("del")) {
    for (int64_t id : vh::ilist(o["del"])) {
      const int32_t att = anim.GetAttributeIdByUniqueId(static_cast<uint32_t>(id));
      if (att <= 0) return "bad-op";
      anim.DeleteAttribute(att);
      ids.erase(std::remove(ids.begin(), ids.end(), static_cast<int32_t>(id)), ids.end());
    }
  }
  EncoderOptions eo = EncoderOptions::CreateDefaultOptions();
  if (o.count("speed")) {
    auto l = vh::ilist(o["speed"]);
    eo.SetSpeed(static_cast<int>(l[0]), static_cast<int>(l[1]));
  }
  if (o.count("builtin")) eo.SetGlobalBool("use_built_in_attribute_compression", o["builtin"] == "1");
  for (auto &kv : o) {
    if (kv.first[0] == 'q' && isdigit(kv.first[1]))
      eo.SetAttributeInt(atoi(kv.first.c_str() + 1), "quantization_bits", atoi(kv.second.c_str()));
    if (kv.first.rfind("g:", 0) == 0) eo.SetGlobalInt(kv.first.substr(2), atoi(kv.second.c_str()));
  }
  EncoderBuffer buf;
  if (!enc.EncodeKeyframeAnimation(anim, eo, &buf).ok()) return "err-encode";
  std::vector<uint8_t> d(buf.data(), buf.data() + buf.size());
  if (o.count("trail")) {
    auto t = vh::unhex(o["trail"]);
    d.insert(d.end(), t.begin(), t.end());
  }
  auto decode = [&](bool skip) -> std::string {
    DecoderBuffer b;
    b.Init(reinterpret_cast<const char *>(d.data()), d.size());
    DecoderOptions dopt;
    if (skip)
      for (int t = 0; t < 5; ++t) dopt.SetAttributeBool(static_cast<GeometryAttribute::Type>(t), "skip_attribute_transform", true);
    KeyframeAnimation out;
    if (!dec.Decode(dopt, &b, &out).ok()) return "err";
    std::string s = "ok " + std::to_string(static_cast<int64_t>(d.size()) - b.remaining_size()) + " " + vh::dump_geometry(&out, nullptr);
    if (!skip) {
      // every track must be retrievable under the id AddKeyframes returned
      for (int32_t id : ids)
        if (out.keyframes(id) == nullptr) return "err-track-" + std::to_string(id) + "-not-retrievable";
      if (out.timestamps() == nullptr) return "err-timestamps-not-retrievable";
      if (out.num_frames() != anim.num_frames()) return "err-num-frames";
    }
    return s;
  };
  return "ok " + vh::hex(buf.data(), buf.size()) + " 0 0 | " + decode(false) + " | " + decode(true) + " | - | " +
         vh::dump_geometry(&anim, nullptr) + " | " + vh::joinl(ids);
}
VH_OP(anim) {
  KeyframeAnimationEncoder enc;
  KeyframeAnimationDecoder dec;
  return run_anim(a, 1, a.size(), enc, dec);
}
// animh <anim args A> ;; <anim args B> [;; <anim args C> …]: object-reuse history — ONE KeyframeAnimationEncoder and ONE
//   KeyframeAnimationDecoder are used for all animations in order (each animation: encode, ordinary decode, decode with
//   transforms skipped); the result of the LAST animation is reported in the `anim` format. An earlier animation the
//   encoder rejects is skipped (the objects are still reused).
VH_OP(animh) {
  KeyframeAnimationEncoder enc;
  KeyframeAnimationDecoder dec;
  std::string last = "bad-op";
  size_t from = 1;
  for (size_t i = 1; i <= a.size(); ++i) {
    if (i == a.size() || a[i] == ";;") {
      if (i > from) last = run_anim(a, from, i, enc, dec);
      from = i + 1;
    }
  }
  return last;
}

// animapi <call> <call> …: the KeyframeAnimation API as a state machine (correspondence with lean/DracoModel/Animation.lean)
//   call = T:<float bit patterns, comma separated or empty>        SetTimestamps
//        | K:<data type>:<num components>:<component bit patterns>  AddKeyframes<T>(data type, num components, data)
// -> <results: 1/0 for SetTimestamps, id for AddKeyframes> | <num_frames> <num_attributes>
//    | <unique id>:<type>:<data type>:<components>:<size>:<stored components as unsigned bit patterns, '.' separated> …
template <class T>
static int32_t api_add(KeyframeAnimation *anim, DataType dt, uint32_t nc, const std::vector<int64_t> &v) {
  std::vector<T> data(v.size());
  for (size_t i = 0; i < v.size(); ++i) {
    const uint64_t u = static_cast<uint64_t>(v[i]);
    T t;
    memcpy(&t, &u, sizeof(T));  // little endian: the low sizeof(T) bytes of the pattern
    data[i] = t;
  }
  return anim->AddKeyframes(dt, nc, data);
}
VH_OP(animapi) {
  KeyframeAnimation anim;
  std::string rets;
  for (size_t i = 1; i < a.size(); ++i) {
    const std::string &c = a[i];
    if (!rets.empty()) rets += ',';
    if (c.rfind("T:", 0) == 0) {
      auto l = vh::ilist(c.substr(2));
      std::vector<float> ts(l.size());
      for (size_t k = 0; k < l.size(); ++k) {
        const uint32_t b = static_cast<uint32_t>(l[k]);
        memcpy(&ts[k], &b, 4);
      }
      rets += anim.SetTimestamps(ts) ? "1" : "0";
    } else if (c.rfind("K:", 0) == 0) {
      size_t p1 = c.find(':', 2), p2 = p1 == std::string::npos ? p1 : c.find(':', p1 + 1);
      if (p2 == std::string::npos) return "bad-op";
      const int dt = atoi(c.substr(2, p1 - 2).c_str());
      const uint32_t nc = static_cast<uint32_t>(strtoul(c.substr(p1 + 1, p2 - p1 - 1).c_str(), nullptr, 10));
      auto l = vh::ilist(c.substr(p2 + 1));
      int32_t id;
      switch (dt) {
        case DT_INT8: id = api_add<int8_t>(&anim, DT_INT8, nc, l); break;
        case DT_UINT8: id = api_add<uint8_t>(&anim, DT_UINT8, nc, l); break;
        case DT_INT16: id = api_add<int16_t>(&anim, DT_INT16, nc, l); break;
        case DT_UINT16: id = api_add<uint16_t>(&anim, DT_UINT16, nc, l); break;
        case DT_INT32: id = api_add<int32_t>(&anim, DT_INT32, nc, l); break;
        case DT_UINT32: id = api_add<uint32_t>(&anim, DT_UINT32, nc, l); break;
        case DT_FLOAT32: id = api_add<float>(&anim, DT_FLOAT32, nc, l); break;
        default: return "bad-op";
      }
      rets += std::to_string(id);
    } else {
      return "bad-op";
    }
  }
  std::string s = (rets.empty() ? std::string("-") : rets) + " | " + std::to_string(anim.num_frames()) + " " +
                  std::to_string(anim.num_attributes()) + " |";
  for (int i = 0; i < anim.num_attributes(); ++i) {
    const PointAttribute *at = anim.attribute(i);
    s += " " + std::to_string(at->unique_id()) + ":" + std::to_string(static_cast<int>(at->attribute_type())) + ":" +
         std::to_string(static_cast<int>(at->data_type())) + ":" + std::to_string(static_cast<int>(at->num_components())) + ":" +
         std::to_string(at->size()) + ":";
    const int len = DataTypeLength(at->data_type());
    const size_t n = at->size() * at->num_components();
    std::string d;
    for (size_t k = 0; k < n; ++k) {
      uint64_t u = 0;
      memcpy(&u, at->buffer()->data() + k * len, len);
      if (k) d += '.';
      d += std::to_string(u);
    }
    s += d.empty() ? "-" : d;
  }
  return s;
}
