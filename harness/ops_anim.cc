// C20: keyframe animations through KeyframeAnimation / KeyframeAnimationEncoder / Decoder.
#include "common.h"
#include "draco/animation/keyframe_animation.h"
#include "draco/animation/keyframe_animation_decoder.h"
#include "draco/animation/keyframe_animation_encoder.h"
#include "draco/compression/config/decoder_options.h"
#include "draco/compression/config/encoder_options.h"
#include "geom_text.h"

using namespace draco;

template <class T>
static int32_t add_track(KeyframeAnimation *anim, DataType dt, int nc, const std::vector<uint8_t> &bytes) {
  std::vector<T> data(bytes.size() / sizeof(T));
  if (!data.empty()) memcpy(data.data(), bytes.data(), data.size() * sizeof(T));
  return anim->AddKeyframes(dt, nc, data);
}
static int32_t add_track_dt(KeyframeAnimation *anim, int dt, int nc, const std::vector<uint8_t> &b) {
  switch (dt) {
    case DT_INT8: return add_track<int8_t>(anim, DT_INT8, nc, b);
    case DT_UINT8: return add_track<uint8_t>(anim, DT_UINT8, nc, b);
    case DT_INT16: return add_track<int16_t>(anim, DT_INT16, nc, b);
    case DT_UINT16: return add_track<uint16_t>(anim, DT_UINT16, nc, b);
    case DT_INT32: return add_track<int32_t>(anim, DT_INT32, nc, b);
    case DT_UINT32: return add_track<uint32_t>(anim, DT_UINT32, nc, b);
    case DT_FLOAT32: return add_track<float>(anim, DT_FLOAT32, nc, b);
    default: return -2;
  }
}
// anim order=<0 timestamps first | 1 tracks first> [speed=e,d] [q<track id>=bits] [trail=<hex>] -- <pc text>
//   attribute 0 of the pc = timestamps (float32 x1), further attributes = tracks in order
// -> ok <hex> 0 0 | <decode> | <decode with transforms skipped> | <dump of the animation as built> | <ids returned by AddKeyframes>
VH_OP(anim) {
  size_t sep = 1;
  while (sep < a.size() && a[sep] != "--") ++sep;
  if (sep >= a.size()) return "bad-op";
  std::map<std::string, std::string> o;
  for (size_t i = 1; i < sep; ++i) {
    size_t e = a[i].find('=');
    if (e != std::string::npos) o[a[i].substr(0, e)] = a[i].substr(e + 1);
  }
  size_t pos = sep + 1;
  bool is_mesh = false;
  std::unique_ptr<PointCloud> g = vh::parse_geometry(a, pos, &is_mesh);
  if (g->num_attributes() < 1) return "bad-op";
  KeyframeAnimation anim;
  auto bytes_of = [&](int i) {
    const PointAttribute *at = g->attribute(i);
    return std::vector<uint8_t>(at->buffer()->data(), at->buffer()->data() + at->size() * at->byte_stride());
  };
  auto set_ts = [&]() {
    auto b = bytes_of(0);
    std::vector<float> ts(b.size() / 4);
    if (!ts.empty()) memcpy(ts.data(), b.data(), ts.size() * 4);
    return anim.SetTimestamps(ts);
  };
  std::vector<int32_t> ids;
  const bool tracks_first = o.count("order") && o["order"] == "1";
  if (!tracks_first && !set_ts()) return "err-timestamps";
  for (int i = 1; i < g->num_attributes(); ++i) {
    const PointAttribute *at = g->attribute(i);
    int32_t id = add_track_dt(&anim, at->data_type(), at->num_components(), bytes_of(i));
    if (id < 0) return "err-addkeyframes";
    ids.push_back(id);
  }
  if (tracks_first && !set_ts()) return "err-timestamps";
  EncoderOptions eo = EncoderOptions::CreateDefaultOptions();
  if (o.count("speed")) {
    auto l = vh::ilist(o["speed"]);
    eo.SetSpeed(static_cast<int>(l[0]), static_cast<int>(l[1]));
  }
  for (auto &kv : o)
    if (kv.first[0] == 'q' && isdigit(kv.first[1]))
      eo.SetAttributeInt(atoi(kv.first.c_str() + 1), "quantization_bits", atoi(kv.second.c_str()));
  EncoderBuffer buf;
  KeyframeAnimationEncoder enc;
  if (!enc.EncodeKeyframeAnimation(anim, eo, &buf).ok()) return "err-encode";
  std::vector<uint8_t> d(buf.data(), buf.data() + buf.size());
  if (o.count("trail")) {
    auto t = vh::unhex(o["trail"]);
    d.insert(d.end(), t.begin(), t.end());
  }
  auto decode = [&](bool skip) -> std::string {
    DecoderBuffer b;
    b.Init(reinterpret_cast<const char *>(d.data()), d.size());
    DecoderOptions dopt;
    if (skip)
      for (int t = 0; t < 5; ++t) dopt.SetAttributeBool(static_cast<GeometryAttribute::Type>(t), "skip_attribute_transform", true);
    KeyframeAnimationDecoder dec;
    KeyframeAnimation out;
    if (!dec.Decode(dopt, &b, &out).ok()) return "err";
    std::string s = "ok " + std::to_string(static_cast<int64_t>(d.size()) - b.remaining_size()) + " " + vh::dump_geometry(&out, nullptr);
    if (!skip) {
      // every track must be retrievable under the id AddKeyframes returned
      for (int32_t id : ids)
        if (out.keyframes(id) == nullptr) return "err-track-" + std::to_string(id) + "-not-retrievable";
      if (out.timestamps() == nullptr) return "err-timestamps-not-retrievable";
      if (out.num_frames() != anim.num_frames()) return "err-num-frames";
    }
    return s;
  };
  return "ok " + vh::hex(buf.data(), buf.size()) + " 0 0 | " + decode(false) + " | " + decode(true) + " | - | " +
         vh::dump_geometry(&anim, nullptr) + " | " + vh::joinl(ids);
}
