// Canonical text form of metadata trees (no spaces), shared with lean/Ops/Metadata.lean:
//   node := '{' entries ';' subs '}'      entries := name '=' value (',' …)*     subs := name '=' node (',' …)*
//   name/value := lowercase hex, '_' for the empty string
//   geometry metadata := 'G[' uid ':' node (',' …)* ']' node
// dumps list entries and sub-metadata in the container's iteration order (std::map: byte order).
#ifndef VERIF_HARNESS_META_TEXT_H_
#define VERIF_HARNESS_META_TEXT_H_
#include <memory>

#include "common.h"
#include "draco/metadata/geometry_metadata.h"
#include "draco/metadata/metadata.h"

namespace vh {

inline std::string hx(const uint8_t *p, size_t n) {
  if (n == 0) return "_";
  return hex(p, n);
}
inline std::string dump_metadata(const draco::Metadata &m) {
  std::string s = "{";
  bool first = true;
  for (const auto &e : m.entries()) {
    if (!first) s += ",";
    first = false;
    const auto &v = e.second.data();
    s += hx(reinterpret_cast<const uint8_t *>(e.first.data()), e.first.size()) + "=" + hx(v.data(), v.size());
  }
  s += ";";
  first = true;
  for (const auto &e : m.sub_metadatas()) {
    if (!first) s += ",";
    first = false;
    s += hx(reinterpret_cast<const uint8_t *>(e.first.data()), e.first.size()) + "=" + dump_metadata(*e.second);
  }
  return s + "}";
}
inline std::string dump_geometry_metadata(const draco::GeometryMetadata &g) {
  std::string s = "G[";
  bool first = true;
  for (const auto &a : g.attribute_metadatas()) {
    if (!first) s += ",";
    first = false;
    s += std::to_string(a->att_unique_id()) + ":" + dump_metadata(*a);
  }
  return s + "]" + dump_metadata(g);
}
inline std::string un_hx(const std::string &t) {
  if (t == "_") return "";
  auto v = unhex(t);
  return std::string(v.begin(), v.end());
}
// recursive descent; pos points at '{'
inline bool parse_metadata(const std::string &s, size_t &pos, draco::Metadata *out) {
  if (pos >= s.size() || s[pos] != '{') return false;
  ++pos;
  // entries
  while (pos < s.size() && s[pos] != ';') {
    size_t e = s.find('=', pos);
    if (e == std::string::npos) return false;
    std::string name = un_hx(s.substr(pos, e - pos));
    pos = e + 1;
    size_t q = pos;
    while (q < s.size() && s[q] != ',' && s[q] != ';') ++q;
    std::string val = un_hx(s.substr(pos, q - pos));
    out->AddEntryBinary(name, std::vector<uint8_t>(val.begin(), val.end()));
    pos = q;
    if (pos < s.size() && s[pos] == ',') ++pos;
  }
  if (pos >= s.size()) return false;
  ++pos;  // ';'
  while (pos < s.size() && s[pos] != '}') {
    size_t e = s.find('=', pos);
    if (e == std::string::npos) return false;
    std::string name = un_hx(s.substr(pos, e - pos));
    pos = e + 1;
    std::unique_ptr<draco::Metadata> sub(new draco::Metadata());
    if (!parse_metadata(s, pos, sub.get())) return false;
    out->AddSubMetadata(name, std::move(sub));
    if (pos < s.size() && s[pos] == ',') ++pos;
  }
  if (pos >= s.size()) return false;
  ++pos;  // '}'
  return true;
}
inline std::unique_ptr<draco::GeometryMetadata> parse_geometry_metadata(const std::string &s) {
  std::unique_ptr<draco::GeometryMetadata> g(new draco::GeometryMetadata());
  if (s.size() < 4 || s[0] != 'G' || s[1] != '[') return nullptr;
  size_t pos = 2;
  while (pos < s.size() && s[pos] != ']') {
    size_t c = s.find(':', pos);
    if (c == std::string::npos) return nullptr;
    uint32_t uid = static_cast<uint32_t>(strtoull(s.substr(pos, c - pos).c_str(), nullptr, 10));
    pos = c + 1;
    std::unique_ptr<draco::AttributeMetadata> am(new draco::AttributeMetadata());
    am->set_att_unique_id(uid);
    if (!parse_metadata(s, pos, am.get())) return nullptr;
    g->AddAttributeMetadata(std::move(am));
    if (pos < s.size() && s[pos] == ',') ++pos;
  }
  if (pos >= s.size()) return nullptr;
  ++pos;
  if (!parse_metadata(s, pos, g.get())) return nullptr;
  return g;
}

}  // namespace vh
#endif
