// Line-protocol driver around the real library: one operation per input line, one canonical
// output line per operation. usage: harness_main [opsfile]   (stdin when absent)
#include <atomic>
#include <ext/stdio_filebuf.h>
#include <fstream>
#include <iostream>
#include <random>
#include <thread>
#include <unistd.h>

#include "common.h"

namespace vh {
std::map<std::string, OpFn> &registry() {
  static std::map<std::string, OpFn> r;
  return r;
}
}  // namespace vh

int main(int argc, char **argv) {
  std::ifstream f;
  std::istream *in = &std::cin;
  if (argc > 1) {
    f.open(argv[1]);
    in = &f;
  }
  std::ios::sync_with_stdio(false);
  // The library logs some rejections with printf (DRACO_LOGE, e.g. "KdTreeAttributesDecoder: compression level 8 not
  // supported."): keep the line protocol on a private copy of stdout and send everything else written to fd 1 to stderr,
  // so that the log lines cannot shift the outputs (as robust_main does).
  auto *proto_buf = new __gnu_cxx::stdio_filebuf<char>(dup(1), std::ios::out);   // lives until exit (cout is flushed then)
  dup2(2, 1);
  std::cout.rdbuf(proto_buf);
  std::string line;
  // C19: VH_THREADS=N runs the operations concurrently on N threads (thread t executes the
  // lines i with i % N == t, start-aligned, with random yields); output is printed in input order.
  const char *nt = getenv("VH_THREADS");
  if (nt && atoi(nt) > 1) {
    const int N = atoi(nt);
    std::vector<vh::Args> ops;
    while (std::getline(*in, line)) {
      vh::Args a;
      std::istringstream ss(line);
      std::string t;
      while (ss >> t) a.push_back(t);
      ops.push_back(a);
    }
    std::vector<std::string> outs(ops.size());
    std::atomic<int> ready(0);
    std::atomic<bool> go(false);
    std::vector<std::thread> th;
    for (int t = 0; t < N; ++t) {
      th.emplace_back([&, t]() {
        std::mt19937 rng(12345u + 977u * t);
        ready.fetch_add(1);
        while (!go.load()) {
        }
        for (size_t i = t; i < ops.size(); i += N) {
          if (rng() % 3 == 0) std::this_thread::yield();
          const vh::Args &a = ops[i];
          if (a.empty()) continue;
          auto it = vh::registry().find(a[0]);
          outs[i] = it == vh::registry().end() ? "bad-op" : it->second(a);
        }
      });
    }
    while (ready.load() < N) {
    }
    go.store(true);
    for (auto &t : th) t.join();
    for (auto &o : outs) std::cout << o << "\n";
    return 0;
  }
  long n = 0;
  while (std::getline(*in, line)) {
    ++n;
    vh::Args a;
    std::istringstream ss(line);
    std::string t;
    while (ss >> t) a.push_back(t);
    if (a.empty()) {
      std::cout << "\n";
      continue;
    }
    auto it = vh::registry().find(a[0]);
    if (it == vh::registry().end()) {
      std::cout << "bad-op\n";
      continue;
    }
    // progress marker for crash attribution (stderr, unbuffered)
    if (getenv("VH_TRACE")) fprintf(stderr, "@%ld\n", n);
    // per-line watchdog: an operation that does not finish (e.g. a loop that a source change made endless) is
    // killed by SIGALRM and attributed to its line by the caller; VH_LINE_TIMEOUT seconds, 0 = off
    static const unsigned line_timeout = getenv("VH_LINE_TIMEOUT") ? atoi(getenv("VH_LINE_TIMEOUT")) : 300;
    if (line_timeout) alarm(line_timeout);
    std::cout << it->second(a) << "\n";
    if (line_timeout) alarm(0);
    std::cout.flush();
  }
  return 0;
}
