// Line-protocol driver around the real library: one operation per input line, one canonical
// output line per operation. usage: harness_main [opsfile]   (stdin when absent)
#include <fstream>
#include <iostream>

#include "common.h"

namespace vh {
std::map<std::string, OpFn> &registry() {
  static std::map<std::string, OpFn> r;
  return r;
}
}  // namespace vh

int main(int argc, char **argv) {
  std::ifstream f;
  std::istream *in = &std::cin;
  if (argc > 1) {
    f.open(argv[1]);
    in = &f;
  }
  std::ios::sync_with_stdio(false);
  std::string line;
  long n = 0;
  while (std::getline(*in, line)) {
    ++n;
    vh::Args a;
    std::istringstream ss(line);
    std::string t;
    while (ss >> t) a.push_back(t);
    if (a.empty()) {
      std::cout << "\n";
      continue;
    }
    auto it = vh::registry().find(a[0]);
    if (it == vh::registry().end()) {
      std::cout << "bad-op\n";
      continue;
    }
    // progress marker for crash attribution (stderr, unbuffered)
    if (getenv("VH_TRACE")) fprintf(stderr, "@%ld\n", n);
    std::cout << it->second(a) << "\n";
    std::cout.flush();
  }
  return 0;
}
