// Operations of the end-to-end properties C10 / C12 that work on a given stream (no encode step).
#include "common.h"

// decskip <skip types, e.g. 01> <hex>: decodes the same stream three times through the public Decoder API
//   -> <ordinary decode> | <decode with every transform skipped> | <decode with SetSkipAttributeTransform(types)>
// each part as printed by the `dec` op (ok <consumed> <geometry> | err | err-version)
VH_OP(decskip) {
  if (a.size() < 3) return "bad-op";
  auto &dec = vh::registry()["dec"];
  return dec({"dec", "-", a[2]}) + " | " + dec({"dec", "01234", a[2]}) + " | " + dec({"dec", a[1], a[2]});
}

// encpoke [poke=<offset>:<byte>[,<offset>:<byte>…]] [skip=<types>] <enc args…> -- <geometry>: encodes through the public
//   API (as the `enc` op), overwrites bytes of the produced stream (negative offsets count from the end), then decodes
//   the result as `decskip` does:   -> ok <hex of the modified stream> | <ordinary> | <all skipped> | <skip=<types>>
VH_OP(encpoke) {
  vh::Args e;
  e.push_back("enc");
  std::string poke, skip = "-";
  for (size_t i = 1; i < a.size(); ++i) {
    if (a[i].rfind("poke=", 0) == 0 && poke.empty()) {
      poke = a[i].substr(5);
      continue;
    }
    if (a[i].rfind("skip=", 0) == 0) skip = a[i].substr(5);
    e.push_back(a[i]);
  }
  std::string r = vh::registry()["enc"](e);
  if (r.rfind("ok ", 0) != 0) return r;
  std::istringstream ss(r);
  std::string okt, hx;
  ss >> okt >> hx;
  std::vector<uint8_t> d = vh::unhex(hx);
  size_t p = 0;
  while (!poke.empty() && p <= poke.size()) {
    size_t q = poke.find(',', p);
    if (q == std::string::npos) q = poke.size();
    std::string item = poke.substr(p, q - p);
    size_t c = item.find(':');
    if (c != std::string::npos) {
      long long off = strtoll(item.substr(0, c).c_str(), nullptr, 10);
      long long idx = off < 0 ? static_cast<long long>(d.size()) + off : off;
      if (idx >= 0 && idx < static_cast<long long>(d.size())) d[idx] = static_cast<uint8_t>(atoi(item.substr(c + 1).c_str()));
    }
    p = q + 1;
  }
  std::string h2 = vh::hex(d);
  auto &dec = vh::registry()["dec"];
  return "ok " + h2 + " | " + dec({"dec", "-", h2}) + " | " + dec({"dec", "01234", h2}) + " | " + dec({"dec", skip, h2});
}

// skipapply <skip types> <hex>: the consumer side of the skip option on the REAL classes. Decodes the stream
// ordinarily and with SetSkipAttributeTransform(types); for every skipped attribute that carries transform data,
// applies the described transform with AttributeQuantizationTransform / AttributeOctahedronTransform
// (InitFromAttribute + InverseTransformAttribute) — ONE transform object of each kind reused for all attributes, as
// a consumer looping over attributes would — and compares the result with the ordinary decode of the attribute with
// the same unique id, byte for byte.
//   -> ok <attributes checked> | mismatch uid=<id> value=<index> | err (either decode failed) | no-such-attribute uid=<id>
#include "draco/attributes/attribute_octahedron_transform.h"
#include "draco/attributes/attribute_quantization_transform.h"
#include "draco/compression/decode.h"

namespace {
std::unique_ptr<draco::PointCloud> decode_obj(const std::vector<uint8_t> &d, const std::string &skip) {
  draco::DecoderBuffer b;
  b.Init(reinterpret_cast<const char *>(d.data()), d.size());
  draco::Decoder dec;
  for (char c : skip)
    if (c >= '0' && c <= '4') dec.SetSkipAttributeTransform(static_cast<draco::GeometryAttribute::Type>(c - '0'));
  auto t = draco::Decoder::GetEncodedGeometryType(&b);
  if (!t.ok()) return nullptr;
  if (t.value() == draco::TRIANGULAR_MESH) {
    auto r = dec.DecodeMeshFromBuffer(&b);
    if (!r.ok()) return nullptr;
    return std::move(r).value();
  }
  if (t.value() == draco::POINT_CLOUD) {
    auto r = dec.DecodePointCloudFromBuffer(&b);
    if (!r.ok()) return nullptr;
    return std::move(r).value();
  }
  return nullptr;
}
}  // namespace

VH_OP(skipapply) {
  if (a.size() < 3) return "bad-op";
  auto d = vh::unhex(a[2]);
  auto plain = decode_obj(d, "-");
  auto skipped = decode_obj(d, a[1]);
  if (!plain || !skipped) return "err";
  draco::AttributeQuantizationTransform qt;   // reused for every attribute
  draco::AttributeOctahedronTransform ot;     // reused for every attribute
  int checked = 0;
  for (int i = 0; i < skipped->num_attributes(); ++i) {
    const draco::PointAttribute *sa = skipped->attribute(i);
    const draco::AttributeTransformData *td = sa->GetAttributeTransformData();
    if (!td) continue;
    // only attributes whose type was asked to be skipped expose portable values (a legacy decode may leave the
    // transform description attached to an ordinary, already transformed attribute)
    if (a[1].find(static_cast<char>('0' + static_cast<int>(sa->attribute_type()))) == std::string::npos) continue;
    // both decodes list the attributes in stream order; the unique id must agree (legacy streams may carry the
    // same unique id on several attributes, so the position in the list identifies the attribute)
    const draco::PointAttribute *pa = i < plain->num_attributes() ? plain->attribute(i) : nullptr;
    if (!pa || pa->unique_id() != sa->unique_id()) return "no-such-attribute uid=" + std::to_string(sa->unique_id());
    draco::PointAttribute target;
    target.Init(pa->attribute_type(), pa->num_components(), pa->data_type(), pa->normalized(), sa->size());
    bool ok = false;
    if (td->transform_type() == draco::ATTRIBUTE_QUANTIZATION_TRANSFORM) {
      ok = qt.InitFromAttribute(*sa) && qt.InverseTransformAttribute(*sa, &target);
    } else if (td->transform_type() == draco::ATTRIBUTE_OCTAHEDRON_TRANSFORM) {
      ok = ot.InitFromAttribute(*sa) && ot.InverseTransformAttribute(*sa, &target);
    } else {
      continue;
    }
    if (!ok) return "transform-failed uid=" + std::to_string(sa->unique_id());
    ++checked;
    const size_t stride = pa->byte_stride();
    // compare per point (the ordinary decode may hold its values under a different point->value mapping)
    for (uint32_t p = 0; p < plain->num_points() && p < skipped->num_points(); ++p) {
      const uint8_t *x = pa->GetAddress(pa->mapped_index(draco::PointIndex(p)));
      const uint8_t *y = target.GetAddress(sa->mapped_index(draco::PointIndex(p)));
      if (memcmp(x, y, stride) != 0)
        return "mismatch uid=" + std::to_string(sa->unique_id()) + " point=" + std::to_string(p);
    }
  }
  return "ok " + std::to_string(checked);
}

// encskipapply skip=<types> <enc args…> -- <geometry>: `enc`, then `skipapply` on the produced stream
VH_OP(encskipapply) {
  vh::Args e;
  e.push_back("enc");
  std::string skip = "01234";
  for (size_t i = 1; i < a.size(); ++i) {
    if (a[i].rfind("skip=", 0) == 0) {
      skip = a[i].substr(5);
      continue;
    }
    e.push_back(a[i]);
  }
  std::string r = vh::registry()["enc"](e);
  if (r.rfind("ok ", 0) != 0) return r;
  std::istringstream ss(r);
  std::string okt, hx;
  ss >> okt >> hx;
  return vh::registry()["skipapply"]({"skipapply", skip, hx});
}
