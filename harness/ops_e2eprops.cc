// Operations of the end-to-end properties C10 / C12 that work on a given stream (no encode step).
#include "common.h"

// decskip <skip types, e.g. 01> <hex>: decodes the same stream three times through the public Decoder API
//   -> <ordinary decode> | <decode with every transform skipped> | <decode with SetSkipAttributeTransform(types)>
// each part as printed by the `dec` op (ok <consumed> <geometry> | err | err-version)
VH_OP(decskip) {
  if (a.size() < 3) return "bad-op";
  auto &dec = vh::registry()["dec"];
  return dec({"dec", "-", a[2]}) + " | " + dec({"dec", "01234", a[2]}) + " | " + dec({"dec", a[1], a[2]});
}

// encpoke [poke=<offset>:<byte>[,<offset>:<byte>…]] [skip=<types>] <enc args…> -- <geometry>: encodes through the public
//   API (as the `enc` op), overwrites bytes of the produced stream (negative offsets count from the end), then decodes
//   the result as `decskip` does:   -> ok <hex of the modified stream> | <ordinary> | <all skipped> | <skip=<types>>
VH_OP(encpoke) {
  vh::Args e;
  e.push_back("enc");
  std::string poke, skip = "-";
  for (size_t i = 1; i < a.size(); ++i) {
    if (a[i].rfind("poke=", 0) == 0 && poke.empty()) {
      poke = a[i].substr(5);
      continue;
    }
    if (a[i].rfind("skip=", 0) == 0) skip = a[i].substr(5);
    e.push_back(a[i]);
  }
  std::string r = vh::registry()["enc"](e);
  if (r.rfind("ok ", 0) != 0) return r;
  std::istringstream ss(r);
  std::string okt, hx;
  ss >> okt >> hx;
  std::vector<uint8_t> d = vh::unhex(hx);
  size_t p = 0;
  while (!poke.empty() && p <= poke.size()) {
    size_t q = poke.find(',', p);
    if (q == std::string::npos) q = poke.size();
    std::string item = poke.substr(p, q - p);
    size_t c = item.find(':');
    if (c != std::string::npos) {
      long long off = strtoll(item.substr(0, c).c_str(), nullptr, 10);
      long long idx = off < 0 ? static_cast<long long>(d.size()) + off : off;
      if (idx >= 0 && idx < static_cast<long long>(d.size())) d[idx] = static_cast<uint8_t>(atoi(item.substr(c + 1).c_str()));
    }
    p = q + 1;
  }
  std::string h2 = vh::hex(d);
  auto &dec = vh::registry()["dec"];
  return "ok " + h2 + " | " + dec({"dec", "-", h2}) + " | " + dec({"dec", "01234", h2}) + " | " + dec({"dec", skip, h2});
}
