// Shared helpers of the correspondence harness: line protocol, hex, op registry.
#ifndef VERIF_HARNESS_COMMON_H_
#define VERIF_HARNESS_COMMON_H_
#include <cstdint>
#include <cstdio>
#include <cstdlib>
#include <cstring>
#include <functional>
#include <map>
#include <sstream>
#include <string>
#include <vector>

namespace vh {

typedef std::vector<std::string> Args;
typedef std::function<std::string(const Args &)> OpFn;

std::map<std::string, OpFn> &registry();
struct Reg {
  Reg(const char *name, OpFn fn) { registry()[name] = fn; }
};
#define VH_OP(name) \
  static std::string op_##name(const vh::Args &a); \
  static vh::Reg reg_##name(#name, op_##name);     \
  static std::string op_##name(const vh::Args &a)

inline std::string hex(const uint8_t *p, size_t n) {
  static const char *d = "0123456789abcdef";
  if (n == 0) return "-";
  std::string s;
  s.resize(2 * n);
  for (size_t i = 0; i < n; ++i) {
    s[2 * i] = d[p[i] >> 4];
    s[2 * i + 1] = d[p[i] & 15];
  }
  return s;
}
inline std::string hex(const std::vector<uint8_t> &v) { return hex(v.data(), v.size()); }
inline std::string hex(const char *p, size_t n) { return hex(reinterpret_cast<const uint8_t *>(p), n); }

inline int hv(char c) {
  if (c >= '0' && c <= '9') return c - '0';
  if (c >= 'a' && c <= 'f') return c - 'a' + 10;
  if (c >= 'A' && c <= 'F') return c - 'A' + 10;
  return -1;
}
inline std::vector<uint8_t> unhex(const std::string &s) {
  std::vector<uint8_t> v;
  if (s == "-") return v;
  v.reserve(s.size() / 2);
  for (size_t i = 0; i + 1 < s.size(); i += 2) v.push_back(uint8_t(hv(s[i]) * 16 + hv(s[i + 1])));
  return v;
}
inline uint64_t u64(const std::string &s) { return strtoull(s.c_str(), nullptr, 10); }
inline int64_t i64(const std::string &s) { return strtoll(s.c_str(), nullptr, 10); }
inline std::vector<int64_t> ilist(const std::string &s) {  // comma separated, "-" = empty
  std::vector<int64_t> v;
  if (s == "-" || s.empty()) return v;
  size_t p = 0;
  while (p <= s.size()) {
    size_t q = s.find(',', p);
    if (q == std::string::npos) q = s.size();
    v.push_back(strtoll(s.substr(p, q - p).c_str(), nullptr, 10));
    p = q + 1;
  }
  return v;
}
template <class T>
inline std::string joinl(const std::vector<T> &v) {
  if (v.empty()) return "-";
  std::string s;
  for (size_t i = 0; i < v.size(); ++i) {
    if (i) s += ',';
    s += std::to_string(v[i]);
  }
  return s;
}

}  // namespace vh
#endif
