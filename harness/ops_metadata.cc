// C11: MetadataEncoder / MetadataDecoder on the real classes.
#include "common.h"
#include "draco/core/decoder_buffer.h"
#include "draco/core/encoder_buffer.h"
#include "draco/metadata/metadata_decoder.h"
#include "draco/metadata/metadata_encoder.h"
#include "meta_text.h"

using namespace draco;

// md <node text> [trail hex] -> "<status 0|1> <hex> | <decoded dump> <consumed>" (decode part "err" on failure,
//   "-" when the encoder reported failure)
VH_OP(md) {
  Metadata m;
  size_t pos = 0;
  if (!vh::parse_metadata(a[1], pos, &m)) return "bad-op";
  EncoderBuffer eb;
  MetadataEncoder enc;
  const bool ok = enc.EncodeMetadata(&eb, &m);
  if (!ok) return "0 - | -";
  std::vector<uint8_t> d(eb.data(), eb.data() + eb.size());
  if (a.size() > 2) {
    auto t = vh::unhex(a[2]);
    d.insert(d.end(), t.begin(), t.end());
  }
  DecoderBuffer db;
  db.Init(reinterpret_cast<const char *>(d.data()), d.size());
  db.set_bitstream_version(0x0203);
  MetadataDecoder dec;
  Metadata out;
  std::string r = "1 " + vh::hex(eb.data(), eb.size()) + " | ";
  if (!dec.DecodeMetadata(&db, &out)) return r + "err";
  return r + vh::dump_metadata(out) + " " + std::to_string(db.decoded_size());
}
// gmd <geometry metadata text> -> same for EncodeGeometryMetadata / DecodeGeometryMetadata
VH_OP(gmd) {
  auto g = vh::parse_geometry_metadata(a[1]);
  if (!g) return "bad-op";
  EncoderBuffer eb;
  MetadataEncoder enc;
  const bool ok = enc.EncodeGeometryMetadata(&eb, g.get());
  if (!ok) return "0 - | -";
  std::vector<uint8_t> d(eb.data(), eb.data() + eb.size());
  if (a.size() > 2) {
    auto t = vh::unhex(a[2]);
    d.insert(d.end(), t.begin(), t.end());
  }
  DecoderBuffer db;
  db.Init(reinterpret_cast<const char *>(d.data()), d.size());
  db.set_bitstream_version(0x0203);
  MetadataDecoder dec;
  GeometryMetadata out;
  std::string r = "1 " + vh::hex(eb.data(), eb.size()) + " | ";
  if (!dec.DecodeGeometryMetadata(&db, &out)) return r + "err";
  return r + vh::dump_geometry_metadata(out) + " " + std::to_string(db.decoded_size());
}
// mddec <hex>: MetadataDecoder on arbitrary bytes -> "<dump> <consumed>" | err
VH_OP(mddec) {
  auto d = vh::unhex(a[1]);
  DecoderBuffer db;
  db.Init(reinterpret_cast<const char *>(d.data()), d.size());
  db.set_bitstream_version(0x0203);
  MetadataDecoder dec;
  GeometryMetadata out;
  if (!dec.DecodeGeometryMetadata(&db, &out)) return "err";
  return vh::dump_geometry_metadata(out) + " " + std::to_string(db.decoded_size());
}
