// Robustness driver (C02 / C03 / C18): same line protocol as harness_main, plus
//  * an allocation monitor: replacement global operator new / delete that records, inside a
//    measurement window, the largest single request, the peak of live bytes and the number of
//    requests, and refuses (std::bad_alloc) requests above a cap so that an unjustified huge
//    request fails fast instead of exhausting the machine;
//  * a per-operation watchdog (VH_WATCHDOG seconds of CPU time, default 20; wall-clock backstop 15x): an operation that
//    does not return is reported on stderr as `ERROR: watchdog: …` and the process exits 124 —
//    the engine attributes that to the operation being executed;
//  * a SIGSEGV/SIGBUS reporter (non-sanitizer builds) that says whether the faulting address
//    lies in one of the guard pages around the caller's input bytes.
// usage: robust_main [opsfile]
#include <execinfo.h>
#include <malloc.h>
#include <signal.h>
#include <sys/time.h>
#include <unistd.h>

#include <fstream>
#include <iostream>
#include <new>

#include "alloc_monitor.h"
#include "common.h"

namespace vh {
std::map<std::string, OpFn> &registry() {
  static std::map<std::string, OpFn> r;
  return r;
}
}  // namespace vh

// ---------------------------------------------------------------- allocation monitor
static bool g_on = false;
static uint64_t g_cap = 0, g_live_cap = 0, g_max = 0, g_live = 0, g_peak = 0, g_count = 0, g_refused = 0, g_refused_live = 0;
static void *g_max_frames[24], *g_peak_frames[24];
static int g_max_nframes = 0, g_peak_nframes = 0;
static bool g_in_bt = false;
static uint64_t g_peak_sampled = 0;
static const uint64_t kSiteRequest = 256u << 10, kSitePeak = 4u << 20;

static inline void *vh_new(size_t n, size_t align) {
  if (g_on) {
    ++g_count;
    if (n > g_max) {
      g_max = n;
      if (n >= kSiteRequest && !g_in_bt) {
        g_in_bt = true;
        g_max_nframes = backtrace(g_max_frames, 24);
        g_in_bt = false;
      }
    }
    if (g_cap && n > g_cap) {
      if (!g_refused) g_refused = n;
      throw std::bad_alloc();
    }
    if (g_live_cap && g_live + n > g_live_cap) {
      if (!g_refused_live) g_refused_live = g_live + n;
      throw std::bad_alloc();
    }
  }
  void *p;
  if (align > alignof(std::max_align_t)) {
    size_t r = (n + align - 1) / align * align;
    p = aligned_alloc(align, r ? r : align);
  } else {
    p = malloc(n ? n : 1);
  }
  if (!p) throw std::bad_alloc();
  if (g_on) {
    g_live += malloc_usable_size(p);
    if (g_live > g_peak) {
      // stack of the request that raises the peak; sampled when the peak has grown by 1/8 since the last sample
      if (g_live >= kSitePeak && g_live > g_peak + 0 && !g_in_bt && (g_peak_nframes == 0 || g_live > g_peak_sampled + g_peak_sampled / 8)) {
        g_in_bt = true;
        g_peak_nframes = backtrace(g_peak_frames, 24);
        g_peak_sampled = g_live;
        g_in_bt = false;
      }
      g_peak = g_live;
    }
  }
  return p;
}
static inline void vh_delete(void *p) {
  if (!p) return;
  if (g_on) {
    const size_t u = malloc_usable_size(p);
    g_live = g_live >= u ? g_live - u : 0;
  }
  free(p);
}

void *operator new(size_t n) { return vh_new(n, 0); }
void *operator new[](size_t n) { return vh_new(n, 0); }
void *operator new(size_t n, std::align_val_t a) { return vh_new(n, static_cast<size_t>(a)); }
void *operator new[](size_t n, std::align_val_t a) { return vh_new(n, static_cast<size_t>(a)); }
void *operator new(size_t n, const std::nothrow_t &) noexcept {
  try {
    return vh_new(n, 0);
  } catch (...) {
    return nullptr;
  }
}
void *operator new[](size_t n, const std::nothrow_t &) noexcept {
  try {
    return vh_new(n, 0);
  } catch (...) {
    return nullptr;
  }
}
void operator delete(void *p) noexcept { vh_delete(p); }
void operator delete[](void *p) noexcept { vh_delete(p); }
void operator delete(void *p, size_t) noexcept { vh_delete(p); }
void operator delete[](void *p, size_t) noexcept { vh_delete(p); }
void operator delete(void *p, std::align_val_t) noexcept { vh_delete(p); }
void operator delete[](void *p, std::align_val_t) noexcept { vh_delete(p); }
void operator delete(void *p, size_t, std::align_val_t) noexcept { vh_delete(p); }
void operator delete[](void *p, size_t, std::align_val_t) noexcept { vh_delete(p); }
void operator delete(void *p, const std::nothrow_t &) noexcept { vh_delete(p); }
void operator delete[](void *p, const std::nothrow_t &) noexcept { vh_delete(p); }

extern "C" void vh_alloc_begin(uint64_t cap, uint64_t live_cap) {
  g_cap = cap;
  g_live_cap = live_cap;
  g_max = g_live = g_peak = g_count = g_refused = g_refused_live = g_peak_sampled = 0;
  g_max_nframes = g_peak_nframes = 0;
  g_on = true;
}
extern "C" void vh_alloc_end(VhAllocStats *out) {
  g_on = false;
  out->max_request = g_max;
  out->peak_live = g_peak;
  out->count = g_count;
  out->refused = g_refused;
  out->refused_live = g_refused_live;
  out->max_nframes = g_max_nframes;
  out->peak_nframes = g_peak_nframes;
  memcpy(out->max_frames, g_max_frames, sizeof(g_max_frames));
  memcpy(out->peak_frames, g_peak_frames, sizeof(g_peak_frames));
}

// ---------------------------------------------------------------- watchdog + fault reporter
static long g_line = 0;
static int g_watch = 20;
// guarded regions registered by ops_robust.cc: [lo, hi) of each mapping incl. guard pages
extern "C" {
uintptr_t vh_guard_lo[4] = {0, 0, 0, 0};
uintptr_t vh_guard_hi[4] = {0, 0, 0, 0};
}

static void put(const char *s) {
  ssize_t r = write(2, s, strlen(s));
  (void)r;
}
static void putnum(unsigned long v, int base) {
  char b[32];
  int i = 31;
  b[i] = 0;
  do {
    int d = static_cast<int>(v % base);
    b[--i] = static_cast<char>(d < 10 ? '0' + d : 'a' + d - 10);
    v /= base;
  } while (v && i > 0);
  put(b + i);
}
static void on_alarm(int) {
  put("ERROR: watchdog: operation on line ");
  putnum(static_cast<unsigned long>(g_line), 10);
  put(" exceeded ");
  putnum(static_cast<unsigned long>(g_watch), 10);
  put(" s of CPU time (or 15x that of wall clock): decoder does not terminate\n");
  _exit(124);
}
#if !defined(__SANITIZE_ADDRESS__) && !defined(__SANITIZE_THREAD__)
static void on_fault(int sig, siginfo_t *si, void *) {
  const uintptr_t a = reinterpret_cast<uintptr_t>(si->si_addr);
  put(sig == SIGBUS ? "ERROR: SIGBUS at 0x" : "ERROR: SIGSEGV at 0x");
  putnum(a, 16);
  for (int i = 0; i < 4; ++i)
    if (vh_guard_lo[i] && a >= vh_guard_lo[i] && a < vh_guard_hi[i])
      put(" inside the guarded read-only mapping of the caller's input bytes (out-of-bounds access or write to the input)");
  put(" on line ");
  putnum(static_cast<unsigned long>(g_line), 10);
  put("\n");
  _exit(139);
}
#endif

int main(int argc, char **argv) {
  std::ifstream f;
  std::istream *in = &std::cin;
  if (argc > 1) {
    f.open(argv[1]);
    in = &f;
  }
  std::ios::sync_with_stdio(false);
  // The library logs some rejections with printf (DRACO_LOGE): keep the line protocol on a private copy of stdout
  // and send everything else that is written to fd 1 to stderr.
  fflush(stdout);
  const int proto_fd = dup(1);
  dup2(2, 1);
  FILE *proto = fdopen(proto_fd, "w");
  if (!proto) return 2;
  if (const char *w = getenv("VH_WATCHDOG")) g_watch = atoi(w) > 0 ? atoi(w) : g_watch;
  signal(SIGALRM, on_alarm);
  signal(SIGPROF, on_alarm);
  {
    void *warm[4];
    backtrace(warm, 4);  // loads the unwinder now (its first call allocates)
  }
#if !defined(__SANITIZE_ADDRESS__) && !defined(__SANITIZE_THREAD__)
  {
    static char altstack[1 << 16];
    stack_t ss;
    ss.ss_sp = altstack;
    ss.ss_size = sizeof(altstack);
    ss.ss_flags = 0;
    sigaltstack(&ss, nullptr);
    struct sigaction sa;
    memset(&sa, 0, sizeof(sa));
    sa.sa_sigaction = on_fault;
    sa.sa_flags = SA_SIGINFO | SA_ONSTACK;
    sigaction(SIGSEGV, &sa, nullptr);
    sigaction(SIGBUS, &sa, nullptr);
  }
#endif
  std::string line;
  while (std::getline(*in, line)) {
    ++g_line;
    vh::Args a;
    std::istringstream ss(line);
    std::string t;
    while (ss >> t) a.push_back(t);
    if (a.empty()) {
      fputs("\n", proto);
      continue;
    }
    auto it = vh::registry().find(a[0]);
    if (it == vh::registry().end()) {
      fputs("bad-op\n", proto);
      continue;
    }
    // CPU-time watchdog (immune to stalls of a loaded machine) + a 15x longer wall-clock backstop
    struct itimerval tv;
    memset(&tv, 0, sizeof tv);
    tv.it_value.tv_sec = g_watch;
    setitimer(ITIMER_PROF, &tv, nullptr);
    alarm(static_cast<unsigned>(g_watch) * 15);
    std::string out = it->second(a);
    alarm(0);
    tv.it_value.tv_sec = 0;
    setitimer(ITIMER_PROF, &tv, nullptr);
    fputs(out.c_str(), proto);
    fputc('\n', proto);
    fflush(proto);
  }
  return 0;
}
