// Options / DracoOptions<int> / EncoderOptions against lean/DracoModel/Options.lean.
//   options <cmd> <cmd> ...      one result token per getter command, "-" for setters
// Commands act on a plain draco::Options object, or with the prefix "G." on the global options and with
// "A<key>." on the options of attribute <key> of an EncoderOptions object:
//   si:<name>:<int> sb:<name>:<0|1> sf:<name>:<float32 bits> ss:<name>:<hex text> sv:<name>:<bits,…> sw:<name>:<ints,…>
//   gi:<name>:<default> gb:<name>:<0|1> gf:<name>:<default bits> gs:<name> gv:<name>:<dims> gw:<name>:<dims> is:<name>
//   speed (EncoderOptions::GetSpeed)     merge (plain.MergeAndReplace(global options of the EncoderOptions))
#include "common.h"
#include "draco/compression/config/encoder_options.h"
#include "draco/core/options.h"

using namespace draco;

static float f_bits(uint32_t b) { float f; memcpy(&f, &b, 4); return f; }
static uint32_t bits_f(float f) { uint32_t b; memcpy(&b, &f, 4); return b; }

static std::vector<std::string> split(const std::string &s, char c) {
  std::vector<std::string> v;
  size_t p = 0;
  while (true) {
    size_t q = s.find(c, p);
    if (q == std::string::npos) { v.push_back(s.substr(p)); break; }
    v.push_back(s.substr(p, q - p));
    p = q + 1;
  }
  return v;
}

VH_OP(options) {
  Options plain;
  EncoderOptions eo = EncoderOptions::CreateEmptyOptions();
  std::string out;
  for (size_t k = 1; k < a.size(); ++k) {
    std::string t = a[k];
    int scope = 0;  // 0 plain, 1 global, 2 attribute
    int key = 0;
    if (t.rfind("G.", 0) == 0) { scope = 1; t = t.substr(2); }
    else if (t[0] == 'A') { size_t d = t.find('.'); key = atoi(t.substr(1, d - 1).c_str()); scope = 2; t = t.substr(d + 1); }
    auto p = split(t, ':');
    const std::string cmd = p[0];
    const std::string name = p.size() > 1 ? p[1] : "";
    const std::string arg = p.size() > 2 ? p[2] : "";
    std::string r = "-";
    if (cmd == "speed") r = std::to_string(eo.GetSpeed());
    else if (cmd == "merge") plain.MergeAndReplace(eo.GetGlobalOptions());
    else if (cmd == "si") { int v = static_cast<int>(vh::i64(arg)); if (scope == 0) plain.SetInt(name, v); else if (scope == 1) eo.SetGlobalInt(name, v); else eo.SetAttributeInt(key, name, v); }
    else if (cmd == "sb") { bool v = arg == "1"; if (scope == 0) plain.SetBool(name, v); else if (scope == 1) eo.SetGlobalBool(name, v); else eo.SetAttributeBool(key, name, v); }
    else if (cmd == "sf") { float v = f_bits(static_cast<uint32_t>(vh::u64(arg))); if (scope == 0) plain.SetFloat(name, v); else if (scope == 1) eo.SetGlobalFloat(name, v); else eo.SetAttributeFloat(key, name, v); }
    else if (cmd == "ss") { auto h = vh::unhex(arg); plain.SetString(name, std::string(h.begin(), h.end())); }
    else if (cmd == "sv") { std::vector<float> v; for (auto x : vh::ilist(arg)) v.push_back(f_bits(static_cast<uint32_t>(x)));
      if (scope == 0) plain.SetVector(name, v.data(), static_cast<int>(v.size())); else if (scope == 1) eo.SetGlobalVector(name, static_cast<int>(v.size()), v.data()); else eo.SetAttributeVector(key, name, static_cast<int>(v.size()), v.data()); }
    else if (cmd == "sw") { std::vector<int> v; for (auto x : vh::ilist(arg)) v.push_back(static_cast<int>(x)); plain.SetVector(name, v.data(), static_cast<int>(v.size())); }
    else if (cmd == "gi") { int d = static_cast<int>(vh::i64(arg)); r = std::to_string(scope == 0 ? plain.GetInt(name, d) : scope == 1 ? eo.GetGlobalInt(name, d) : eo.GetAttributeInt(key, name, d)); }
    else if (cmd == "gb") { bool d = arg == "1"; r = (scope == 0 ? plain.GetBool(name, d) : scope == 1 ? eo.GetGlobalBool(name, d) : eo.GetAttributeBool(key, name, d)) ? "1" : "0"; }
    else if (cmd == "gf") { float d = f_bits(static_cast<uint32_t>(vh::u64(arg))); r = std::to_string(bits_f(scope == 0 ? plain.GetFloat(name, d) : scope == 1 ? eo.GetGlobalFloat(name, d) : eo.GetAttributeFloat(key, name, d))); }
    else if (cmd == "gs") { std::string s = plain.GetString(name); r = vh::hex(s.data(), s.size()); }
    else if (cmd == "gv") { int n = atoi(arg.c_str()); std::vector<float> v(n > 0 ? n : 1, 0.f);
      bool ok = scope == 0 ? plain.GetVector(name, n, v.data()) : scope == 1 ? eo.GetGlobalVector(name, n, v.data()) : eo.GetAttributeVector(key, name, n, v.data());
      std::vector<uint32_t> b; for (int i = 0; i < n; ++i) b.push_back(bits_f(v[i])); r = std::string(ok ? "t" : "f") + vh::joinl(b); }
    else if (cmd == "gw") { int n = atoi(arg.c_str()); std::vector<int> v(n > 0 ? n : 1, 0); bool ok = plain.GetVector(name, n, v.data());
      std::vector<int64_t> b; for (int i = 0; i < n; ++i) b.push_back(v[i]); r = std::string(ok ? "t" : "f") + vh::joinl(b); }
    else if (cmd == "is") { r = (scope == 0 ? plain.IsOptionSet(name) : scope == 1 ? eo.IsGlobalOptionSet(name) : eo.IsAttributeOptionSet(key, name)) ? "1" : "0"; }
    else r = "bad";
    out += (out.empty() ? "" : " ") + r;
  }
  return out;
}
