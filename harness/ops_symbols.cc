// C08: EncodeSymbols / DecodeSymbols on the real functions.
#include "common.h"
#include "draco/compression/entropy/symbol_decoding.h"
#include "draco/compression/entropy/symbol_encoding.h"
#include "draco/core/decoder_buffer.h"
#include "draco/core/encoder_buffer.h"
#include "draco/core/options.h"

using namespace draco;

static bool enc_syms(const vh::Args &a, std::vector<uint32_t> *syms, std::vector<char> *out) {
  // a[1] level or -, a[2] method or -, a[3] comps, a[4] symbols
  auto l = vh::ilist(a[4]);
  syms->assign(l.begin(), l.end());
  Options opt;
  bool any = false;
  if (a[1] != "-") {
    SetSymbolEncodingCompressionLevel(&opt, atoi(a[1].c_str()));
    any = true;
  }
  if (a[2] != "-") {
    SetSymbolEncodingMethod(&opt, static_cast<SymbolCodingMethod>(atoi(a[2].c_str())));
    any = true;
  }
  EncoderBuffer eb;
  if (!EncodeSymbols(syms->data(), static_cast<int>(syms->size()), atoi(a[3].c_str()), any ? &opt : nullptr, &eb))
    return false;
  *out = *eb.buffer();
  return true;
}
static std::string dec_syms(const std::vector<char> &d, int n, int comps) {
  std::vector<char> data(d);
  DecoderBuffer db;
  db.Init(data.data(), data.size());
  db.set_bitstream_version(0x0203);
  std::vector<uint32_t> out(n + 8, 0xdeadbeef);
  if (!DecodeSymbols(n, comps, &db, out.data())) return "err";
  out.resize(n);
  return "ok " + std::to_string(db.decoded_size()) + " " + vh::joinl(out);
}
// syms_enc <level|-> <method|-> <comps> <symbolsCSV> -> ok <hex> | err
VH_OP(syms_enc) {
  std::vector<uint32_t> s;
  std::vector<char> out;
  if (!enc_syms(a, &s, &out)) return "err";
  return "ok " + vh::hex(out.data(), out.size());
}
// syms_dec <n> <comps> <hex> -> ok <consumed> <symbolsCSV> | err
VH_OP(syms_dec) {
  auto d8 = vh::unhex(a[3]);
  std::vector<char> d(d8.begin(), d8.end());
  return dec_syms(d, atoi(a[1].c_str()), atoi(a[2].c_str()));
}
// syms_rt <level|-> <method|-> <comps> <symbolsCSV> <trailhex> -> err-enc | <enc len> <dec result>
VH_OP(syms_rt) {
  std::vector<uint32_t> s;
  std::vector<char> out;
  if (!enc_syms(a, &s, &out)) return "err-enc";
  const size_t n = out.size();
  auto t = vh::unhex(a[5]);
  out.insert(out.end(), t.begin(), t.end());
  return std::to_string(n) + " " + dec_syms(out, static_cast<int>(s.size()), atoi(a[3].c_str()));
}
// syms_dmg <level|-> <method|-> <comps> <symbolsCSV> <trunc|flip|set> <a> <b> <n> <comps2>: damaged stream through the decoder
VH_OP(syms_dmg) {
  std::vector<uint32_t> s;
  std::vector<char> out;
  if (!enc_syms(a, &s, &out)) return "err-enc";
  const uint64_t x = vh::u64(a[6]), y = vh::u64(a[7]);
  if (a[5] == "trunc") {
    out.resize(x % (out.size() + 1));
  } else if (!out.empty()) {
    if (a[5] == "flip") out[x % out.size()] ^= static_cast<char>(1 << (y % 8));
    else out[x % out.size()] = static_cast<char>(y % 256);
  }
  return dec_syms(out, atoi(a[8].c_str()), atoi(a[9].c_str()));
}
