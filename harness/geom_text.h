// Canonical one-line text form of a geometry (shared with lean/DracoModel/Geometry.lean):
//   <pc|mesh> <numPoints> <numFaces> <facesCSV|-> <numAtts>
//   { <attType> <dataType> <numComp> <normalized> <uniqueId> <numValues> <mapCSV|id> <valuesHex|-> <transform> }*
// transform: none | q,<bits>,<rangeBits>,<minBitsCSV> | o,<bits>
#ifndef VERIF_HARNESS_GEOM_TEXT_H_
#define VERIF_HARNESS_GEOM_TEXT_H_
#include <memory>

#include "common.h"
#include "draco/attributes/attribute_octahedron_transform.h"
#include "draco/attributes/attribute_quantization_transform.h"
#include "draco/mesh/mesh.h"
#include "draco/point_cloud/point_cloud.h"

namespace vh {

inline std::string dump_attribute(const draco::PointAttribute *a, uint32_t num_points) {
  std::string s;
  s += std::to_string(static_cast<int>(a->attribute_type())) + " ";
  s += std::to_string(static_cast<int>(a->data_type())) + " ";
  s += std::to_string(static_cast<int>(a->num_components())) + " ";
  s += std::string(a->normalized() ? "1" : "0") + " ";
  s += std::to_string(a->unique_id()) + " ";
  s += std::to_string(a->size()) + " ";
  if (a->is_mapping_identity()) {
    s += "id ";
  } else {
    std::vector<uint32_t> m(num_points);
    for (uint32_t p = 0; p < num_points; ++p) m[p] = a->mapped_index(draco::PointIndex(p)).value();
    s += joinl(m) + " ";
  }
  const size_t nbytes = static_cast<size_t>(a->size()) * a->byte_stride();
  if (a->buffer() == nullptr || a->buffer()->data_size() < nbytes) {
    s += "SHORTBUFFER ";
  } else {
    s += hex(a->buffer()->data(), nbytes) + " ";
  }
  const draco::AttributeTransformData *td = a->GetAttributeTransformData();
  if (!td || td->transform_type() == draco::ATTRIBUTE_INVALID_TRANSFORM ||
      td->transform_type() == draco::ATTRIBUTE_NO_TRANSFORM) {
    s += "none";
  } else if (td->transform_type() == draco::ATTRIBUTE_QUANTIZATION_TRANSFORM) {
    draco::AttributeQuantizationTransform t;
    if (!t.InitFromAttribute(*a)) {
      s += "badtransform";
    } else {
      uint32_t rb;
      float r = t.range();
      memcpy(&rb, &r, 4);
      std::vector<uint32_t> mb;
      for (int c = 0; c < a->num_components(); ++c) {
        uint32_t b;
        float v = t.min_value(c);
        memcpy(&b, &v, 4);
        mb.push_back(b);
      }
      s += "q," + std::to_string(t.quantization_bits()) + "," + std::to_string(rb) + "," + joinl(mb);
    }
  } else {
    draco::AttributeOctahedronTransform t;
    if (!t.InitFromAttribute(*a)) {
      s += "badtransform";
    } else {
      s += "o," + std::to_string(t.quantization_bits());
    }
  }
  return s;
}

inline std::string dump_geometry(const draco::PointCloud *pc, const draco::Mesh *mesh) {
  std::string s = mesh ? "mesh " : "pc ";
  s += std::to_string(pc->num_points()) + " ";
  if (mesh) {
    s += std::to_string(mesh->num_faces()) + " ";
    std::vector<uint32_t> fl;
    fl.reserve(mesh->num_faces() * 3);
    for (draco::FaceIndex f(0); f < mesh->num_faces(); ++f)
      for (int j = 0; j < 3; ++j) fl.push_back(mesh->face(f)[j].value());
    s += joinl(fl) + " ";
  } else {
    s += "0 - ";
  }
  s += std::to_string(pc->num_attributes());
  for (int i = 0; i < pc->num_attributes(); ++i) s += " " + dump_attribute(pc->attribute(i), pc->num_points());
  return s;
}

// parses tokens a[pos...]; returns the geometry (Mesh when the kind is mesh) and advances pos
inline std::unique_ptr<draco::PointCloud> parse_geometry(const Args &a, size_t &pos, bool *is_mesh) {
  const bool mesh = a[pos] == "mesh";
  *is_mesh = mesh;
  std::unique_ptr<draco::PointCloud> pc(mesh ? new draco::Mesh() : new draco::PointCloud());
  const uint32_t np = static_cast<uint32_t>(u64(a[pos + 1]));
  auto fl = ilist(a[pos + 3]);
  const int na = atoi(a[pos + 4].c_str());
  pos += 5;
  pc->set_num_points(np);
  if (mesh) {
    draco::Mesh *m = static_cast<draco::Mesh *>(pc.get());
    for (size_t i = 0; i + 2 < fl.size(); i += 3) {
      draco::Mesh::Face f;
      for (int j = 0; j < 3; ++j) f[j] = draco::PointIndex(static_cast<uint32_t>(fl[i + j]));
      m->AddFace(f);
    }
  }
  for (int i = 0; i < na; ++i) {
    const int at = atoi(a[pos].c_str()), dt = atoi(a[pos + 1].c_str()), nc = atoi(a[pos + 2].c_str());
    const bool nz = a[pos + 3] == "1";
    const uint32_t uid = static_cast<uint32_t>(u64(a[pos + 4]));
    const uint32_t nv = static_cast<uint32_t>(u64(a[pos + 5]));
    const std::string &mp = a[pos + 6];
    auto vals = unhex(a[pos + 7]);
    pos += 9;
    draco::GeometryAttribute ga;
    const draco::DataType ddt = static_cast<draco::DataType>(dt);
    ga.Init(static_cast<draco::GeometryAttribute::Type>(at), nullptr, nc, ddt, nz,
            draco::DataTypeLength(ddt) * nc, 0);
    std::unique_ptr<draco::PointAttribute> pa(new draco::PointAttribute(ga));
    pa->Reset(nv);
    if (!vals.empty()) pa->buffer()->Write(0, vals.data(), vals.size());
    if (mp == "id") {
      pa->SetIdentityMapping();
    } else {
      auto m = ilist(mp);
      pa->SetExplicitMapping(np);
      for (uint32_t p = 0; p < np && p < m.size(); ++p)
        pa->SetPointMapEntry(draco::PointIndex(p), draco::AttributeValueIndex(static_cast<uint32_t>(m[p])));
    }
    const int id = pc->AddAttribute(std::move(pa));
    pc->attribute(id)->set_unique_id(uid);
  }
  return pc;
}

}  // namespace vh
#endif
