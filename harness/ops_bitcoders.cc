// C17: binary coders and the buffers' bit mode on the real classes.
//   bc_enc <kind> <ops>                      -> hex
//   bc_dec <kind> <legacy 0|1> <hex> <reqs>  -> F | <pos>:<v>,<v>,…   (x = the call returned false)
//   bc_rt  <kind> <ops> <trailhex>           -> encode, append trailing bytes, decode with the op widths
// ops: b0 | b1 | l<nbits>:<value>   reqs: b | l<nbits>   kinds: rans adapt direct folded foldedadapt bits0 bits1
#include <array>

#include "common.h"
#include "draco/compression/bit_coders/adaptive_rans_bit_decoder.h"
#include "draco/compression/bit_coders/adaptive_rans_bit_encoder.h"
#include "draco/compression/bit_coders/direct_bit_decoder.h"
#include "draco/compression/bit_coders/direct_bit_encoder.h"
#include "draco/compression/bit_coders/folded_integer_bit_decoder.h"
#include "draco/compression/bit_coders/folded_integer_bit_encoder.h"
#include "draco/compression/bit_coders/rans_bit_decoder.h"
#include "draco/compression/bit_coders/rans_bit_encoder.h"
#include "draco/core/decoder_buffer.h"
#include "draco/core/encoder_buffer.h"

using namespace draco;

struct Op {
  bool is_bit;
  int nbits;
  uint32_t value;
};
static std::vector<Op> parse_ops(const std::string &s) {
  std::vector<Op> v;
  if (s == "-" || s.empty()) return v;
  size_t p = 0;
  while (p <= s.size()) {
    size_t q = s.find(',', p);
    if (q == std::string::npos) q = s.size();
    std::string t = s.substr(p, q - p);
    Op o{true, 1, 0};
    if (t[0] == 'b') {
      o.value = t.size() > 1 && t[1] == '1';
    } else {
      o.is_bit = false;
      size_t c = t.find(':');
      o.nbits = atoi(t.substr(1, c == std::string::npos ? std::string::npos : c - 1).c_str());
      o.value = c == std::string::npos ? 0 : static_cast<uint32_t>(strtoull(t.substr(c + 1).c_str(), nullptr, 10));
    }
    v.push_back(o);
    p = q + 1;
  }
  return v;
}
template <class E>
static std::vector<char> Encode(const std::vector<Op> &ops) {
  E enc;
  enc.StartEncoding();
  for (auto &o : ops) {
    if (o.is_bit)
      enc.EncodeBit(o.value != 0);
    else
      enc.EncodeLeastSignificantBits32(o.nbits, o.value);
  }
  EncoderBuffer buf;
  enc.EndEncoding(&buf);
  return *buf.buffer();
}
static std::string DecLSB(DirectBitDecoder &d, int n) {
  uint32_t v = 0xdeadbeef;
  if (!d.DecodeLeastSignificantBits32(n, &v)) return "x";
  return std::to_string(v);
}
template <class D>
static std::string DecLSB(D &d, int n) {
  uint32_t v = 0xdeadbeef;
  d.DecodeLeastSignificantBits32(n, &v);
  return std::to_string(v);
}
template <class D>
static std::string Decode(const std::vector<char> &in, bool legacy, const std::vector<Op> &reqs) {
  std::vector<char> data(in);  // exact-size heap block: over-reads are visible to ASan
  DecoderBuffer buf;
  buf.Init(data.data(), data.size());
  buf.set_bitstream_version(legacy ? 0x0201 : 0x0203);
  D dec;
  if (!dec.StartDecoding(&buf)) return "F";
  std::string s = std::to_string(buf.decoded_size()) + ":";
  for (size_t i = 0; i < reqs.size(); ++i) {
    if (i) s += ',';
    if (reqs[i].is_bit)
      s += dec.DecodeNextBit() ? "1" : "0";
    else
      s += DecLSB(dec, reqs[i].nbits);
  }
  dec.EndDecoding();
  return s;
}
static std::vector<char> EncodeBits(const std::vector<Op> &ops, bool with_size) {
  EncoderBuffer buf;
  int64_t total = 0;
  for (auto &o : ops) total += o.nbits;
  if (!buf.StartBitEncoding(total + 17, with_size)) return std::vector<char>();
  for (auto &o : ops) buf.EncodeLeastSignificantBits32(o.nbits, o.value);
  buf.EndBitEncoding();
  return *buf.buffer();
}
static std::string DecodeBits(const std::vector<char> &in, bool legacy, bool with_size, const std::vector<Op> &reqs) {
  std::vector<char> data(in);
  DecoderBuffer buf;
  buf.Init(data.data(), data.size());
  buf.set_bitstream_version(legacy ? 0x0201 : 0x0203);
  uint64_t size = 0;
  if (!buf.StartBitDecoding(with_size, &size)) return "F";
  std::string vals;
  for (size_t i = 0; i < reqs.size(); ++i) {
    if (i) vals += ',';
    uint32_t v = 0xdeadbeef;
    if (!buf.DecodeLeastSignificantBits32(reqs[i].nbits, &v))
      vals += "x";
    else
      vals += std::to_string(v);
  }
  buf.EndBitDecoding();
  return std::to_string(buf.decoded_size()) + ":" + std::to_string(size) + (reqs.empty() ? "" : ",") + vals;
}
static bool enc_kind(const std::string &k, const std::vector<Op> &ops, std::vector<char> *out) {
  if (k == "rans") *out = Encode<RAnsBitEncoder>(ops);
  else if (k == "adapt") *out = Encode<AdaptiveRAnsBitEncoder>(ops);
  else if (k == "direct") *out = Encode<DirectBitEncoder>(ops);
  else if (k == "folded") *out = Encode<FoldedBit32Encoder<RAnsBitEncoder>>(ops);
  else if (k == "foldedadapt") *out = Encode<FoldedBit32Encoder<AdaptiveRAnsBitEncoder>>(ops);
  else if (k == "bits0") *out = EncodeBits(ops, false);
  else if (k == "bits1") *out = EncodeBits(ops, true);
  else return false;
  return true;
}
static std::string dec_kind(const std::string &k, const std::vector<char> &d, bool legacy, const std::vector<Op> &reqs) {
  if (k == "rans") return Decode<RAnsBitDecoder>(d, legacy, reqs);
  if (k == "adapt") return Decode<AdaptiveRAnsBitDecoder>(d, legacy, reqs);
  if (k == "direct") return Decode<DirectBitDecoder>(d, legacy, reqs);
  if (k == "folded") return Decode<FoldedBit32Decoder<RAnsBitDecoder>>(d, legacy, reqs);
  if (k == "foldedadapt") return Decode<FoldedBit32Decoder<AdaptiveRAnsBitDecoder>>(d, legacy, reqs);
  if (k == "bits0") return DecodeBits(d, legacy, false, reqs);
  if (k == "bits1") return DecodeBits(d, legacy, true, reqs);
  return "bad-op";
}
VH_OP(bc_enc) {
  std::vector<char> out;
  if (!enc_kind(a[1], parse_ops(a[2]), &out)) return "bad-op";
  return vh::hex(out.data(), out.size());
}
VH_OP(bc_dec) {
  auto d8 = vh::unhex(a[3]);
  std::vector<char> d(d8.begin(), d8.end());
  return dec_kind(a[1], d, a[2] == "1", parse_ops(a[4]));
}
VH_OP(bc_rt) {
  auto ops = parse_ops(a[2]);
  std::vector<char> out;
  if (!enc_kind(a[1], ops, &out)) return "bad-op";
  const size_t n = out.size();
  if (a.size() > 3) {
    auto t = vh::unhex(a[3]);
    out.insert(out.end(), t.begin(), t.end());
  }
  return std::to_string(n) + " " + dec_kind(a[1], out, false, ops);
}
// bc_dmg <kind> <ops> <trunc|flip|set> <a> <b> <legacy> <reqs>: encode with the real encoder, damage the stream
// deterministically (trunc: keep a % (len+1) bytes; flip: bit b%8 of byte a%len; set: byte a%len := b%256),
// decode with the requests -> same format as bc_dec
VH_OP(bc_dmg) {
  auto ops = parse_ops(a[2]);
  std::vector<char> out;
  if (!enc_kind(a[1], ops, &out)) return "bad-op";
  const uint64_t x = vh::u64(a[4]), y = vh::u64(a[5]);
  if (a[3] == "trunc") {
    out.resize(x % (out.size() + 1));
  } else if (!out.empty()) {
    if (a[3] == "flip") out[x % out.size()] ^= static_cast<char>(1 << (y % 8));
    else out[x % out.size()] = static_cast<char>(y % 256);
  }
  return dec_kind(a[1], out, a[6] == "1", parse_ops(a[7]));
}

#include "draco/compression/entropy/ans.h"
static const uint64_t kModB = 2305843009213693951ULL;
static inline void mixb(uint64_t &h, uint32_t v) {
  h = static_cast<uint64_t>((static_cast<unsigned __int128>(h) * 1000003u + v) % kModB);
}
// ans_tail_sweep <lo> <hi>: for every rABS state s in [lo, hi): ans_write_end then ans_read_init
//   -> "<digest of the tail bytes> <states not restored> <n>"
VH_OP(ans_tail_sweep) {
  const uint32_t lo = static_cast<uint32_t>(vh::u64(a[1])), hi = static_cast<uint32_t>(vh::u64(a[2]));
  uint64_t h = 7;
  long bad = 0, n = 0;
  for (uint32_t s = lo; s < hi; ++s) {
    uint8_t buf[8] = {0};
    AnsCoder c;
    ans_write_init(&c, buf);
    c.state = s;
    const int len = ans_write_end(&c);
    for (int i = 0; i < len; ++i) mixb(h, buf[i]);
    mixb(h, 0x100 + len);
    AnsDecoder d;
    if (ans_read_init(&d, buf, len) != 0 || d.state != s || d.buf_offset != 0) ++bad;
    ++n;
  }
  return std::to_string(h) + " " + std::to_string(bad) + " " + std::to_string(n);
}
// bc_reuse <kind> <ops1> <ops2>: ONE encoder object and ONE decoder object process two streams in a row
//   -> "<len1> <decode1> | <len2> <decode2>"
template <class E, class D>
static std::string Reuse(const std::vector<Op> &o1, const std::vector<Op> &o2) {
  E enc;
  D dec;
  std::string res;
  const std::vector<Op> *both[2] = {&o1, &o2};
  for (int k = 0; k < 2; ++k) {
    enc.StartEncoding();
    for (auto &o : *both[k]) {
      if (o.is_bit)
        enc.EncodeBit(o.value != 0);
      else
        enc.EncodeLeastSignificantBits32(o.nbits, o.value);
    }
    EncoderBuffer buf;
    enc.EndEncoding(&buf);
    std::vector<char> data(*buf.buffer());
    DecoderBuffer db;
    db.Init(data.data(), data.size());
    db.set_bitstream_version(0x0203);
    std::string s = std::to_string(data.size()) + " ";
    if (!dec.StartDecoding(&db)) {
      s += "F";
    } else {
      s += std::to_string(db.decoded_size()) + ":";
      for (size_t i = 0; i < both[k]->size(); ++i) {
        if (i) s += ',';
        const Op &o = (*both[k])[i];
        if (o.is_bit)
          s += dec.DecodeNextBit() ? "1" : "0";
        else
          s += DecLSB(dec, o.nbits);
      }
      dec.EndDecoding();
    }
    res += (k ? " | " : "") + s;
  }
  return res;
}
VH_OP(bc_reuse) {
  auto o1 = parse_ops(a[2]), o2 = parse_ops(a[3]);
  const std::string &k = a[1];
  if (k == "rans") return Reuse<RAnsBitEncoder, RAnsBitDecoder>(o1, o2);
  if (k == "adapt") return Reuse<AdaptiveRAnsBitEncoder, AdaptiveRAnsBitDecoder>(o1, o2);
  if (k == "direct") return Reuse<DirectBitEncoder, DirectBitDecoder>(o1, o2);
  if (k == "folded") return Reuse<FoldedBit32Encoder<RAnsBitEncoder>, FoldedBit32Decoder<RAnsBitDecoder>>(o1, o2);
  if (k == "foldedadapt")
    return Reuse<FoldedBit32Encoder<AdaptiveRAnsBitEncoder>, FoldedBit32Decoder<AdaptiveRAnsBitDecoder>>(o1, o2);
  return "bad-op";
}
