// C14: the mesh building / clean-up utilities on the real classes (mirror of lean/Ops/MeshTools.lean).
//
//   dedupv  <geom>         PointCloud::DeduplicateAttributeValues     -> <geom'> || <again> [|| ret=false]
//   dedupp  <geom>         PointCloud::DeduplicatePointIds            -> <geom'> || <again>
//   dedupvp <geom>         both, in the order the builders use        -> <geom'> || <again>
//        <again> = "=" when running the same operation a second time on the result leaves the canonical
//        dump unchanged (idempotence observed on the real object), otherwise the second dump
//   cleanup <bits> <geom>  MeshCleanup::Cleanup; bits: 1 degenerated, 2 duplicate, 4 unused, 8 manifold
//                                                                     -> ok <geom'> || <again> | err | err-modified <geom'>
//        <again> = "=" when a second Cleanup with the same options leaves the dump unchanged
//   strips <0|1> <geom>    MeshStripifier, 1 = primitive restart with index 0xFFFFFFFF, 0 = degenerate triangles
//                                                                     -> ok <indicesCSV> | fail
//   buildmesh <nf> <na> {<attType> <dt> <nc> <nz> <kinds> <hex>}*     TriangleSoupMeshBuilder -> <geom> || <again> | null
//        <again>: both deduplications run once more on the finalized geometry (buildpc: only with <dedup> = 1)
//        kinds: one char per face, '1' = SetPerFaceAttributeValueForFace (one value in <hex>), else
//        SetAttributeValuesForFace (three values in <hex>)
//   buildpc <np> <dedup> <na> {<attType> <dt> <nc> <nz> <mode> <hex>}*   PointCloudBuilder -> <geom> | null
//        mode: 0 = SetAttributeValueForPoint per point, 1 = SetAttributeValuesForAllPoints (tight stride),
//        2 = SetAttributeValuesForAllPoints with a padded stride
//   buildmeshh <A> -- <B>, buildpch <A> -- <B>: one builder object used for description A, then for B; output as for B
//
// Every geometry handed in must be structurally valid (C03); the ops refuse anything else ("invalid-input")
// instead of running the library outside its contract.
#include <iterator>

#include "common.h"
#include "draco/mesh/mesh_cleanup.h"
#include "draco/mesh/mesh_stripifier.h"
#include "draco/mesh/triangle_soup_mesh_builder.h"
#include "draco/point_cloud/point_cloud_builder.h"
#include "geom_text.h"

using namespace draco;

namespace {

bool valid_geometry(const PointCloud *pc, const Mesh *mesh) {
  const uint32_t np = pc->num_points();
  if (mesh) {
    for (FaceIndex f(0); f < mesh->num_faces(); ++f)
      for (int j = 0; j < 3; ++j)
        if (mesh->face(f)[j].value() >= np) return false;
  }
  for (int i = 0; i < pc->num_attributes(); ++i) {
    const PointAttribute *a = pc->attribute(i);
    if (a->num_components() < 1 || DataTypeLength(a->data_type()) < 1) return false;
    if (a->buffer() == nullptr || a->buffer()->data_size() < static_cast<size_t>(a->size()) * a->byte_stride())
      return false;
    if (a->is_mapping_identity()) {
      if (a->size() < np) return false;
    } else {
      if (a->indices_map_size() != np) return false;
      for (uint32_t p = 0; p < np; ++p)
        if (a->mapped_index(PointIndex(p)).value() >= a->size()) return false;
    }
  }
  return true;
}

struct Parsed {
  std::unique_ptr<PointCloud> pc;
  Mesh *mesh = nullptr;
  bool ok = false;
};

Parsed parse(const vh::Args &a, size_t pos) {
  Parsed r;
  if (a.size() < pos + 5) return r;
  const int na = atoi(a[pos + 4].c_str());
  if (na < 0 || a.size() < pos + 5 + 9 * static_cast<size_t>(na)) return r;
  bool is_mesh = false;
  r.pc = vh::parse_geometry(a, pos, &is_mesh);
  r.mesh = is_mesh ? static_cast<Mesh *>(r.pc.get()) : nullptr;
  r.ok = valid_geometry(r.pc.get(), r.mesh);
  return r;
}

// canonical dump; an attribute without any value may have no buffer at all (PointCloud::CreateAttribute with
// zero values never calls Reset): that is an empty value list, not a short buffer
std::string dump_geom(const PointCloud *pc, const Mesh *mesh) {
  std::string s = vh::dump_geometry(pc, mesh);
  bool any = false;
  for (int i = 0; i < pc->num_attributes(); ++i) any = any || pc->attribute(i)->size() == 0;
  if (!any) return s;
  std::vector<std::string> t;
  std::istringstream ss(s);
  std::string w;
  while (ss >> w) t.push_back(w);
  for (int i = 0; i < pc->num_attributes(); ++i) {
    const size_t k = 5 + 9 * static_cast<size_t>(i) + 7;
    if (pc->attribute(i)->size() == 0 && k < t.size() && t[k] == "SHORTBUFFER") t[k] = "-";
  }
  std::string r;
  for (size_t i = 0; i < t.size(); ++i) r += (i ? " " : "") + t[i];
  return r;
}

std::string dump(const Parsed &g) { return dump_geom(g.pc.get(), g.mesh); }

template <class F>
std::string twice(Parsed &g, F op) {
  std::string extra;
  if (!op(g.pc.get())) extra = " || ret=false";
  const std::string d1 = dump(g);
  if (!op(g.pc.get())) extra = " || ret=false";
  const std::string d2 = dump(g);
  return d1 + " || " + (d1 == d2 ? std::string("=") : d2) + extra;
}

// value bytes of an attribute description, zero padded to what the calls will read
struct AttIn {
  int att_type, dt, nc, stride;
  bool nz;
  std::string kinds;
  std::vector<uint8_t> data;
};

bool parse_att(const vh::Args &a, size_t pos, AttIn *o) {
  if (a.size() < pos + 6) return false;
  o->att_type = atoi(a[pos].c_str());
  o->dt = atoi(a[pos + 1].c_str());
  o->nc = atoi(a[pos + 2].c_str());
  o->nz = a[pos + 3] == "1";
  o->kinds = a[pos + 4] == "-" ? std::string() : a[pos + 4];
  o->data = vh::unhex(a[pos + 5]);
  if (o->att_type < 0 || o->att_type >= GeometryAttribute::NAMED_ATTRIBUTES_COUNT) return false;
  if (o->nc < 1 || o->nc > 127) return false;
  const int l = DataTypeLength(static_cast<DataType>(o->dt));
  if (l < 1) return false;
  o->stride = l * o->nc;
  return true;
}

}  // namespace

VH_OP(dedupv) {
  Parsed g = parse(a, 1);
  if (!g.ok) return "invalid-input";
  return twice(g, [](PointCloud *pc) { return pc->DeduplicateAttributeValues(); });
}

// dedupx <offset> <point cloud with ONE attribute, identity map>: the documented external-source entry points of
// PointAttribute: a fresh destination attribute of n = size - offset entries deduplicates the source's values
// [offset, offset + n) into itself (DeduplicateValues(in_att) when offset = 0 and `plain`, else the offset overload).
//   -> ret=<r> unique=<dst.size()> | <hex of the value of every destination point> | <hex of every stored value>
VH_OP(dedupx) {
  if (a.size() < 3) return "bad-op";
  const int offset = atoi(a[1].c_str());
  const bool plain = a[2] == "plain";
  Parsed g = parse(a, 3);
  if (!g.ok || g.pc->num_attributes() != 1) return "invalid-input";
  const PointAttribute *src = g.pc->attribute(0);
  const int n = static_cast<int>(src->size()) - offset;
  if (offset < 0 || n < 1) return "invalid-input";
  PointAttribute dst;
  dst.Init(src->attribute_type(), src->num_components(), src->data_type(), src->normalized(), n);
  const int64_t r = (plain && offset == 0) ? dst.DeduplicateValues(*src)
                                           : dst.DeduplicateValues(*src, AttributeValueIndex(offset));
  std::string out = "ret=" + std::to_string(r) + " unique=" + std::to_string(dst.size()) + " |";
  if (r < 0) return out;
  std::vector<uint8_t> v(src->byte_stride());
  for (int i = 0; i < n; ++i) {
    const AttributeValueIndex vi = dst.mapped_index(PointIndex(i));
    if (vi.value() >= dst.size()) return out + " OUT-OF-RANGE-MAP";
    dst.GetValue(vi, v.data());
    out += " " + vh::hex(v.data(), v.size());
  }
  out += " |";
  for (uint32_t i = 0; i < dst.size(); ++i) {
    dst.GetValue(AttributeValueIndex(i), v.data());
    out += " " + vh::hex(v.data(), v.size());
  }
  return out;
}

VH_OP(dedupp) {
  Parsed g = parse(a, 1);
  if (!g.ok) return "invalid-input";
  return twice(g, [](PointCloud *pc) {
    pc->DeduplicatePointIds();
    return true;
  });
}

VH_OP(dedupvp) {
  Parsed g = parse(a, 1);
  if (!g.ok) return "invalid-input";
  return twice(g, [](PointCloud *pc) {
    const bool r = pc->DeduplicateAttributeValues();
    pc->DeduplicatePointIds();
    return r;
  });
}

VH_OP(cleanup) {
  if (a.size() < 3) return "invalid-input";
  const int bits = atoi(a[1].c_str());
  Parsed g = parse(a, 2);
  if (!g.ok || !g.mesh) return "invalid-input";
  MeshCleanupOptions o;
  o.remove_degenerated_faces = (bits & 1) != 0;
  o.remove_duplicate_faces = (bits & 2) != 0;
  o.remove_unused_attributes = (bits & 4) != 0;
  o.make_geometry_manifold = (bits & 8) != 0;
  const std::string before = dump(g);
  const Status s = MeshCleanup::Cleanup(g.mesh, o);
  const std::string after = dump(g);
  if (!s.ok()) return before == after ? std::string("err") : "err-modified " + after;
  // a second run with the same options (theorem cleanup_idempotent: the model returns its input)
  const Status s2 = MeshCleanup::Cleanup(g.mesh, o);
  const std::string again = dump(g);
  return "ok " + after + " || " + (s2.ok() && again == after ? std::string("=") : (s2.ok() ? "ok " : "err ") + again);
}

VH_OP(strips) {
  if (a.size() < 3) return "invalid-input";
  const bool restart = a[1] == "1";
  Parsed g = parse(a, 2);
  if (!g.ok || !g.mesh) return "invalid-input";
  MeshStripifier st;
  std::vector<uint32_t> out;
  bool ok;
  if (restart)
    ok = st.GenerateTriangleStripsWithPrimitiveRestart(*g.mesh, uint32_t(0xFFFFFFFFu), std::back_inserter(out));
  else
    ok = st.GenerateTriangleStripsWithDegenerateTriangles(*g.mesh, std::back_inserter(out));
  if (!ok) return "fail";
  return "ok " + vh::joinl(out);
}

// stripsh <modeA> <modeB> <geometry A> -- <geometry B>: ONE MeshStripifier object generates strips for A (mode A),
// then for B (mode B); the answer for B is held to the same standard as a fresh object's: output as `strips <modeB> B`
VH_OP(stripsh) {
  if (a.size() < 4) return "invalid-input";
  size_t sep = 3;
  while (sep < a.size() && a[sep] != "--") ++sep;
  if (sep >= a.size()) return "invalid-input";
  Parsed ga = parse(a, 3);
  vh::Args rest(a.begin() + sep + 1, a.end());
  Parsed gb = parse(rest, 0);
  if (!ga.ok || !ga.mesh || !gb.ok || !gb.mesh) return "invalid-input";
  MeshStripifier st;
  std::vector<uint32_t> scratch, out;
  if (a[1] == "1")
    (void)st.GenerateTriangleStripsWithPrimitiveRestart(*ga.mesh, uint32_t(0xFFFFFFFFu), std::back_inserter(scratch));
  else
    (void)st.GenerateTriangleStripsWithDegenerateTriangles(*ga.mesh, std::back_inserter(scratch));
  bool ok;
  if (a[2] == "1")
    ok = st.GenerateTriangleStripsWithPrimitiveRestart(*gb.mesh, uint32_t(0xFFFFFFFFu), std::back_inserter(out));
  else
    ok = st.GenerateTriangleStripsWithDegenerateTriangles(*gb.mesh, std::back_inserter(out));
  if (!ok) return "fail";
  return "ok " + vh::joinl(out);
}

// one Start … Finalize cycle of `b` for the description a[1..] = <nf> <na> {att}*
static std::string run_buildmesh(TriangleSoupMeshBuilder &b, const vh::Args &a) {
  if (a.size() < 3) return "invalid-input";
  const int nf = atoi(a[1].c_str()), na = atoi(a[2].c_str());
  if (nf < 0 || na < 0) return "invalid-input";
  std::vector<AttIn> atts(na);
  for (int k = 0; k < na; ++k) {
    if (!parse_att(a, 3 + 6 * static_cast<size_t>(k), &atts[k])) return "invalid-input";
    if (static_cast<int>(atts[k].kinds.size()) != nf) return "invalid-input";
  }
  b.Start(nf);
  std::vector<int> ids(na);
  std::vector<std::vector<size_t>> offs(na);
  for (int k = 0; k < na; ++k) {
    AttIn &t = atts[k];
    ids[k] = b.AddAttribute(static_cast<GeometryAttribute::Type>(t.att_type), static_cast<int8_t>(t.nc),
                            static_cast<DataType>(t.dt), t.nz);
    if (ids[k] != k) return "invalid-input";
    size_t need = 0;
    offs[k].resize(nf);
    for (int f = 0; f < nf; ++f) {
      offs[k][f] = need;
      need += static_cast<size_t>(t.stride) * (t.kinds[f] == '1' ? 1 : 3);
    }
    if (t.data.size() < need) t.data.resize(need, 0);
  }
  auto set = [&](int k, int f) {
    const AttIn &t = atts[k];
    const uint8_t *p = t.data.data() + offs[k][f];
    if (t.kinds[f] == '1')
      b.SetPerFaceAttributeValueForFace(ids[k], FaceIndex(f), p);
    else
      b.SetAttributeValuesForFace(ids[k], FaceIndex(f), p, p + t.stride, p + 2 * t.stride);
  };
  // the order of the calls must not matter: attribute-major, or face-major (descending) for odd sizes
  if (nf % 2 == 0) {
    for (int k = 0; k < na; ++k)
      for (int f = 0; f < nf; ++f) set(k, f);
  } else {
    for (int f = nf - 1; f >= 0; --f)
      for (int k = na - 1; k >= 0; --k) set(k, f);
  }
  std::unique_ptr<Mesh> m = b.Finalize();
  if (!m) return "null";
  // the deduplication the builder ran must have reached its fixed point
  const std::string d1 = dump_geom(m.get(), m.get());
  const bool r = m->DeduplicateAttributeValues();
  m->DeduplicatePointIds();
  const std::string d2 = dump_geom(m.get(), m.get());
  return d1 + " || " + (d1 == d2 ? std::string("=") : d2) + (r ? "" : " || ret=false");
}

VH_OP(buildmesh) {
  TriangleSoupMeshBuilder b;
  return run_buildmesh(b, a);
}

// splits `<op> A… -- B…` into the argument vectors `<op> A…` and `<op> B…`
static bool split_history(const vh::Args &a, vh::Args *first, vh::Args *second) {
  size_t sep = 1;
  while (sep < a.size() && a[sep] != "--") ++sep;
  if (sep >= a.size()) return false;
  first->assign(a.begin(), a.begin() + sep);
  second->assign(1, a[0]);
  second->insert(second->end(), a.begin() + sep + 1, a.end());
  return true;
}

// buildmeshh <description A> -- <description B>: ONE TriangleSoupMeshBuilder object builds A, then (Start again) B;
// the answer for B is held to the same standard as a fresh object's: output as `buildmesh B`
VH_OP(buildmeshh) {
  vh::Args fa, fb;
  if (!split_history(a, &fa, &fb)) return "invalid-input";
  TriangleSoupMeshBuilder b;
  if (run_buildmesh(b, fa) == "invalid-input") return "invalid-input";
  return run_buildmesh(b, fb);
}

// one Start … Finalize cycle of `b` for the description a[1..] = <np> <dedup> <na> {att}*
static std::string run_buildpc(PointCloudBuilder &b, const vh::Args &a) {
  if (a.size() < 4) return "invalid-input";
  const int np = atoi(a[1].c_str()), na = atoi(a[3].c_str());
  const bool dedup = a[2] == "1";
  if (np < 0 || na < 0) return "invalid-input";
  std::vector<AttIn> atts(na);
  for (int k = 0; k < na; ++k)
    if (!parse_att(a, 4 + 6 * static_cast<size_t>(k), &atts[k])) return "invalid-input";
  b.Start(np);
  for (int k = 0; k < na; ++k) {
    AttIn &t = atts[k];
    const int id = b.AddAttribute(static_cast<GeometryAttribute::Type>(t.att_type), static_cast<int8_t>(t.nc),
                                  static_cast<DataType>(t.dt), t.nz);
    if (id != k) return "invalid-input";
    const size_t need = static_cast<size_t>(t.stride) * np;
    if (t.data.size() < need) t.data.resize(need, 0);
    if (np == 0) continue;
    if (t.kinds == "1") {
      b.SetAttributeValuesForAllPoints(id, t.data.data(), 0);
    } else if (t.kinds == "2") {
      const int pad = 3;
      std::vector<uint8_t> wide(static_cast<size_t>(t.stride + pad) * np, 0xAB);
      for (int p = 0; p < np; ++p)
        memcpy(wide.data() + static_cast<size_t>(t.stride + pad) * p, t.data.data() + static_cast<size_t>(t.stride) * p,
               t.stride);
      b.SetAttributeValuesForAllPoints(id, wide.data(), t.stride + pad);
    } else {
      for (int p = np - 1; p >= 0; --p)
        b.SetAttributeValueForPoint(id, PointIndex(p), t.data.data() + static_cast<size_t>(t.stride) * p);
    }
  }
  std::unique_ptr<PointCloud> pc = b.Finalize(dedup);
  if (!pc) return "null";
  const std::string d1 = dump_geom(pc.get(), nullptr);
  if (!dedup) return d1;
  const bool r = pc->DeduplicateAttributeValues();
  pc->DeduplicatePointIds();
  const std::string d2 = dump_geom(pc.get(), nullptr);
  return d1 + " || " + (d1 == d2 ? std::string("=") : d2) + (r ? "" : " || ret=false");
}

VH_OP(buildpc) {
  PointCloudBuilder b;
  return run_buildpc(b, a);
}

// buildpch <description A> -- <description B>: ONE PointCloudBuilder object used twice (the MultiUse pattern of
// point_cloud_builder_test.cc); output as `buildpc B`
VH_OP(buildpch) {
  vh::Args fa, fb;
  if (!split_history(a, &fa, &fb)) return "invalid-input";
  PointCloudBuilder b;
  if (run_buildpc(b, fa) == "invalid-input") return "invalid-input";
  return run_buildpc(b, fb);
}
