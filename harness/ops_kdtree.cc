// kd-tree point cloud coder on the real classes (DynamicIntegerPointsKdTreeEncoder / Decoder).
//   kdenc <level 0..6> <dim> <bit_length> <coordsCSV|->        -> <hex>          (EncodePoints)
//   kddec <level 0..6> <dim> <max_points|-> <hex>              -> F | ok <consumed> <num_decoded> <coordsCSV|->
//   kdrt  <level 0..6> <dim> <bit_length> <coordsCSV|-> <trailhex|->
//        -> <hex> | <kddec result of hex+trail with max_points = number of points>
//   kdmut <level> <dim> <bit_length> <coordsCSV> <dec level> <dec dim> <max_points> <mutationsCSV>
//        -> <hex of the mutated encoding> | <kddec result>
//        mutations, applied in order to the bytes of kdenc: e<pos>:<byte> (pos modulo length),
//        t<len> (truncate to len modulo length+1), i<pos>:<byte> (insert before pos modulo length+1)
// coords: n*dim uint32 values, point after point.
#include <limits>

#include "common.h"
#include "draco/compression/attributes/point_d_vector.h"
#include "draco/compression/point_cloud/algorithms/dynamic_integer_points_kd_tree_decoder.h"
#include "draco/compression/point_cloud/algorithms/dynamic_integer_points_kd_tree_encoder.h"
#include "draco/core/decoder_buffer.h"
#include "draco/core/encoder_buffer.h"

using namespace draco;

namespace {

template <int level>
std::vector<uint8_t> EncodeLevel(uint32_t dim, uint32_t bit_length, const std::vector<int64_t> &c) {
  const uint32_t n = dim ? static_cast<uint32_t>(c.size() / dim) : 0;
  PointDVector<uint32_t> pv(n, dim);
  for (uint32_t i = 0; i < n; ++i)
    for (uint32_t j = 0; j < dim; ++j) pv[i][j] = static_cast<uint32_t>(c[i * dim + j]);
  EncoderBuffer buf;
  DynamicIntegerPointsKdTreeEncoder<level> enc(dim);
  enc.EncodePoints(pv.begin(), pv.end(), bit_length, &buf);
  return std::vector<uint8_t>(buf.data(), buf.data() + buf.size());
}

std::vector<uint8_t> Encode(int level, uint32_t dim, uint32_t bl, const std::vector<int64_t> &c) {
  switch (level) {
    case 0: return EncodeLevel<0>(dim, bl, c);
    case 1: return EncodeLevel<1>(dim, bl, c);
    case 2: return EncodeLevel<2>(dim, bl, c);
    case 3: return EncodeLevel<3>(dim, bl, c);
    case 4: return EncodeLevel<4>(dim, bl, c);
    case 5: return EncodeLevel<5>(dim, bl, c);
    default: return EncodeLevel<6>(dim, bl, c);
  }
}

// output iterator collecting the points
struct Collect {
  std::vector<uint32_t> *out;
  Collect &operator*() { return *this; }
  Collect &operator=(const std::vector<uint32_t> &p) {
    out->insert(out->end(), p.begin(), p.end());
    return *this;
  }
  Collect &operator++() { return *this; }
};

template <int level>
std::string DecodeLevel(uint32_t dim, bool limited, uint32_t max_points, const std::vector<uint8_t> &d) {
  DecoderBuffer b;
  b.Init(reinterpret_cast<const char *>(d.data()), d.size(), DRACO_BITSTREAM_VERSION(2, 3));
  std::vector<uint32_t> pts;
  Collect c{&pts};
  DynamicIntegerPointsKdTreeDecoder<level> dec(dim);
  const bool ok = limited ? dec.DecodePoints(&b, c, max_points) : dec.DecodePoints(&b, c);
  if (!ok) return "F";
  return "ok " + std::to_string(static_cast<int64_t>(d.size()) - b.remaining_size()) + " " +
         std::to_string(dec.num_decoded_points()) + " " + vh::joinl(pts);
}

std::string Decode(int level, uint32_t dim, bool limited, uint32_t mp, const std::vector<uint8_t> &d) {
  switch (level) {
    case 0: return DecodeLevel<0>(dim, limited, mp, d);
    case 1: return DecodeLevel<1>(dim, limited, mp, d);
    case 2: return DecodeLevel<2>(dim, limited, mp, d);
    case 3: return DecodeLevel<3>(dim, limited, mp, d);
    case 4: return DecodeLevel<4>(dim, limited, mp, d);
    case 5: return DecodeLevel<5>(dim, limited, mp, d);
    default: return DecodeLevel<6>(dim, limited, mp, d);
  }
}

}  // namespace

VH_OP(kdenc) {
  return vh::hex(Encode(atoi(a[1].c_str()), static_cast<uint32_t>(vh::u64(a[2])),
                        static_cast<uint32_t>(vh::u64(a[3])), vh::ilist(a[4])));
}

VH_OP(kddec) {
  const bool limited = a[3] != "-";
  return Decode(atoi(a[1].c_str()), static_cast<uint32_t>(vh::u64(a[2])), limited,
                limited ? static_cast<uint32_t>(vh::u64(a[3])) : 0, vh::unhex(a[4]));
}

VH_OP(kdrt) {
  const int level = atoi(a[1].c_str());
  const uint32_t dim = static_cast<uint32_t>(vh::u64(a[2]));
  auto c = vh::ilist(a[4]);
  auto bytes = Encode(level, dim, static_cast<uint32_t>(vh::u64(a[3])), c);
  std::string h = vh::hex(bytes);
  auto t = vh::unhex(a[5]);
  bytes.insert(bytes.end(), t.begin(), t.end());
  return h + " | " + Decode(level, dim, true, dim ? static_cast<uint32_t>(c.size() / dim) : 0, bytes);
}

VH_OP(kdmut) {
  const int level = atoi(a[1].c_str());
  const uint32_t dim = static_cast<uint32_t>(vh::u64(a[2]));
  auto bytes = Encode(level, dim, static_cast<uint32_t>(vh::u64(a[3])), vh::ilist(a[4]));
  std::stringstream ss(a[8]);
  std::string m;
  while (std::getline(ss, m, ',')) {
    if (m.empty()) continue;
    const size_t c = m.find(':');
    const uint64_t x = strtoull(m.c_str() + 1, nullptr, 10);
    const uint8_t v = c == std::string::npos ? 0 : static_cast<uint8_t>(atoi(m.c_str() + c + 1));
    if (m[0] == 'e' && !bytes.empty()) {
      bytes[x % bytes.size()] = v;
    } else if (m[0] == 't') {
      bytes.resize(x % (bytes.size() + 1));
    } else if (m[0] == 'i') {
      bytes.insert(bytes.begin() + (x % (bytes.size() + 1)), v);
    }
  }
  return vh::hex(bytes) + " | " +
         Decode(atoi(a[5].c_str()), static_cast<uint32_t>(vh::u64(a[6])), true, static_cast<uint32_t>(vh::u64(a[7])), bytes);
}
