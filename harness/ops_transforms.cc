// C16 / C07: prediction-correction transforms and octahedral normal tools on the real classes.
#include <cmath>

#include "common.h"
#include "draco/compression/attributes/normal_compression_utils.h"
#include "draco/compression/attributes/prediction_schemes/prediction_scheme_normal_octahedron_canonicalized_decoding_transform.h"
#include "draco/compression/attributes/prediction_schemes/prediction_scheme_normal_octahedron_canonicalized_encoding_transform.h"
#include "draco/compression/attributes/prediction_schemes/prediction_scheme_wrap_decoding_transform.h"
#include "draco/compression/attributes/prediction_schemes/prediction_scheme_wrap_encoding_transform.h"
#include "draco/core/decoder_buffer.h"
#include "draco/core/encoder_buffer.h"

using namespace draco;
typedef PredictionSchemeWrapEncodingTransform<int, int> WEnc;
typedef PredictionSchemeWrapDecodingTransform<int, int> WDec;
typedef PredictionSchemeNormalOctahedronCanonicalizedEncodingTransform<int> OEnc;
typedef PredictionSchemeNormalOctahedronCanonicalizedDecodingTransform<int> ODec;

struct WDecX : public WDec {
  int maxc() const { return this->max_correction(); }
  int minc() const { return this->min_correction(); }
};
static const uint64_t kMod = 2305843009213693951ULL;
static inline void mix(uint64_t &h, int32_t v) {
  h = static_cast<uint64_t>((static_cast<unsigned __int128>(h) * 1000003u + static_cast<uint32_t>(v)) % kMod);
}

template <class D>
static bool init_wdec(D *d, int32_t mn, int32_t mx) {
  EncoderBuffer eb;
  eb.Encode(mn);
  eb.Encode(mx);
  DecoderBuffer db;
  db.Init(eb.data(), eb.size());
  if (!d->DecodeTransformData(&db)) return false;
  d->Init(1);
  return true;
}
// the encoder derives its bounds from the data: {mn, mx}; transform data goes through the buffer
static bool wrap_case(int32_t mn, int32_t mx, int32_t orig, int32_t pred, int32_t *corr, int32_t *dec,
                      int32_t *minc, int32_t *maxc) {
  int32_t data[2] = {mn, mx};
  WEnc e;
  e.Init(data, 2, 1);
  e.ComputeCorrection(&orig, &pred, corr);
  EncoderBuffer eb;
  e.EncodeTransformData(&eb);
  WDecX d;
  DecoderBuffer db;
  db.Init(eb.data(), eb.size());
  if (!d.DecodeTransformData(&db)) return false;
  d.Init(1);
  d.ComputeOriginalValue(&pred, corr, dec);
  *minc = d.minc();
  *maxc = d.maxc();
  return true;
}
// wrap <min> <max> <orig> <pred> -> "<corr> <decoded> <min_corr> <max_corr>" | fail
VH_OP(wrap) {
  int32_t corr, dec, minc, maxc;
  if (!wrap_case((int32_t)vh::i64(a[1]), (int32_t)vh::i64(a[2]), (int32_t)vh::i64(a[3]), (int32_t)vh::i64(a[4]),
                 &corr, &dec, &minc, &maxc))
    return "fail";
  return std::to_string(corr) + " " + std::to_string(dec) + " " + std::to_string(minc) + " " + std::to_string(maxc);
}
// wrapdec <min> <max> <pred> <corr> -> "<decoded>" | fail   (decoder on arbitrary corrections)
VH_OP(wrapdec) {
  WDec d;
  if (!init_wdec(&d, (int32_t)vh::i64(a[1]), (int32_t)vh::i64(a[2]))) return "fail";
  int32_t pred = (int32_t)vh::i64(a[3]), corr = (int32_t)vh::i64(a[4]), o;
  d.ComputeOriginalValue(&pred, &corr, &o);
  return std::to_string(o);
}
// wrap_sweep <base> <width>: all min<=max in [base, base+width], all orig in [min,max], pred in a
// window around the range and at the int32 extremes -> "<hash> <roundtrip violations> <bound violations> <n>"
VH_OP(wrap_sweep) {
  int64_t base = vh::i64(a[1]), w = vh::i64(a[2]);
  uint64_t h = 7;
  long viol = 0, bad = 0, n = 0;
  for (int64_t mn = base; mn <= base + w; ++mn)
    for (int64_t mx = mn; mx <= base + w; ++mx) {
      if (mn < INT32_MIN || mx > INT32_MAX) continue;
      std::vector<int64_t> preds;
      for (int64_t p = mn - 4; p <= mx + 4; ++p) preds.push_back(p);
      preds.push_back(INT32_MIN);
      preds.push_back(INT32_MAX);
      preds.push_back(0);
      for (int64_t o = mn; o <= mx; ++o)
        for (int64_t p : preds) {
          if (p < INT32_MIN || p > INT32_MAX) continue;
          int32_t corr, dec, minc, maxc;
          if (!wrap_case((int32_t)mn, (int32_t)mx, (int32_t)o, (int32_t)p, &corr, &dec, &minc, &maxc)) continue;
          ++n;
          mix(h, corr);
          mix(h, dec);
          if (dec != o) ++viol;
          if (corr < minc || corr > maxc) ++bad;
        }
    }
  return std::to_string(h) + " " + std::to_string(viol) + " " + std::to_string(bad) + " " + std::to_string(n);
}

static bool init_odec(ODec *d, int32_t mq, int32_t center) {
  EncoderBuffer eb;
  eb.Encode(mq);
  eb.Encode(center);
  DecoderBuffer db;
  db.Init(eb.data(), eb.size());
  return d->DecodeTransformData(&db);
}
struct OctaCtx {
  OctahedronToolBox tb;
  OEnc e;
  ODec d;
  bool ok;
  explicit OctaCtx(int q) : e((1 << q) - 1), ok(false) {
    if (!tb.SetQuantizationBits(q)) return;
    EncoderBuffer eb;
    e.EncodeTransformData(&eb);
    DecoderBuffer db;
    db.Init(eb.data(), eb.size());
    ok = d.DecodeTransformData(&db);
  }
};
// octa <q> <os> <ot> <ps> <pt> -> "<cs> <ct> <ds> <dt> <orig canonical 0|1>" | fail
VH_OP(octa) {
  int q = atoi(a[1].c_str());
  if (q < 2 || q > 30) return "fail";
  OctaCtx c(q);
  if (!c.ok) return "fail";
  int orig[2] = {(int)vh::i64(a[2]), (int)vh::i64(a[3])}, pred[2] = {(int)vh::i64(a[4]), (int)vh::i64(a[5])};
  int corr[2], back[2], cs, ct;
  c.e.ComputeCorrection(orig, pred, corr);
  c.d.ComputeOriginalValue(pred, corr, back);
  c.tb.CanonicalizeOctahedralCoords(orig[0], orig[1], &cs, &ct);
  return std::to_string(corr[0]) + " " + std::to_string(corr[1]) + " " + std::to_string(back[0]) + " " +
         std::to_string(back[1]) + " " + ((cs == orig[0] && ct == orig[1]) ? "1" : "0");
}
// octadec <q> <ps> <pt> <cs> <ct> -> "<ds> <dt>"   (decoder on arbitrary corrections)
VH_OP(octadec) {
  int q = atoi(a[1].c_str());
  if (q < 2 || q > 30) return "fail";
  OctaCtx c(q);
  if (!c.ok) return "fail";
  int pred[2] = {(int)vh::i64(a[2]), (int)vh::i64(a[3])}, corr[2] = {(int)vh::i64(a[4]), (int)vh::i64(a[5])}, back[2];
  c.d.ComputeOriginalValue(pred, corr, back);
  return std::to_string(back[0]) + " " + std::to_string(back[1]);
}
// octa_sweep <q>: every (orig, pred) pair of the grid -> "<hash> <violations on canonical orig> <corr out of [0,2c]> <n>"
VH_OP(octa_sweep) {
  int q = atoi(a[1].c_str());
  OctaCtx c(q);
  if (!c.ok) return "fail";
  const int m = c.tb.max_value();
  uint64_t h = 7;
  long viol = 0, bad = 0, n = 0;
  for (int os = 0; os <= m; ++os)
    for (int ot = 0; ot <= m; ++ot) {
      int cs, ct;
      c.tb.CanonicalizeOctahedralCoords(os, ot, &cs, &ct);
      const bool canon = cs == os && ct == ot;
      for (int ps = 0; ps <= m; ++ps)
        for (int pt = 0; pt <= m; ++pt) {
          int orig[2] = {os, ot}, pred[2] = {ps, pt}, corr[2], back[2];
          c.e.ComputeCorrection(orig, pred, corr);
          c.d.ComputeOriginalValue(pred, corr, back);
          ++n;
          mix(h, corr[0]);
          mix(h, corr[1]);
          mix(h, back[0]);
          mix(h, back[1]);
          if (canon && (back[0] != os || back[1] != ot)) ++viol;
          if (canon && (corr[0] < 0 || corr[0] > m || corr[1] < 0 || corr[1] > m)) ++bad;
        }
    }
  return std::to_string(h) + " " + std::to_string(viol) + " " + std::to_string(bad) + " " + std::to_string(n);
}
static uint32_t fbits(float f) {
  uint32_t b;
  memcpy(&b, &f, 4);
  return b;
}
static float bitsf(uint32_t b) {
  float f;
  memcpy(&f, &b, 4);
  return f;
}
// octa_tool <q> canon <s> <t> | intvec <x> <y> <z> | fvec <b0> <b1> <b2> | unit <s> <t>
VH_OP(octa_tool) {
  int q = atoi(a[1].c_str());
  OctahedronToolBox tb;
  if (!tb.SetQuantizationBits(q)) return "fail";
  const std::string &fn = a[2];
  if (fn == "canon") {
    int s, t;
    tb.CanonicalizeOctahedralCoords((int)vh::i64(a[3]), (int)vh::i64(a[4]), &s, &t);
    return std::to_string(s) + " " + std::to_string(t);
  }
  if (fn == "intvec") {
    int v[3] = {(int)vh::i64(a[3]), (int)vh::i64(a[4]), (int)vh::i64(a[5])}, s, t;
    tb.IntegerVectorToQuantizedOctahedralCoords(v, &s, &t);
    return std::to_string(s) + " " + std::to_string(t);
  }
  if (fn == "fvec") {
    float v[3] = {bitsf((uint32_t)vh::u64(a[3])), bitsf((uint32_t)vh::u64(a[4])), bitsf((uint32_t)vh::u64(a[5]))};
    int s, t;
    tb.FloatVectorToQuantizedOctahedralCoords(v, &s, &t);
    float o[3];
    tb.QuantizedOctahedralCoordsToUnitVector(s, t, o);
    return std::to_string(s) + " " + std::to_string(t) + " " + std::to_string(fbits(o[0])) + " " +
           std::to_string(fbits(o[1])) + " " + std::to_string(fbits(o[2]));
  }
  if (fn == "unit") {
    float o[3];
    tb.QuantizedOctahedralCoordsToUnitVector((int)vh::i64(a[3]), (int)vh::i64(a[4]), o);
    return std::to_string(fbits(o[0])) + " " + std::to_string(fbits(o[1])) + " " + std::to_string(fbits(o[2]));
  }
  return "bad-op";
}
