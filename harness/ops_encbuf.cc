// C17: ONE EncoderBuffer receiving an arbitrary interleaving of byte-mode writes and bit regions
// (with and without stored size), then ONE DecoderBuffer reading the items back in order.
//   buf_seq <item> <item> … [t<trailing hex>]
//   items:  r<hex>                raw bytes            Encode(data, n)
//           v<value>              EncodeVarint<uint64_t>
//           s<req>:<ops> / n<req>:<ops>   bit region with / without stored size; StartBitEncoding(req, ·),
//                                 ops = <nbits>.<value>;…  or -     EncodeLeastSignificantBits32, EndBitEncoding
//   -> ok <buffer hex> <T | F:<what>>   (T: every value read back, masked to its width; the reader stops exactly
//                                        before the trailing bytes)    | fail (a write call returned false)
#include "common.h"
#include "draco/core/decoder_buffer.h"
#include "draco/core/encoder_buffer.h"
#include "draco/core/varint_decoding.h"
#include "draco/core/varint_encoding.h"

using namespace draco;

namespace {
struct Item {
  char kind;
  std::vector<uint8_t> raw;
  uint64_t v = 0;
  int64_t req = 0;
  std::vector<std::pair<int, uint32_t>> ops;
};
Item parse_item(const std::string &t) {
  Item it;
  it.kind = t[0];
  if (it.kind == 'r') {
    it.raw = vh::unhex(t.substr(1));
  } else if (it.kind == 'v') {
    it.v = strtoull(t.c_str() + 1, nullptr, 10);
  } else {
    size_t c = t.find(':');
    it.req = strtoll(t.substr(1, c - 1).c_str(), nullptr, 10);
    std::string o = t.substr(c + 1);
    if (o != "-") {
      size_t p = 0;
      while (p <= o.size()) {
        size_t q = o.find(';', p);
        if (q == std::string::npos) q = o.size();
        std::string e = o.substr(p, q - p);
        size_t d = e.find('.');
        it.ops.emplace_back(atoi(e.substr(0, d).c_str()),
                            static_cast<uint32_t>(strtoull(e.substr(d + 1).c_str(), nullptr, 10)));
        p = q + 1;
      }
    }
  }
  return it;
}
}  // namespace

VH_OP(buf_seq) {
  std::vector<Item> items;
  std::vector<uint8_t> trail;
  for (size_t i = 1; i < a.size(); ++i) {
    if (a[i][0] == 't')
      trail = vh::unhex(a[i].substr(1));
    else
      items.push_back(parse_item(a[i]));
  }
  EncoderBuffer buf;
  for (auto &it : items) {
    if (it.kind == 'r') {
      if (!buf.Encode(it.raw.data(), it.raw.size())) return "fail";
    } else if (it.kind == 'v') {
      if (!EncodeVarint<uint64_t>(it.v, &buf)) return "fail";
    } else {
      if (!buf.StartBitEncoding(it.req, it.kind == 's')) return "fail";
      for (auto &o : it.ops)
        if (!buf.EncodeLeastSignificantBits32(o.first, o.second)) return "fail";
      buf.EndBitEncoding();
    }
  }
  std::string out = "ok " + vh::hex(buf.data(), buf.size());
  std::vector<char> d(buf.data(), buf.data() + buf.size());
  d.insert(d.end(), trail.begin(), trail.end());
  DecoderBuffer db;
  db.Init(d.data(), d.size());
  db.set_bitstream_version(DRACO_BITSTREAM_VERSION(2, 2));
  int idx = 0;
  for (auto &it : items) {
    const std::string at = std::to_string(idx++);
    if (it.kind == 'r') {
      std::vector<uint8_t> got(it.raw.size());
      if (!db.Decode(got.data(), got.size())) return out + " F:raw-read-fails@" + at;
      if (got != it.raw) return out + " F:raw-differs@" + at;
    } else if (it.kind == 'v') {
      uint64_t v = 0;
      if (!DecodeVarint<uint64_t>(&v, &db)) return out + " F:varint-read-fails@" + at;
      if (v != it.v) return out + " F:varint-" + std::to_string(v) + "-for-" + std::to_string(it.v) + "@" + at;
    } else {
      uint64_t size = 0;
      uint64_t nbits_total = 0;
      for (auto &o : it.ops) nbits_total += o.first;
      if (!db.StartBitDecoding(it.kind == 's', &size)) return out + " F:start-bit-decoding-fails@" + at;
      if (it.kind == 's' && size != (nbits_total + 7) / 8)
        return out + " F:stored-size-" + std::to_string(size) + "-for-" + std::to_string((nbits_total + 7) / 8) + "@" + at;
      for (auto &o : it.ops) {
        uint32_t v = 0;
        if (!db.DecodeLeastSignificantBits32(o.first, &v)) return out + " F:bit-read-fails@" + at;
        const uint32_t want = o.first >= 32 ? o.second : (o.second & ((1u << o.first) - 1));
        if (v != want) return out + " F:bits-" + std::to_string(v) + "-for-" + std::to_string(want) + "@" + at;
      }
      db.EndBitDecoding();
    }
  }
  if (db.remaining_size() != static_cast<int64_t>(trail.size()))
    return out + " F:reader-stops-" + std::to_string(db.remaining_size()) + "-bytes-before-the-end-instead-of-" +
           std::to_string(trail.size());
  return out + " T";
}
