// Allocation monitor interface (C18) and guarded read-only input regions (C02).
// The monitor itself (replacement operator new / delete) lives in robust_main.cc only; the
// functions are weak here so that ops_robust.cc also links into executables without a monitor
// (harness_main), where the ops report `mon=0`.
#ifndef VERIF_HARNESS_ALLOC_MONITOR_H_
#define VERIF_HARNESS_ALLOC_MONITOR_H_
#include <cstddef>
#include <cstdint>

struct VhAllocStats {
  uint64_t max_request;  // largest single operator new request (bytes) since vh_alloc_begin
  uint64_t peak_live;    // peak of live bytes allocated since vh_alloc_begin (usable sizes)
  uint64_t count;        // number of requests
  uint64_t refused;      // first request refused because it exceeded the cap (0 = none)
  uint64_t refused_live; // live bytes + request at the first request refused by the live-memory cap (0 = none)
  // return addresses of the call stack of the largest request (recorded for requests >= 256 KiB) and of the
  // request that set the peak of live bytes (recorded above 4 MiB live)
  void *max_frames[24];
  int max_nframes;
  void *peak_frames[24];
  int peak_nframes;
};

extern "C" {
// starts a measurement window; requests above `cap` bytes, and requests that would raise the live bytes above
// `live_cap`, throw std::bad_alloc (0 = no cap)
void vh_alloc_begin(uint64_t cap, uint64_t live_cap) __attribute__((weak));
// ends the window and returns the statistics
void vh_alloc_end(VhAllocStats *out) __attribute__((weak));
}

#endif
