// C17: varint / zig-zag / scalar / bit-mode primitives, called on the real classes.
#include "common.h"
#include "draco/core/bit_utils.h"
#include "draco/core/decoder_buffer.h"
#include "draco/core/encoder_buffer.h"
#include "draco/core/varint_decoding.h"
#include "draco/core/varint_encoding.h"

using namespace draco;

template <class U>
static std::string venc_u(uint64_t v) {
  EncoderBuffer b;
  if (!EncodeVarint<U>(static_cast<U>(v), &b)) return "err";
  return vh::hex(b.data(), b.size());
}
template <class S>
static std::string venc_s(int64_t v) {
  EncoderBuffer b;
  if (!EncodeVarint<S>(static_cast<S>(v), &b)) return "err";
  return vh::hex(b.data(), b.size());
}
// varint_enc <w> <signed> <value>
VH_OP(varint_enc) {
  int w = atoi(a[1].c_str());
  bool sg = a[2] == "1";
  if (!sg) {
    uint64_t v = vh::u64(a[3]);
    switch (w) {
      case 8: return venc_u<uint8_t>(v);
      case 16: return venc_u<uint16_t>(v);
      case 32: return venc_u<uint32_t>(v);
      default: return venc_u<uint64_t>(v);
    }
  }
  int64_t v = vh::i64(a[3]);
  switch (w) {
    case 8: return venc_s<int8_t>(v);
    case 16: return venc_s<int16_t>(v);
    case 32: return venc_s<int32_t>(v);
    default: return venc_s<int64_t>(v);
  }
}
template <class T>
static std::string vdec(const std::vector<uint8_t> &d) {
  DecoderBuffer b;
  b.Init(reinterpret_cast<const char *>(d.data()), d.size());
  b.set_bitstream_version(0x0203);
  T v;
  if (!DecodeVarint<T>(&v, &b)) return "err";
  return "ok " + std::to_string(v) + " " + std::to_string(b.decoded_size());
}
// varint_dec <w> <signed> <hex>
VH_OP(varint_dec) {
  int w = atoi(a[1].c_str());
  bool sg = a[2] == "1";
  auto d = vh::unhex(a[3]);
  if (!sg) {
    switch (w) {
      case 8: return vdec<uint8_t>(d);
      case 16: return vdec<uint16_t>(d);
      case 32: return vdec<uint32_t>(d);
      default: return vdec<uint64_t>(d);
    }
  }
  switch (w) {
    case 8: return vdec<int8_t>(d);
    case 16: return vdec<int16_t>(d);
    case 32: return vdec<int32_t>(d);
    default: return vdec<int64_t>(d);
  }
}

// varint_rt <w> <signed> <value> <trailing hex>: encode with the real encoder, append the
// trailing bytes, decode with the real decoder -> "ok <decoded> <consumed> <encoded_len>" | "err"
template <class T>
static std::string vrt(T v, const std::vector<uint8_t> &trail) {
  EncoderBuffer e;
  if (!EncodeVarint<T>(v, &e)) return "err-enc";
  std::vector<uint8_t> d(e.data(), e.data() + e.size());
  d.insert(d.end(), trail.begin(), trail.end());
  DecoderBuffer b;
  b.Init(reinterpret_cast<const char *>(d.data()), d.size());
  b.set_bitstream_version(0x0203);
  T o;
  if (!DecodeVarint<T>(&o, &b)) return "err-dec";
  return "ok " + std::to_string(o) + " " + std::to_string(b.decoded_size()) + " " + std::to_string(e.size());
}
VH_OP(varint_rt) {
  int w = atoi(a[1].c_str());
  bool sg = a[2] == "1";
  auto t = vh::unhex(a[4]);
  if (!sg) {
    uint64_t v = vh::u64(a[3]);
    switch (w) {
      case 8: return vrt<uint8_t>(v, t);
      case 16: return vrt<uint16_t>(v, t);
      case 32: return vrt<uint32_t>(v, t);
      default: return vrt<uint64_t>(v, t);
    }
  }
  int64_t v = vh::i64(a[3]);
  switch (w) {
    case 8: return vrt<int8_t>(v, t);
    case 16: return vrt<int16_t>(v, t);
    case 32: return vrt<int32_t>(v, t);
    default: return vrt<int64_t>(v, t);
  }
}
