// C13: CornerTable::Create on the real class; canonical dump + independent check of the clauses
// I1..I5 through the public accessors; exhaustive enumeration with a digest.
#include <array>

#include "common.h"
#include "draco/mesh/corner_table.h"
#include "draco/mesh/corner_table_iterators.h"

using namespace draco;
typedef std::vector<std::array<uint32_t, 3>> Raw;

static long ci(CornerIndex c) { return c == kInvalidCornerIndex ? -1 : static_cast<long>(c.value()); }
static long vi(VertexIndex v) { return v == kInvalidVertexIndex ? -1 : static_cast<long>(v.value()); }

static std::string check(const Raw &in, const CornerTable &ct) {
  const int n = ct.num_corners();
  auto inV = [&](int c) { return in[c / 3][c % 3]; };
  auto deg = [&](int f) { return in[f][0] == in[f][1] || in[f][0] == in[f][2] || in[f][1] == in[f][2]; };
  if (n != static_cast<int>(in.size()) * 3) return "BAD-size";
  for (int c = 0; c < n; ++c) {
    CornerIndex C(c);
    CornerIndex o = ct.Opposite(C);
    if (o != kInvalidCornerIndex) {
      if (static_cast<int>(o.value()) >= n) return "BAD-I1-range";
      if (ct.Opposite(o) != C) return "BAD-I1-symmetric";
      if (o == C || ct.Face(o) == ct.Face(C)) return "BAD-I1-distinct";
      auto P = [&](CornerIndex x) { return ct.VertexParent(ct.Vertex(x)); };
      if (P(ct.Next(C)) != P(ct.Previous(o)) || P(ct.Previous(C)) != P(ct.Next(o))) return "BAD-I2-edge";
      if (inV(ct.Next(C).value()) != inV(ct.Previous(o).value()) ||
          inV(ct.Previous(C).value()) != inV(ct.Next(o).value()))
        return "BAD-I2-input-edge";
    }
    if (deg(c / 3)) {
      if (o != kInvalidCornerIndex) return "BAD-I3-degenerate-linked";
    } else {
      VertexIndex v = ct.Vertex(C);
      if (static_cast<int>(v.value()) >= ct.num_vertices()) return "BAD-I4-range";
      if (ct.VertexParent(v).value() != inV(c)) return "BAD-I4-vertex-parent";
      CornerIndex start = ct.LeftMostCorner(v);
      if (start == kInvalidCornerIndex) return "BAD-I5-no-representative";
      CornerIndex x = start;
      bool found = false;
      int steps = 0;
      while (x != kInvalidCornerIndex) {
        if (x == C) found = true;
        x = ct.SwingRight(x);
        if (x == start) break;
        if (++steps > n) return "BAD-I5-nonterminating";
      }
      if (!found) return "BAD-I5-fan-incomplete";
    }
  }
  return "ok";
}
static std::string dump(const CornerTable &ct) {
  const int n = ct.num_corners(), nv = ct.num_vertices(), no = ct.NumOriginalVertices();
  std::string s = std::to_string(n) + " " + std::to_string(nv) + " " + std::to_string(nv - no) + " " + std::to_string(no);
  for (int c = 0; c < n; ++c) s += " " + std::to_string(vi(ct.Vertex(CornerIndex(c))));
  for (int c = 0; c < n; ++c) s += " " + std::to_string(ci(ct.Opposite(CornerIndex(c))));
  for (int v = 0; v < nv; ++v) s += " " + std::to_string(ci(ct.LeftMostCorner(VertexIndex(v))));
  for (int v = no; v < nv; ++v) s += " " + std::to_string(vi(ct.VertexParent(VertexIndex(v))));
  s += " " + std::to_string(ct.NumDegeneratedFaces()) + " " + std::to_string(ct.NumIsolatedVertices());
  return s;
}
static std::unique_ptr<CornerTable> create(const Raw &raw) {
  IndexTypeVector<FaceIndex, CornerTable::FaceType> faces(raw.size());
  for (size_t i = 0; i < raw.size(); ++i) {
    CornerTable::FaceType f;
    for (int j = 0; j < 3; ++j) f[j] = VertexIndex(raw[i][j]);
    faces[FaceIndex(static_cast<uint32_t>(i))] = f;
  }
  return CornerTable::Create(faces);
}
// ct <facesCSV|-> -> "<check> | <dump>"
VH_OP(ct) {
  auto l = vh::ilist(a[1]);
  Raw raw;
  for (size_t i = 0; i + 2 < l.size(); i += 3)
    raw.push_back({static_cast<uint32_t>(l[i]), static_cast<uint32_t>(l[i + 1]), static_cast<uint32_t>(l[i + 2])});
  auto t = create(raw);
  if (!t) return "NULL";
  return check(raw, *t) + " | " + dump(*t);
}
static const uint64_t kMod = 2305843009213693951ULL;
static inline void mixs(uint64_t &h, const std::string &s) {
  for (unsigned char ch : s) h = static_cast<uint64_t>((static_cast<unsigned __int128>(h) * 1000003u + ch) % kMod);
}
// ct_sweep <numFaces> <numIds> <stride> <offset>: every list of numFaces triangles over numIds ids whose
// index i (mixed radix, first corner most significant) satisfies i % stride == offset
// -> "<digest of dumps> <violations> <n> <first violating list or ->"
VH_OP(ct_sweep) {
  const int nf = atoi(a[1].c_str()), ids = atoi(a[2].c_str());
  const uint64_t stride = vh::u64(a[3]), offset = vh::u64(a[4]);
  uint64_t total = 1;
  for (int i = 0; i < 3 * nf; ++i) total *= ids;
  uint64_t h = 7;
  long viol = 0, n = 0;
  std::string first = "-";
  for (uint64_t idx = offset; idx < total; idx += stride) {
    Raw raw(nf);
    uint64_t x = idx;
    for (int k = 3 * nf - 1; k >= 0; --k) {
      raw[k / 3][k % 3] = static_cast<uint32_t>(x % ids);
      x /= ids;
    }
    auto t = create(raw);
    ++n;
    if (!t) {
      mixs(h, "NULL");
      continue;
    }
    mixs(h, dump(*t));
    std::string r = check(raw, *t);
    if (r != "ok") {
      if (!viol) {
        first = r + ":";
        for (auto &f : raw) first += std::to_string(f[0]) + "," + std::to_string(f[1]) + "," + std::to_string(f[2]) + ",";
      }
      ++viol;
    }
  }
  return std::to_string(h) + " " + std::to_string(viol) + " " + std::to_string(n) + " " + first;
}
