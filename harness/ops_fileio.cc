// C19 (I/O registries): the only process-wide mutable objects of the library are the file reader / writer
// factories' registries. Loading files on several threads at once, through different registered readers,
// must give each thread what it gets alone.
//   readfile <A|B> <n> <seed> -> ok <size> <fnv hash> | fail
//     opens "vmem<A|B>:<n>:<seed>" through FileReaderFactory (ReadFileToBuffer): two in-memory readers are
//     registered behind the library's own stdio reader, each serving only its own prefix.
#include <mutex>

#include "common.h"
#include "draco/io/file_reader_factory.h"
#include "draco/io/file_reader_interface.h"
#include "draco/io/file_utils.h"

using namespace draco;

namespace {
template <char K>
class VmemReader : public FileReaderInterface {
 public:
  static std::unique_ptr<FileReaderInterface> Open(const std::string &name) {
    const std::string prefix = std::string("vmem") + K + ":";
    if (name.rfind(prefix, 0) != 0) return nullptr;
    std::unique_ptr<VmemReader> r(new VmemReader());
    unsigned long n = 0, seed = 0;
    if (sscanf(name.c_str() + prefix.size(), "%lu:%lu", &n, &seed) != 2) return nullptr;
    r->data_.resize(n);
    uint32_t x = static_cast<uint32_t>(seed) * 2654435761u + K;
    for (auto &c : r->data_) {
      x = x * 1664525u + 1013904223u;
      c = static_cast<char>(x >> 24);
    }
    return r;
  }
  bool ReadFileToBuffer(std::vector<char> *buffer) override {
    *buffer = data_;
    return true;
  }
  bool ReadFileToBuffer(std::vector<uint8_t> *buffer) override {
    buffer->assign(data_.begin(), data_.end());
    return true;
  }
  size_t GetFileSize() override { return data_.size(); }

 private:
  std::vector<char> data_;
};
std::once_flag g_registered;
}  // namespace

VH_OP(readfile) {
  std::call_once(g_registered, []() {
    FileReaderFactory::RegisterReader(VmemReader<'A'>::Open);
    FileReaderFactory::RegisterReader(VmemReader<'B'>::Open);
  });
  const std::string name = "vmem" + a[1] + ":" + a[2] + ":" + a[3];
  std::vector<char> buf;
  if (!ReadFileToBuffer(name, &buf)) return "fail";
  uint32_t h = 2166136261u;
  for (char c : buf) h = (h ^ static_cast<uint8_t>(c)) * 16777619u;
  return "ok " + std::to_string(buf.size()) + " " + std::to_string(h);
}
