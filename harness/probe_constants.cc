// Prints format constants of the working tree for the translator (tools/vlib/translate.py):
// one `name value` (or `name v0,v1,…`) per line.
#include <cstdio>

#include "draco/attributes/geometry_attribute.h"
#include "draco/compression/attributes/prediction_schemes/mesh_prediction_scheme_constrained_multi_parallelogram_shared.h"
#include "draco/compression/config/compression_shared.h"
#include "draco/compression/entropy/rans_symbol_coding.h"
#include "draco/compression/mesh/mesh_edgebreaker_shared.h"
#include "draco/core/decoder_buffer.h"
#include "draco/core/draco_types.h"
#include "draco/core/varint_decoding.h"
#include "draco/mesh/mesh.h"

using namespace draco;

template <class T>
static int max_varint_len() {
  // longest run of continuation bytes the decoder accepts for this width
  int best = 0;
  for (int n = 1; n <= 16; ++n) {
    std::vector<uint8_t> d(n, 0x80);
    d[n - 1] = 0x00;
    DecoderBuffer b;
    b.Init(reinterpret_cast<const char *>(d.data()), d.size());
    T v;
    if (DecodeVarint<T>(&v, &b)) best = n;
  }
  return best;
}

int main() {
#define P(x) printf(#x " %d\n", static_cast<int>(x))
  P(kDracoPointCloudBitstreamVersionMajor);
  P(kDracoPointCloudBitstreamVersionMinor);
  P(kDracoMeshBitstreamVersionMajor);
  P(kDracoMeshBitstreamVersionMinor);
  P(POINT_CLOUD);
  P(TRIANGULAR_MESH);
  P(POINT_CLOUD_SEQUENTIAL_ENCODING);
  P(POINT_CLOUD_KD_TREE_ENCODING);
  P(MESH_SEQUENTIAL_ENCODING);
  P(MESH_EDGEBREAKER_ENCODING);
  P(BASIC_ATTRIBUTE_ENCODER);
  P(MESH_TRAVERSAL_ATTRIBUTE_ENCODER);
  P(KD_TREE_ATTRIBUTE_ENCODER);
  P(SEQUENTIAL_ATTRIBUTE_ENCODER_GENERIC);
  P(SEQUENTIAL_ATTRIBUTE_ENCODER_INTEGER);
  P(SEQUENTIAL_ATTRIBUTE_ENCODER_QUANTIZATION);
  P(SEQUENTIAL_ATTRIBUTE_ENCODER_NORMALS);
  P(PREDICTION_NONE);
  P(PREDICTION_DIFFERENCE);
  P(MESH_PREDICTION_PARALLELOGRAM);
  P(MESH_PREDICTION_MULTI_PARALLELOGRAM);
  P(MESH_PREDICTION_TEX_COORDS_DEPRECATED);
  P(MESH_PREDICTION_CONSTRAINED_MULTI_PARALLELOGRAM);
  P(MESH_PREDICTION_TEX_COORDS_PORTABLE);
  P(MESH_PREDICTION_GEOMETRIC_NORMAL);
  P(NUM_PREDICTION_SCHEMES);
  P(PREDICTION_TRANSFORM_NONE);
  P(PREDICTION_TRANSFORM_DELTA);
  P(PREDICTION_TRANSFORM_WRAP);
  P(PREDICTION_TRANSFORM_NORMAL_OCTAHEDRON);
  P(PREDICTION_TRANSFORM_NORMAL_OCTAHEDRON_CANONICALIZED);
  P(MESH_TRAVERSAL_DEPTH_FIRST);
  P(MESH_TRAVERSAL_PREDICTION_DEGREE);
  P(NUM_TRAVERSAL_METHODS);
  P(MESH_EDGEBREAKER_STANDARD_ENCODING);
  P(MESH_EDGEBREAKER_PREDICTIVE_ENCODING);
  P(MESH_EDGEBREAKER_VALENCE_ENCODING);
  P(ONE_TRIANGLE);
  P(TRIANGLE_AREA);
  P(SYMBOL_CODING_TAGGED);
  P(SYMBOL_CODING_RAW);
  P(NUM_SYMBOL_CODING_METHODS);
  P(METADATA_FLAG_MASK);
  P(TOPOLOGY_C);
  P(TOPOLOGY_S);
  P(TOPOLOGY_L);
  P(TOPOLOGY_R);
  P(TOPOLOGY_E);
  printf("kMaxNumParallelograms %d\n", static_cast<int>(constrained_multi_parallelogram::kMaxNumParallelograms));
  P(DT_INVALID);
  P(DT_INT8);
  P(DT_UINT8);
  P(DT_INT16);
  P(DT_UINT16);
  P(DT_INT32);
  P(DT_UINT32);
  P(DT_INT64);
  P(DT_UINT64);
  P(DT_FLOAT32);
  P(DT_FLOAT64);
  P(DT_BOOL);
  P(DT_TYPES_COUNT);
  P(GeometryAttribute::POSITION);
  P(GeometryAttribute::NORMAL);
  P(GeometryAttribute::COLOR);
  P(GeometryAttribute::TEX_COORD);
  P(GeometryAttribute::GENERIC);
  P(GeometryAttribute::NAMED_ATTRIBUTES_COUNT);
  printf("ransPrecisionTable ");
  for (int k = 0; k <= 32; ++k) printf("%s%d", k ? "," : "", ComputeRAnsPrecisionFromUniqueSymbolsBitLength(k));
  printf("\n");
  printf("edgebreakerTopologyBitPattern ");
  for (int k = 0; k < 5; ++k) printf("%s%d", k ? "," : "", static_cast<int>(edge_breaker_symbol_to_topology_id[k]));
  printf("\n");
  printf("edgebreakerTopologyToSymbol ");
  for (int k = 0; k < 8; ++k) printf("%s%d", k ? "," : "", static_cast<int>(edge_breaker_topology_to_symbol_id[k]));
  printf("\n");
  printf("edgebreakerBitPatternLength ");
  for (int k = 0; k < 8; ++k) printf("%s%d", k ? "," : "", static_cast<int>(edge_breaker_topology_bit_pattern_length[k]));
  printf("\n");
  printf("varintMaxLen %d,%d,%d,%d\n", max_varint_len<uint8_t>(), max_varint_len<uint16_t>(),
         max_varint_len<uint32_t>(), max_varint_len<uint64_t>());
  // C05: further constants that define the bitstream (frozen copy in lean/Frozen/Constants.lean)
  P(kDracoPointCloudBitstreamVersion);
  P(kDracoMeshBitstreamVersion);
  P(NUM_ENCODED_GEOMETRY_TYPES);
  P(PREDICTION_UNDEFINED);
  P(NUM_PREDICTION_SCHEME_TRANSFORM_TYPES);
  P(MESH_VERTEX_ATTRIBUTE);
  P(MESH_CORNER_ATTRIBUTE);
  P(MESH_FACE_ATTRIBUTE);
  P(TOPOLOGY_INIT_FACE);
  P(TOPOLOGY_INVALID);
  P(EDGEBREAKER_SYMBOL_C);
  P(EDGEBREAKER_SYMBOL_S);
  P(EDGEBREAKER_SYMBOL_L);
  P(EDGEBREAKER_SYMBOL_R);
  P(EDGEBREAKER_SYMBOL_E);
  P(EDGEBREAKER_SYMBOL_INVALID);
  P(LEFT_FACE_EDGE);
  P(RIGHT_FACE_EDGE);
  P(EDGEBREAKER_VALENCE_MODE_2_7);
  return 0;
}
