// C04 / C12: AttributeQuantizationTransform on the real classes.
#include <cmath>

#include "common.h"
#include "draco/attributes/attribute_quantization_transform.h"
#include "draco/attributes/point_attribute.h"

using namespace draco;
static uint32_t fb(float f) {
  uint32_t b;
  memcpy(&b, &f, 4);
  return b;
}
static float bf(uint32_t b) {
  float f;
  memcpy(&f, &b, 4);
  return f;
}
// qattr <q> <ncomp> <valueBitsCSV> [<rangeBits> <minBitsCSV>]
//   automatic (ComputeParameters) or explicit (SetParameters) quantization of a float attribute,
//   GeneratePortableAttribute + InverseTransformAttribute
// -> ok <rangeBits> <minBitsCSV> <kCSV> <decodedBitsCSV> | fail
VH_OP(qattr) {
  const int q = atoi(a[1].c_str());
  const int nc = atoi(a[2].c_str());
  auto vb = vh::ilist(a[3]);
  const int np = static_cast<int>(vb.size()) / nc;
  PointAttribute att;
  att.Init(GeometryAttribute::GENERIC, nc, DT_FLOAT32, false, np);
  for (int i = 0; i < np; ++i) {
    std::vector<float> row(nc);
    for (int c = 0; c < nc; ++c) row[c] = bf(static_cast<uint32_t>(vb[i * nc + c]));
    att.SetAttributeValue(AttributeValueIndex(i), row.data());
  }
  AttributeQuantizationTransform t;
  if (a.size() > 5) {
    auto mb = vh::ilist(a[5]);
    std::vector<float> mins;
    for (auto m : mb) mins.push_back(bf(static_cast<uint32_t>(m)));
    if (!t.SetParameters(q, mins.data(), nc, bf(static_cast<uint32_t>(vh::u64(a[4]))))) return "fail";
  } else {
    if (!t.ComputeParameters(att, q)) return "fail";
  }
  std::unique_ptr<PointAttribute> portable = t.InitTransformedAttribute(att, np);
  if (!t.TransformAttribute(att, {}, portable.get())) return "fail-transform";
  const int32_t *ks = reinterpret_cast<const int32_t *>(portable->GetAddress(AttributeValueIndex(0)));
  std::vector<int32_t> kv(ks, ks + np * nc);
  PointAttribute target;
  target.Init(GeometryAttribute::GENERIC, nc, DT_FLOAT32, false, np);
  if (!t.InverseTransformAttribute(*portable, &target)) return "fail-inverse";
  std::vector<uint32_t> dec, mins;
  std::vector<float> row(nc);
  for (int i = 0; i < np; ++i) {
    target.GetValue(AttributeValueIndex(i), row.data());
    for (int c = 0; c < nc; ++c) dec.push_back(fb(row[c]));
  }
  for (int c = 0; c < nc; ++c) mins.push_back(fb(t.min_value(c)));
  return "ok " + std::to_string(fb(t.range())) + " " + vh::joinl(mins) + " " + vh::joinl(kv) + " " + vh::joinl(dec);
}

// ---- histories on ONE transform object (a transform re-parameterised between uses must behave like a fresh one)
#include "draco/attributes/attribute_octahedron_transform.h"

static std::string octa_use(AttributeOctahedronTransform &t, const std::vector<int64_t> &vb) {
  const int np = static_cast<int>(vb.size()) / 3;
  PointAttribute att;
  att.Init(GeometryAttribute::NORMAL, 3, DT_FLOAT32, false, np);
  for (int i = 0; i < np; ++i) {
    float row[3];
    for (int c = 0; c < 3; ++c) row[c] = bf(static_cast<uint32_t>(vb[i * 3 + c]));
    att.SetAttributeValue(AttributeValueIndex(i), row);
  }
  std::unique_ptr<PointAttribute> portable = t.InitTransformedAttribute(att, np);
  if (!t.TransformAttribute(att, {}, portable.get())) return "fail-transform";
  std::vector<uint32_t> st;
  for (int i = 0; i < np; ++i) {
    uint32_t v[2];
    portable->GetValue(AttributeValueIndex(i), v);
    st.push_back(v[0]);
    st.push_back(v[1]);
  }
  PointAttribute target;
  target.Init(GeometryAttribute::NORMAL, 3, DT_FLOAT32, false, np);
  if (!t.InverseTransformAttribute(*portable, &target)) return "fail-inverse";
  std::vector<uint32_t> dec;
  for (int i = 0; i < np; ++i) {
    float row[3];
    target.GetValue(AttributeValueIndex(i), row);
    for (int c = 0; c < 3; ++c) dec.push_back(fb(row[c]));
  }
  return vh::joinl(st) + " " + vh::joinl(dec);
}

// oattr_hist <qCSV> <vectorBitsCSV>: one AttributeOctahedronTransform object, SetParameters(q_i) + transform + inverse
//   for each q_i in turn; then the last q on a fresh object
// -> <stCSV decBitsCSV of every use, separated by " | "> || <fresh object, last q>
VH_OP(oattr_hist) {
  auto qs = vh::ilist(a[1]);
  auto vb = vh::ilist(a[2]);
  AttributeOctahedronTransform t;
  std::string out;
  for (size_t i = 0; i < qs.size(); ++i) {
    t.SetParameters(static_cast<int>(qs[i]));
    if (i) out += " | ";
    out += octa_use(t, vb);
  }
  AttributeOctahedronTransform fresh;
  fresh.SetParameters(static_cast<int>(qs.back()));
  return out + " || " + octa_use(fresh, vb);
}
