// C04 / C12: AttributeQuantizationTransform on the real classes.
#include <cmath>

#include "common.h"
#include "draco/attributes/attribute_quantization_transform.h"
#include "draco/attributes/point_attribute.h"

using namespace draco;
static uint32_t fb(float f) {
  uint32_t b;
  memcpy(&b, &f, 4);
  return b;
}
static float bf(uint32_t b) {
  float f;
  memcpy(&f, &b, 4);
  return f;
}
// qattr <q> <ncomp> <valueBitsCSV> [<rangeBits> <minBitsCSV>]
//   automatic (ComputeParameters) or explicit (SetParameters) quantization of a float attribute,
//   GeneratePortableAttribute + InverseTransformAttribute
// -> ok <rangeBits> <minBitsCSV> <kCSV> <decodedBitsCSV> | fail
VH_OP(qattr) {
  const int q = atoi(a[1].c_str());
  const int nc = atoi(a[2].c_str());
  auto vb = vh::ilist(a[3]);
  const int np = static_cast<int>(vb.size()) / nc;
  PointAttribute att;
  att.Init(GeometryAttribute::GENERIC, nc, DT_FLOAT32, false, np);
  for (int i = 0; i < np; ++i) {
    std::vector<float> row(nc);
    for (int c = 0; c < nc; ++c) row[c] = bf(static_cast<uint32_t>(vb[i * nc + c]));
    att.SetAttributeValue(AttributeValueIndex(i), row.data());
  }
  AttributeQuantizationTransform t;
  if (a.size() > 5) {
    auto mb = vh::ilist(a[5]);
    std::vector<float> mins;
    for (auto m : mb) mins.push_back(bf(static_cast<uint32_t>(m)));
    if (!t.SetParameters(q, mins.data(), nc, bf(static_cast<uint32_t>(vh::u64(a[4]))))) return "fail";
  } else {
    if (!t.ComputeParameters(att, q)) return "fail";
  }
  std::unique_ptr<PointAttribute> portable = t.InitTransformedAttribute(att, np);
  if (!t.TransformAttribute(att, {}, portable.get())) return "fail-transform";
  const int32_t *ks = reinterpret_cast<const int32_t *>(portable->GetAddress(AttributeValueIndex(0)));
  std::vector<int32_t> kv(ks, ks + np * nc);
  PointAttribute target;
  target.Init(GeometryAttribute::GENERIC, nc, DT_FLOAT32, false, np);
  if (!t.InverseTransformAttribute(*portable, &target)) return "fail-inverse";
  std::vector<uint32_t> dec, mins;
  std::vector<float> row(nc);
  for (int i = 0; i < np; ++i) {
    target.GetValue(AttributeValueIndex(i), row.data());
    for (int c = 0; c < nc; ++c) dec.push_back(fb(row[c]));
  }
  for (int c = 0; c < nc; ++c) mins.push_back(fb(t.min_value(c)));
  return "ok " + std::to_string(fb(t.range())) + " " + vh::joinl(mins) + " " + vh::joinl(kv) + " " + vh::joinl(dec);
}
